#!/usr/bin/env python3
"""Mutant calibration for C11 C12 C14 C15 C16 C17 (HARNESS_GUIDE rule 7).

  git -C /repo worktree add /tmp/wt-core-mut HEAD
  python3 drivers/calibration/core_mutants.py [M11a ...]     # all mutants when no id is given
  git -C /repo worktree remove --force /tmp/wt-core-mut; rm -rf target-alt-* work/alt-*

Each mutant is applied to the scratch worktree (never to /repo), the property check is run with
VERIF_REPO pointing at it, and the tree is reverted. A mutant is caught when the exit status is 1
with violation keys beyond the known findings of the unchanged tree.
"""
import subprocess, sys, os, re
WT = os.environ.get("MUTANT_WT", "/tmp/wt-core-mut")
ROOT = os.path.dirname(os.path.dirname(os.path.dirname(os.path.abspath(__file__))))
MUTANTS = {
 # C11
 "M11a": ("C11", "core/src/value/primitive.rs",
   "            PrimitiveValue::U32(s) if !s.is_empty() => {\n                T::from(s[0]).ok_or_else(|| ConvertValueError {\n                    requested: \"integer\",",
   "            PrimitiveValue::U32(s) if !s.is_empty() => {\n                T::from(s[0] as u16).ok_or_else(|| ConvertValueError {\n                    requested: \"integer\","),
 "M11b": ("C11", "core/src/value/primitive.rs",
   "    c.is_whitespace() || c == '\\0'\n", "    c == ' '\n"),
 "M11c": ("C11", "core/src/value/primitive.rs",
   "            PrimitiveValue::U16(l) => l.truncate(limit),", "            PrimitiveValue::U16(l) => l.truncate(limit + 1),"),
 "M11d": ("C11", "core/src/value/primitive.rs",
   "            PrimitiveValue::I16(elements) => {\n                elements.extend(numbers.into_iter().map(|n| n as i16));\n                Ok(())\n            }\n            PrimitiveValue::U32(elements) => {\n                elements.extend(numbers.into_iter().map(|n| n as u32));",
   "            PrimitiveValue::I16(elements) => {\n                elements.extend(numbers.into_iter().map(|n| n.min(i16::MAX as u16) as i16));\n                Ok(())\n            }\n            PrimitiveValue::U32(elements) => {\n                elements.extend(numbers.into_iter().map(|n| n as u32));"),
 # C12
 "M12a": ("C12", "core/src/value/range.rs",
   "                    .num_days() as u32\n", "                    .num_days().min(30) as u32\n"),
 "M12b": ("C12", "core/src/value/deserialize.rs",
   "                b'+' => {\n                    check_component(DateComponent::UtcEast, &s).context(InvalidComponentSnafu)?;\n                    Some(\n                        FixedOffset::east_opt(s as i32)",
   "                b'+' => {\n                    check_component(DateComponent::UtcEast, &s).context(InvalidComponentSnafu)?;\n                    Some(\n                        FixedOffset::west_opt(s as i32)"),
 "M12c": ("C12", "core/src/value/primitive.rs",
   "                Some((_, fp)) => 7 + fp as usize, // 1 is for the '.'", "                Some((_, fp)) => 6 + fp as usize, // 1 is for the '.'"),
 "M12d": ("C12", "core/src/value/range.rs",
   "                    (f * u32::pow(10, 6 - u32::from(fp))) + (u32::pow(10, 6 - u32::from(fp))) - 1\n",
   "                    (f * u32::pow(10, 6 - u32::from(fp))) + (u32::pow(10, 6 - u32::from(fp)) - 1) / 10 * 10\n"),
 # C14
 "M14a": ("C14", "core/src/header.rs",
   "    ensure!(num.chars().all(|c| c.is_ascii_hexdigit()), NumberSnafu);",
   "    ensure!(num.chars().all(|c| c.is_ascii_digit() || ('A'..='F').contains(&c)), NumberSnafu);"),
 "M14b": ("C14", "core/src/header.rs",
   "                let (num_g, rest) = parse_tag_part(s)?;\n\n                ensure!(rest.starts_with(','), SeparatorSnafu);\n",
   "                let (num_g, rest) = parse_tag_part(s)?;\n\n"),
 "M14c": ("C14", "core/src/dictionary/data_element.rs",
   "                let item_index_part = &part[split_i + 1..part.len() - 1];\n",
   "                let item_index_part = &part[split_i + 1..part.len() - 1].trim_start_matches('0');\n"),
 # C15
 "M15a": ("C15", "dictionary-std/src/data_element.rs",
   "let group_trimmed = Tag(tag.0 & 0xFF00, tag.1);", "let group_trimmed = Tag(tag.0 & 0xFFF0, tag.1);"),
 "M15b": ("C15", "dictionary-std/src/data_element.rs",
   "(0x0010..=0x00FF).contains(&tag.1)", "(0x0010..0x00FF).contains(&tag.1)"),
 "M15c": ("C15", "dictionary-std/src/sop_class.rs",
   "        let entries_by_uid = entries.iter().map(|e| (e.uid, e));", "        let entries_by_uid = entries.iter().skip(1).map(|e| (e.uid, e));"),
 # C16
 "M16a": ("C16", "transfer-syntax-registry/src/lib.rs",
   "    TransferSyntax::new_ele(uid, name, Codec::EncapsulatedPixelData(None, None))",
   "    TransferSyntax::new(uid, name, byteordered::Endianness::Little, false, Codec::EncapsulatedPixelData(None, None))"),
 "M16b": ("C16", "transfer-syntax-registry/src/lib.rs",
   "            .trim_end_matches(|c: char| c.is_whitespace() || c == '\\0');", "            .trim_end_matches('\\0');"),
 "M16c": ("C16", "encoding/src/transfer_syntax/mod.rs",
   "            Codec::None | Codec::Dataset(Some(_)) | Codec::EncapsulatedPixelData(Some(_), _)\n",
   "            Codec::None | Codec::Dataset(_) | Codec::EncapsulatedPixelData(Some(_), _)\n"),
 # C17
 "M17a": ("C17", "core/src/value/person_name.rs",
   "        while it.next_if(|component| component.is_none()).is_some() {}\n", ""),
 "M17b": ("C17", "core/src/value/person_name.rs",
   "                    .and_then(|s| if s.is_empty() { None } else { Some(s.into()) })", "                    .map(|s| s.into())"),
 "M17c": ("C17", "core/src/value/person_name.rs",
   "        let mut parts = slice.trim().split('^');", "        let mut parts = slice.trim().splitn(5, '^');"),
}

def sh(cmd, **kw):
    return subprocess.run(cmd, shell=True, text=True, stdout=subprocess.PIPE, stderr=subprocess.STDOUT, **kw)

def main():
    ids = sys.argv[1:] or sorted(MUTANTS)
    for mid in ids:
        prop, path, old, new = MUTANTS[mid]
        sh("git -C %s checkout -q ." % WT)
        p = os.path.join(WT, path)
        s = open(p).read()
        if s.count(old) != 1:
            print("%s: pattern occurs %d times in %s -- SKIPPED" % (mid, s.count(old), path)); continue
        open(p, "w").write(s.replace(old, new))
        r = sh("cd %s && VERIF_REPO=%s ./check %s" % (ROOT, WT, prop))
        keys = sorted(set(re.findall(r"violation key=(.*?) count=", r.stdout)))
        last = [l for l in r.stdout.splitlines() if l.startswith("[%s]" % prop) or l.startswith("INCONCLUSIVE")]
        print("%s (%s) exit=%d  %s" % (mid, prop, r.returncode, last[-1] if last else r.stdout[-600:]))
        for k in keys: print("     ", k)
        sys.stdout.flush()
    sh("git -C %s checkout -q ." % WT)

main()
