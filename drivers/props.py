"""Per-property pipelines (which harness legs and Python oracles make up each check)."""
import json
import os


class Ctx:
    def __init__(self, chk, prop, tier, seed, replay):
        self.chk = chk
        self.prop = prop
        self.tier = tier
        self.seed = seed
        self.replay = replay
        self.work = os.path.join(chk.WORK, prop)
        os.makedirs(self.work, exist_ok=True)

    def replay_args(self):
        """`--case N` (+ leg flags) taken from a replay file written by an earlier run."""
        if not self.replay:
            return []
        doc = json.load(open(self.replay))
        rp = doc.get("replay") or {}
        args = []
        if "case" in rp:
            args += ["--case", str(rp["case"])]
        if "leg" in rp:
            args += ["--leg", str(rp["leg"])]
        return args

    def harness(self, extra=(), result="result.json", timeout=None, prop=None):
        return self.chk.harness(prop or self.prop, self.tier, self.seed,
                                list(extra) + self.replay_args(), out=self.work,
                                timeout=timeout or (7200 if self.tier == "thorough" else 1500),
                                result=result)


def simple(ctx):
    return ctx.chk.merge([ctx.harness()])


# ---- C16: the registry monitor under several cargo feature sets ---------------------------------
# label -> features of harness/c16probe (which forward to dicom-transfer-syntax-registry)
C16_FEATURE_SETS = [
    ("default(rayon,simd)", ["registry-default"]),
    ("none", []),
    ("deflate", ["deflate"]),
    ("rle", ["rle"]),
    ("jpeg", ["jpeg"]),
    ("native,inventory-registry", ["native", "registry-default", "inventory"]),
    ("native,deflate,jpegxl", ["native", "deflate", "jpegxl", "registry-default"]),
]
# feature sets whose dependencies may be missing from the offline registry: reported, not failed
C16_OPTIONAL = {"native,deflate,jpegxl"}


def c16_probe_manifest(ctx):
    """Manifest of the probe crate; for an alternative repository tree a redirected copy."""
    import shutil
    chk = ctx.chk
    src_dir = os.path.join(chk.ROOT, "harness", "c16probe")
    manifest = os.path.join(src_dir, "Cargo.toml")
    if chk.REPO != "/repo":
        alt = os.path.join(chk.WORK, "manifest-c16probe")
        os.makedirs(alt, exist_ok=True)
        m = open(manifest).read().replace('"/repo/', '"%s/' % chk.REPO)
        m = m.replace("[workspace]", '[[bin]]\nname = "c16probe"\npath = "%s"\n\n[workspace]'
                      % os.path.join(src_dir, "src", "main.rs"))
        manifest = os.path.join(alt, "Cargo.toml")
        if not os.path.exists(manifest) or open(manifest).read() != m:
            open(manifest, "w").write(m)
    lock = os.path.join(os.path.dirname(manifest), "Cargo.lock")
    if not os.path.exists(lock):
        shutil.copy(os.path.join(chk.REPO, "Cargo.lock"), lock)
    return manifest


def c16(ctx):
    import subprocess
    chk = ctx.chk
    legs = [ctx.harness(result="leg-harness.json")]
    built, skipped = ["native,deflate (main harness)"], []
    if ctx.replay:
        return chk.merge(legs)
    manifest = c16_probe_manifest(ctx)
    probe_bin = os.path.join(chk.TARGET, "release", "c16probe")
    for label, feats in C16_FEATURE_SETS:
        cmd = ["cargo", "build", "--offline", "--release", "--manifest-path", manifest,
               "--no-default-features"]
        if feats:
            cmd += ["--features", ",".join(feats)]
        r = chk.run(cmd, stdout=subprocess.PIPE, stderr=subprocess.STDOUT, text=True)
        if r.returncode != 0:
            if label in C16_OPTIONAL:
                skipped.append(label)
                chk.log("[C16] feature set [%s] does not build offline: skipped" % label)
                continue
            chk.log(r.stdout[-4000:])
            raise chk.Inconclusive("C16 probe build failed for feature set [%s]" % label)
        out = os.path.join(ctx.work, "probe-%s.json" % "".join(c if c.isalnum() else "_" for c in label))
        if os.path.exists(out):
            os.remove(out)
        try:
            r = chk.run([probe_bin, label, out], stdout=subprocess.PIPE, stderr=subprocess.PIPE,
                        text=True, timeout=600)
        except subprocess.TimeoutExpired:
            raise chk.Inconclusive("C16 probe watchdog fired for feature set [%s]" % label)
        chk.log(r.stderr.strip()[-500:])
        if r.returncode != 0 or not os.path.exists(out):
            raise chk.Inconclusive("C16 probe exited with %s for feature set [%s]" % (r.returncode, label))
        legs.append(json.load(open(out)))
        built.append(label)
    merged = chk.merge(legs)
    merged["extra"]["feature_sets_checked"] = built
    merged["extra"]["feature_sets_not_buildable_offline"] = skipped
    merged["extra"]["feature_sets_not_attempted"] = ["charls", "openjp2", "openjpeg-sys (C/C++ builds)"]
    if skipped:
        merged["notes"].append("feature sets that do not build offline (uncovered): %s" % ", ".join(skipped))
    return merged


PROPS = {
    "C01": {"run": simple, "level": "exploration"},
    "C11": {"run": simple, "level": "exploration"},
    "C12": {"run": simple, "level": "exploration"},
    "C14": {"run": simple, "level": "exploration"},
    "C15": {"run": simple, "level": "exploration"},
    "C16": {"run": c16, "level": "exploration",
            "assumptions": ["feature sets needing C/C++ toolchains (charls, openjpeg) are not built"]},
    "C17": {"run": simple, "level": "exploration"},
}
