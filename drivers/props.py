"""Per-property pipelines (which harness legs and Python oracles make up each check)."""
import json
import os


class Ctx:
    def __init__(self, chk, prop, tier, seed, replay):
        self.chk = chk
        self.prop = prop
        self.tier = tier
        self.seed = seed
        self.replay = replay
        self.work = os.path.join(chk.WORK, prop)
        os.makedirs(self.work, exist_ok=True)

    def replay_args(self):
        """`--case N` (+ leg flags) taken from a replay file written by an earlier run."""
        if not self.replay:
            return []
        doc = json.load(open(self.replay))
        rp = doc.get("replay") or {}
        args = []
        if "case" in rp:
            args += ["--case", str(rp["case"])]
        if "leg" in rp:
            args += ["--leg", str(rp["leg"])]
        return args

    def harness(self, extra=(), result="result.json", timeout=None, prop=None):
        return self.chk.harness(prop or self.prop, self.tier, self.seed,
                                list(extra) + self.replay_args(), out=self.work,
                                timeout=timeout or (7200 if self.tier == "thorough" else 1500),
                                result=result)


def simple(ctx):
    return ctx.chk.merge([ctx.harness()])


def c18(ctx):
    """Harness legs (in-memory oracle) + file-level oracle over the written files (O-PARSE)."""
    import encaps_check
    r = ctx.harness()
    merged = ctx.chk.merge([r])
    idx = os.path.join(ctx.work, "c18_files.jsonl")
    blob = os.path.join(ctx.work, "c18_files.bin")
    if not (os.path.exists(idx) and os.path.exists(blob)):
        merged["inconclusive"] = merged["inconclusive"] or "file records missing"
        return merged
    res = encaps_check.check_records(idx, blob)
    merged["evaluations"] += res["evaluations"]
    merged["violations"] += list(res["violations"].values())
    for k, v in res["counters"].items():
        merged["counters"]["file:" + k] = merged["counters"].get("file:" + k, 0) + v
    merged["counters"]["file:records_checked"] = res["records"]
    merged["rules"].append("written file bytes parsed by oracles/ps35_parse.py: fragment parity, BOT vs item tag "
                           "offsets, (7FE0,0003) vs fragment item lengths, Number of Frames")
    if res["counters"].get("oracle_errors"):
        merged["notes"].append("file oracle raised on %d records (not counted as violations): %s" % (
            res["counters"]["oracle_errors"], res.get("oracle_error_sample")))
    if not ctx.replay and res["records"] < 100:
        merged["inconclusive"] = merged["inconclusive"] or "only %d written files reached the file oracle" % res["records"]
    for f in (idx, blob):
        try:
            os.remove(f)
        except OSError:
            pass
    return merged


PROPS = {
    "C01": {"run": simple, "level": "exploration"},
    "C18": {"run": c18, "level": "exploration"},
    "C19": {"run": simple, "level": "exploration"},
    "C20": {"run": simple, "level": "exploration"},
    "C21": {"run": simple, "level": "exploration"},
    "C22": {"run": simple, "level": "exploration"},
}
