"""Per-property pipelines (which harness legs and Python oracles make up each check)."""
import json
import os


class Ctx:
    def __init__(self, chk, prop, tier, seed, replay):
        self.chk = chk
        self.prop = prop
        self.tier = tier
        self.seed = seed
        self.replay = replay
        self.work = os.path.join(chk.WORK, prop)
        os.makedirs(self.work, exist_ok=True)

    def replay_args(self):
        """`--case N` (+ leg flags) taken from a replay file written by an earlier run."""
        if not self.replay:
            return []
        doc = json.load(open(self.replay))
        rp = doc.get("replay") or {}
        args = []
        if "case" in rp:
            args += ["--case", str(rp["case"])]
        if "leg" in rp:
            args += ["--leg", str(rp["leg"])]
        return args

    def harness(self, extra=(), result="result.json", timeout=None, prop=None):
        return self.chk.harness(prop or self.prop, self.tier, self.seed,
                                list(extra) + self.replay_args(), out=self.work,
                                timeout=timeout or (7200 if self.tier == "thorough" else 1500),
                                result=result)


def simple(ctx):
    return ctx.chk.merge([ctx.harness()])


PROPS = {
    "C01": {"run": simple, "level": "exploration"},
    "C18": {"run": simple, "level": "exploration"},
    "C19": {"run": simple, "level": "exploration"},
    "C20": {"run": simple, "level": "exploration"},
    "C21": {"run": simple, "level": "exploration"},
    "C22": {"run": simple, "level": "exploration"},
}
