"""Per-property pipelines (which harness legs and Python oracles make up each check)."""
import json
import os


class Ctx:
    def __init__(self, chk, prop, tier, seed, replay):
        self.chk = chk
        self.prop = prop
        self.tier = tier
        self.seed = seed
        self.replay = replay
        if replay:
            # a replay file names the seed its case index belongs to
            try:
                self.seed = int(json.load(open(replay)).get("seed", seed))
            except (OSError, ValueError, TypeError):
                pass
        self.work = os.path.join(chk.WORK, prop)
        os.makedirs(self.work, exist_ok=True)

    def replay_args(self):
        """`--case N` (+ leg flags) taken from a replay file written by an earlier run."""
        if not self.replay:
            return []
        doc = json.load(open(self.replay))
        rp = doc.get("replay") or {}
        args = []
        if "case" in rp:
            args += ["--case", str(rp["case"])]
        if "leg" in rp:
            args += ["--leg", str(rp["leg"])]
        return args

    def harness(self, extra=(), result="result.json", timeout=None, prop=None):
        return self.chk.harness(prop or self.prop, self.tier, self.seed,
                                list(extra) + self.replay_args(), out=self.work,
                                timeout=timeout or (7200 if self.tier == "thorough" else 1500),
                                result=result)


def simple(ctx):
    return ctx.chk.merge([ctx.harness()])


def bindir(ctx):
    """Directory of the real tool binaries built by `build(tools=True)`."""
    return os.path.join(ctx.chk.TARGET, "release")


def tool_leg(ctx):
    return ctx.chk.merge([ctx.harness(extra=["--bindir", bindir(ctx)])])


def oparse_leg(ctx, merged, name):
    """Second, independent reading of the files/streams the harness recorded (O-PARSE)."""
    import store_cmp
    path = os.path.join(ctx.work, name)
    if not os.path.exists(path):
        merged["notes"].append("no O-PARSE records were written")
        return merged
    n, skipped, found = store_cmp.run_records(path)
    merged["evaluations"] += n
    merged["counters"]["oparse_records_compared"] = n
    merged["counters"]["oparse_records_skipped_ambiguous_sq"] = skipped
    for key, (count, what, replay) in sorted(found.items()):
        if "|harness|" in key:
            # the reference stream itself did not parse: an oracle problem, never a violation
            merged["inconclusive"] = merged["inconclusive"] or "O-PARSE rejected a reference stream: " + what
            continue
        merged["violations"].append({"key": key, "what": what, "replay": replay, "count": count})
    os.remove(path)
    return merged


def c32(ctx):
    return oparse_leg(ctx, tool_leg(ctx), "c32_oparse.jsonl")


def c33(ctx):
    return oparse_leg(ctx, tool_leg(ctx), "c33_oparse.jsonl")


PROPS = {
    "C01": {"run": simple, "level": "exploration"},
    "C32": {"run": c32, "level": "exploration", "tools": True,
            "assumptions": ["loopback TCP on 127.0.0.1 is available; ports are picked by bind(0) and re-used by the tool (lost races are retried)",
                            "command sets are built with dicom-object and sent in one PDV; only the data set is fragmented",
                            "the requestor side uses dicom-ul's client association (exercised separately by C28-C30)"]},
    "C33": {"run": c33, "level": "exploration", "tools": True,
            "assumptions": ["the recording acceptor is the harness' own PDU-level implementation on top of dicom-ul's read_pdu/write_pdu",
                            "files are written with FileDicomObject::write_to_file from generated data sets",
                            "--ignore-sop-class is never passed (it deliberately switches the property off)"]},
    "C35": {"run": tool_leg, "level": "exploration", "tools": True,
            "assumptions": ["PNG files are written and read back with the `image` crate (also used by the tools)",
                            "grayscale exports are checked through --unwrap only; plain decoding is checked for RGB, where the library documents that no LUT is applied"]},
}
