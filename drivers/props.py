"""Per-property pipelines (which harness legs and Python oracles make up each check)."""
import json
import os
import sys


class Ctx:
    def __init__(self, chk, prop, tier, seed, replay):
        self.chk = chk
        self.prop = prop
        self.tier = tier
        self.seed = seed
        self.replay = replay
        if replay:
            # a replay file names the seed its case index belongs to
            try:
                self.seed = int(json.load(open(replay)).get("seed", seed))
            except (OSError, ValueError):
                pass
        self.work = os.path.join(chk.WORK, prop)
        os.makedirs(self.work, exist_ok=True)

    def replay_args(self):
        """`--case N` (+ leg flags) taken from a replay file written by an earlier run."""
        if not self.replay:
            return []
        doc = json.load(open(self.replay))
        rp = doc.get("replay") or {}
        args = []
        if "case" in rp:
            args += ["--case", str(rp["case"])]
        if rp.get("leg") == "vread":
            args += ["--vread"]
        if rp.get("crash") and "stream" in rp:
            args += ["--only-stream", str(rp["stream"])]

        return args

    def harness(self, extra=(), result="result.json", timeout=None, prop=None):
        return self.chk.harness(prop or self.prop, self.tier, self.seed,
                                list(extra) + self.replay_args(), out=self.work,
                                timeout=timeout or (7200 if self.tier == "thorough" else 1500),
                                result=result)


def simple(ctx):
    return ctx.chk.merge([ctx.harness()])


def oparse_file(ctx, records_path, what):
    """Run the independent PS3.5 parser over a JSON-lines record file; returns its report."""
    import ps35_parse
    out = {"records": 0, "violations": [], "elements": 0, "pad_checked": 0}
    with open(records_path) as fh:
        for line in fh:
            if not line.strip():
                continue
            rec = json.loads(line)
            errs, info = ps35_parse.validate_record(rec)
            out["records"] += 1
            out["elements"] += info.get("elements", 0)
            out["pad_checked"] += info.get("pad_checked", 0)
            if errs:
                out["violations"].append({"id": rec.get("id"), "errors": errs[:5], "ctx": rec.get("ctx"),
                                          "key": rec.get("key"), "hex": rec["hex"][:8192]})
    return out


def _oparse_chunk(args):
    path, start, end = args
    import ps35_parse
    out = {"records": 0, "violations": [], "elements": 0, "pad_checked": 0}
    with open(path, "rb") as fh:
        fh.seek(start)
        while fh.tell() < end:
            line = fh.readline()
            if not line.strip():
                continue
            rec = json.loads(line)
            errs, info = ps35_parse.validate_record(rec)
            out["records"] += 1
            out["elements"] += info.get("elements", 0)
            out["pad_checked"] += info.get("pad_checked", 0)
            if errs:
                out["violations"].append({"id": rec.get("id"), "errors": errs[:5], "ctx": rec.get("ctx"),
                                          "key": rec.get("key"), "hex": rec["hex"][:8192]})
    return out


def oparse_parallel(path, procs=16):
    """Validate a JSON-lines record file with the Python PS3.5 parser on several processes."""
    import multiprocessing
    size = os.path.getsize(path)
    if size == 0:
        return {"records": 0, "violations": [], "elements": 0, "pad_checked": 0}
    # split on line boundaries
    cuts = [0]
    with open(path, "rb") as fh:
        for i in range(1, procs * 4):
            fh.seek(size * i // (procs * 4))
            fh.readline()
            pos = fh.tell()
            if pos < size and pos > cuts[-1]:
                cuts.append(pos)
    cuts.append(size)
    jobs = [(path, cuts[i], cuts[i + 1]) for i in range(len(cuts) - 1)]
    with multiprocessing.Pool(procs) as pool:
        parts = pool.map(_oparse_chunk, jobs)
    out = {"records": 0, "violations": [], "elements": 0, "pad_checked": 0}
    for p in parts:
        out["records"] += p["records"]
        out["elements"] += p["elements"]
        out["pad_checked"] += p["pad_checked"]
        out["violations"] += p["violations"]
    return out


def classify_parse_error(msg):
    """Normalised class of a PS3.5 parser complaint (for violation keys)."""
    import re
    m = msg.split(": ", 1)[-1]
    m = re.sub(r"[0-9A-Fa-f]{8}", "T", m)
    m = re.sub(r"0x[0-9A-Fa-f]+", "X", m)
    m = re.sub(r"\d+", "N", m)
    return m[:80]


def parse_violations(merged, rep, prefix):
    seen = {}
    for v in rep["violations"]:
        cls = classify_parse_error(v["errors"][0])
        key = "%s|%s|%s" % (prefix, v.get("key") or "-", cls)
        if key in seen:
            seen[key]["count"] += 1
            continue
        seen[key] = {"key": key, "what": "independent PS3.5 parser rejects the output: %s" % "; ".join(v["errors"][:3]),
                     "replay": {"ctx": v.get("ctx"), "id": v.get("id"), "hex": v.get("hex")}, "count": 1}
        if v.get("ctx"):
            seen[key]["replay"].update(v["ctx"])
    merged["violations"] += list(seen.values())


def c04(ctx):
    legs = []
    if not ctx.replay or "leg" not in (json.load(open(ctx.replay)).get("replay") or {}):
        pass
    r1 = ctx.harness(extra=["--leg", "streams"], result="streams.json")
    path = os.path.join(ctx.work, "written.jsonl")
    rep = oparse_parallel(path)
    os.remove(path)
    r2 = ctx.harness(extra=["--leg", "counts"], result="counts.json")
    merged = ctx.chk.merge([r1, r2])
    merged["counters"]["streams_judged_by_python_parser"] = rep["records"]
    merged["counters"]["elements_parsed_by_python_parser"] = rep["elements"]
    merged["counters"]["pad_checks_by_python_parser"] = rep["pad_checked"]
    parse_violations(merged, rep, "oparse")
    if not ctx.replay and rep["records"] < 1000:
        merged["inconclusive"] = "only %d streams reached the Python parser" % rep["records"]
    return merged


def legs(*names):
    """Pipeline made of several harness legs selected with --leg."""
    def run(ctx):
        want = None
        if ctx.replay:
            want = (json.load(open(ctx.replay)).get("replay") or {}).get("leg")
        rs = []
        for i, n in enumerate(names):
            if want and n != want and not (want is None):
                continue
            if ctx.replay and not want and i > 0:
                continue
            rs.append(ctx.harness(extra=["--leg", n], result="%s.json" % n))
        return ctx.chk.merge(rs)
    return run


def c10(ctx):
    import charset_ref  # noqa: F401  (checked to be importable)
    table = os.path.join(ctx.work, "expected.json")
    r = ctx.chk.run([sys.executable, os.path.join(ctx.chk.ROOT, "oracles", "charset_ref.py"), str(ctx.seed), table])
    if r.returncode != 0:
        raise ctx.chk.Inconclusive("charset reference table generation failed")
    rs = []
    want = (json.load(open(ctx.replay)).get("replay") or {}).get("leg") if ctx.replay else None
    for leg in ("codec", "dataset"):
        if ctx.replay and (want or "codec") != leg:
            continue
        rs.append(ctx.harness(extra=["--leg", leg, "--in", table], result=leg + ".json"))
    return ctx.chk.merge(rs)


def c13(ctx):
    r = ctx.harness()
    merged = ctx.chk.merge([r])
    path = os.path.join(ctx.work, "written.jsonl")
    rep = oparse_parallel(path)
    os.remove(path)
    merged["counters"]["streams_judged_by_python_parser"] = rep["records"]
    merged["counters"]["elements_parsed_by_python_parser"] = rep["elements"]
    parse_violations(merged, rep, "oparse")
    return merged


def c24(ctx):
    import annexf
    r = ctx.harness(extra=["--annexf"])
    merged = ctx.chk.merge([r])
    path = os.path.join(ctx.work, "json.jsonl")
    rep = annexf.validate_file(path)
    os.remove(path)
    merged["counters"]["documents_judged_by_annexf_validator"] = rep["records"]
    merged["counters"]["elements_in_documents"] = rep["elements"]
    seen = {}
    for v in rep["violations"]:
        key = "annexf|%s" % annexf.classify(v["errors"][0])
        if key in seen:
            seen[key]["count"] += 1
            continue
        rp = {"id": v.get("id"), "json": v.get("json")}
        rp.update(v.get("ctx") or {})
        seen[key] = {"key": key, "what": "Annex F validator rejects the document: %s" % "; ".join(v["errors"][:3]),
                     "replay": rp, "count": 1}
    merged["violations"] += list(seen.values())
    if not ctx.replay and rep["records"] < 1000:
        merged["inconclusive"] = "only %d documents reached the Annex F validator" % rep["records"]
    return merged


def c02(ctx):
    r = ctx.harness()
    merged = ctx.chk.merge([r])
    # cross-validate the reference encoder against the independent Python parser: a disagreement
    # between the two oracles is a harness problem (inconclusive), never a violation
    rep = oparse_file(ctx, os.path.join(ctx.work, "refstreams.jsonl"), "reference streams")
    merged["counters"]["reference_streams_cross_validated_by_python_parser"] = rep["records"]
    merged["counters"]["reference_stream_elements_parsed"] = rep["elements"]
    if rep["violations"] and not ctx.replay:
        merged["inconclusive"] = "reference encoder and Python parser disagree: %s" % rep["violations"][0]["errors"][:2]
    if rep["records"] == 0 and not ctx.replay:
        merged["inconclusive"] = "no reference stream was cross-validated"
    return merged
def c26(ctx):
    """Release profile always; the thorough tier adds the quick workload on a release+debug-assertions
    build (the P-DATA writers contain debug_assert!s, so the two verdicts can differ)."""
    legs = [ctx.harness()]
    # second, independent decision of the writer clauses (Python, from PS3.8) on a sample of the
    # recorded streams; a disagreement between the two oracles is a harness problem -> inconclusive
    streams = os.path.join(ctx.work, "streams.jsonl")
    if not ctx.replay and os.path.exists(streams):
        import pdata_stream
        n, agree, bad = pdata_stream.check_file(streams)
        legs[0].setdefault("counters", {})["python_oracle_streams"] = n
        legs[0]["counters"]["python_oracle_agreements"] = agree
        if bad:
            legs[0]["inconclusive"] = "Rust and Python oracles disagree on %d of %d streams, e.g. %s" % (
                len(bad), n, json.dumps(bad[0]))
        os.remove(streams)
    if ctx.tier == "thorough" and not ctx.replay:
        ctx.chk.build(profile="release-dbg")
        binary = os.path.join(ctx.chk.TARGET, "release-dbg", "dicomverif")
        dbg = ctx.chk.harness(ctx.prop, "quick", ctx.seed, [], out=ctx.work, timeout=3000,
                              result="release-dbg.json", binary=binary)
        dbg["counters"] = {"release_dbg_" + k: v for k, v in dbg.get("counters", {}).items()}
        seen = {v["key"]: v for v in legs[0].get("violations", [])}
        only_dbg = []
        for v in dbg.get("violations", []):
            if v["key"] in seen:
                seen[v["key"]]["count"] = seen[v["key"]].get("count", 1) + v.get("count", 1)
                seen[v["key"]]["what"] += " [also on the release+debug-assertions build]"
            else:
                v["what"] = "[release+debug-assertions build only] " + v["what"]
                only_dbg.append(v)
        dbg["violations"] = only_dbg
        dbg["rule"] = "the quick workload repeated on a release build with debug assertions and overflow checks"
        legs.append(dbg)
    return ctx.chk.merge(legs)


def c25(ctx):
    """Harness leg (write/read/prefix/strict/over-long monitors) + independent PS3.8 parser over
    every encoding the harness wrote to pdus.jsonl."""
    import ps38_parse
    res = ctx.harness()
    merged = ctx.chk.merge([res])
    path = os.path.join(ctx.work, "pdus.jsonl")
    n = 0
    n_over = n_over_corrupt = 0
    viol = {}
    kinds = {}
    for line in open(path):
        rec = json.loads(line)
        buf = bytes.fromhex(rec["hex"])
        if rec["leg"] == "C-overlong":
            # outputs of write_pdu for items that cannot be expressed (already reported by the
            # harness): confirm independently that what was emitted is not a consistent PDU
            n_over += 1
            probs = [p for p in ps38_parse.validate_one(buf) if p[0] not in ps38_parse.SYNTAX_KINDS]
            if probs:
                n_over_corrupt += 1
            continue
        n += 1
        kinds[rec["kind"]] = kinds.get(rec["kind"], 0) + 1
        probs = ps38_parse.validate_one(buf, rec.get("expect"))
        if (rec.get("info") or {}).get("lenient_syntax"):
            probs = [p for p in probs if p[0] not in ps38_parse.SYNTAX_KINDS]
        if probs:
            kind, where, msg = probs[0]
            key = "ps38|%s|%s|%s|%s" % (rec["leg"], rec["kind"], kind, where)
            v = viol.setdefault(key, {
                "key": key, "count": 0,
                "what": "independent PS3.8 parser on the output of write_pdu (%d bytes): %s [%s]" % (
                    len(buf), msg, where),
                "replay": {"seed": ctx.seed, "stream": rec["stream"], "case": rec["case"],
                           "leg": rec["leg"][:1], "written_hex": rec["hex"][:4096],
                           "written_len": len(buf), "expected": rec.get("expect"),
                           "problems": [list(p) for p in probs[:5]]}})
            v["count"] += 1
    if not os.environ.get("VERIF_KEEP"):
        os.remove(path)  # can be several GB in the thorough tier
    merged["violations"] += list(viol.values())
    merged["evaluations"] += n
    merged["counters"]["ps38_parser_validated"] = n
    for k, c in sorted(kinds.items()):
        merged["counters"]["ps38_parser_validated_" + k] = c
    merged["counters"]["overlong_outputs_seen_by_ps38_parser"] = n_over
    merged["counters"]["overlong_outputs_confirmed_inconsistent_by_ps38_parser"] = n_over_corrupt
    merged["rules"].append("O-PS38 (oracles/ps38_parse.py, written from PS3.8 §9.3 / PS3.7 Annex D): every "
                           "length field matches its content, no trailing bytes, reserved bytes zero, "
                           "decoded content = abstract description of the generated PDU")
    if not ctx.replay and n < 1000 and not merged.get("inconclusive"):
        merged["inconclusive"] = "only %d encodings reached the PS3.8 parser (floor 1000)" % n
    return merged



C16_FEATURE_SETS = [
    ("default(rayon,simd)", ["registry-default"]),
    ("none", []),
    ("deflate", ["deflate"]),
    ("rle", ["rle"]),
    ("jpeg", ["jpeg"]),
    ("native,inventory-registry", ["native", "registry-default", "inventory"]),
    ("native,deflate,jpegxl", ["native", "deflate", "jpegxl", "registry-default"]),
]


def c16_probe_manifest(ctx):
    """Manifest of the probe crate; for an alternative repository tree a redirected copy."""
    import shutil
    chk = ctx.chk
    src_dir = os.path.join(chk.ROOT, "harness", "c16probe")
    manifest = os.path.join(src_dir, "Cargo.toml")
    if chk.REPO != "/repo":
        alt = os.path.join(chk.WORK, "manifest-c16probe")
        os.makedirs(alt, exist_ok=True)
        m = open(manifest).read().replace('"/repo/', '"%s/' % chk.REPO)
        m = m.replace("[workspace]", '[[bin]]\nname = "c16probe"\npath = "%s"\n\n[workspace]'
                      % os.path.join(src_dir, "src", "main.rs"))
        manifest = os.path.join(alt, "Cargo.toml")
        if not os.path.exists(manifest) or open(manifest).read() != m:
            open(manifest, "w").write(m)
    lock = os.path.join(os.path.dirname(manifest), "Cargo.lock")
    if not os.path.exists(lock):
        shutil.copy(os.path.join(chk.REPO, "Cargo.lock"), lock)
    return manifest


def c16(ctx):
    import subprocess
    chk = ctx.chk
    legs = [ctx.harness(result="leg-harness.json")]
    built, skipped = ["native,deflate (main harness)"], []
    if ctx.replay:
        return chk.merge(legs)
    manifest = c16_probe_manifest(ctx)
    probe_bin = os.path.join(chk.TARGET, "release", "c16probe")
    for label, feats in C16_FEATURE_SETS:
        cmd = ["cargo", "build", "--offline", "--release", "--manifest-path", manifest,
               "--no-default-features"]
        if feats:
            cmd += ["--features", ",".join(feats)]
        r = chk.run(cmd, stdout=subprocess.PIPE, stderr=subprocess.STDOUT, text=True)
        if r.returncode != 0:
            if label in C16_OPTIONAL:
                skipped.append(label)
                chk.log("[C16] feature set [%s] does not build offline: skipped" % label)
                continue
            chk.log(r.stdout[-4000:])
            raise chk.Inconclusive("C16 probe build failed for feature set [%s]" % label)
        out = os.path.join(ctx.work, "probe-%s.json" % "".join(c if c.isalnum() else "_" for c in label))
        if os.path.exists(out):
            os.remove(out)
        try:
            r = chk.run([probe_bin, label, out], stdout=subprocess.PIPE, stderr=subprocess.PIPE,
                        text=True, timeout=600)
        except subprocess.TimeoutExpired:
            raise chk.Inconclusive("C16 probe watchdog fired for feature set [%s]" % label)
        chk.log(r.stderr.strip()[-500:])
        if r.returncode != 0 or not os.path.exists(out):
            raise chk.Inconclusive("C16 probe exited with %s for feature set [%s]" % (r.returncode, label))
        legs.append(json.load(open(out)))
        built.append(label)
    merged = chk.merge(legs)
    merged["extra"]["feature_sets_checked"] = built
    merged["extra"]["feature_sets_not_buildable_offline"] = skipped
    merged["extra"]["feature_sets_not_attempted"] = ["charls", "openjp2", "openjpeg-sys (C/C++ builds)"]
    if skipped:
        merged["notes"].append("feature sets that do not build offline (uncovered): %s" % ", ".join(skipped))
    return merged


def c18(ctx):
    """Harness legs (in-memory oracle) + file-level oracle over the written files (O-PARSE)."""
    import encaps_check
    r = ctx.harness()
    merged = ctx.chk.merge([r])
    idx = os.path.join(ctx.work, "c18_files.jsonl")
    blob = os.path.join(ctx.work, "c18_files.bin")
    if not (os.path.exists(idx) and os.path.exists(blob)):
        merged["inconclusive"] = merged["inconclusive"] or "file records missing"
        return merged
    res = encaps_check.check_records(idx, blob)
    merged["evaluations"] += res["evaluations"]
    merged["violations"] += list(res["violations"].values())
    for k, v in res["counters"].items():
        merged["counters"]["file:" + k] = merged["counters"].get("file:" + k, 0) + v
    merged["counters"]["file:records_checked"] = res["records"]
    merged["rules"].append("written file bytes parsed by oracles/ps35_parse.py: fragment parity, BOT vs item tag "
                           "offsets, (7FE0,0003) vs fragment item lengths, Number of Frames")
    if res["counters"].get("oracle_errors"):
        merged["notes"].append("file oracle raised on %d records (not counted as violations): %s" % (
            res["counters"]["oracle_errors"], res.get("oracle_error_sample")))
    if not ctx.replay and res["records"] < 100:
        merged["inconclusive"] = merged["inconclusive"] or "only %d written files reached the file oracle" % res["records"]
    for f in (idx, blob):
        try:
            os.remove(f)
        except OSError:
            pass
    return merged


def bindir(ctx):
    """Directory of the real tool binaries built by `build(tools=True)`."""
    return os.path.join(ctx.chk.TARGET, "release")


def tool_leg(ctx):
    return ctx.chk.merge([ctx.harness(extra=["--bindir", bindir(ctx)])])


def oparse_leg(ctx, merged, name):
    """Second, independent reading of the files/streams the harness recorded (O-PARSE)."""
    import store_cmp
    path = os.path.join(ctx.work, name)
    if not os.path.exists(path):
        merged["notes"].append("no O-PARSE records were written")
        return merged
    n, skipped, found = store_cmp.run_records(path)
    merged["evaluations"] += n
    merged["counters"]["oparse_records_compared"] = n
    merged["counters"]["oparse_records_skipped_ambiguous_sq"] = skipped
    for key, (count, what, replay) in sorted(found.items()):
        if "|harness|" in key:
            # the reference stream itself did not parse: an oracle problem, never a violation
            merged["inconclusive"] = merged["inconclusive"] or "O-PARSE rejected a reference stream: " + what
            continue
        merged["violations"].append({"key": key, "what": what, "replay": replay, "count": count})
    os.remove(path)
    return merged


def c32(ctx):
    return oparse_leg(ctx, tool_leg(ctx), "c32_oparse.jsonl")


def c33(ctx):
    return oparse_leg(ctx, tool_leg(ctx), "c33_oparse.jsonl")


def c30(ctx):
    want = (json.load(open(ctx.replay)).get("replay") or {}).get("leg") if ctx.replay else None
    rs = []
    for leg in ("lib", "tools"):
        if ctx.replay and (want or "lib") != leg:
            continue
        rs.append(ctx.harness(extra=["--leg", leg, "--bindir", bindir(ctx)], result=leg + ".json"))
    return ctx.chk.merge(rs)


PROPS = {
    "C01": {"run": simple, "level": "exploration"},
    "C02": {"run": c02, "level": "exploration"},
    "C03": {"run": simple, "level": "exploration"},
    "C04": {"run": c04, "level": "exploration"},
    "C05": {"run": lambda ctx: ctx.chk.merge([ctx.harness(timeout=10800 if ctx.tier == "thorough" else 3600)]), "level": "exploration"},
    "C06": {"run": simple, "level": "exploration"},
    "C07": {"run": simple, "level": "exploration"},
    "C08": {"run": simple, "level": "exploration"},
    "C09": {"run": legs("tables", "files"), "level": "exploration"},
    "C10": {"run": c10, "level": "exploration"},
    "C11": {"run": simple, "level": "exploration"},
    "C12": {"run": simple, "level": "exploration"},
    "C13": {"run": c13, "level": "exploration"},
    "C14": {"run": simple, "level": "exploration"},
    "C15": {"run": simple, "level": "exploration"},
    "C16": {"run": c16, "level": "exploration",
            "assumptions": ["feature sets needing C/C++ toolchains (charls, openjpeg) are not built"]},
    "C17": {"run": simple, "level": "exploration"},
    "C18": {"run": c18, "level": "exploration"},
    "C19": {"run": simple, "level": "exploration"},
    "C20": {"run": simple, "level": "exploration"},
    "C21": {"run": simple, "level": "exploration"},
    "C22": {"run": simple, "level": "exploration"},
    "C23": {"run": simple, "level": "exploration"},
    "C24": {"run": c24, "level": "exploration"},
    "C25": {"run": c25, "level": "exploration",
            "assumptions": [
                "well-formed = AE titles / version names without leading or trailing spaces (PS3.8: "
                "non-significant, the reader trims them), UIDs unpadded, RJ/ABORT codes enumerated in "
                "PS3.8, Unknown PDU / sub-item types that the library does not decode itself",
                "a PDU longer than 2^32-1 bytes is not constructible in memory and is not tried",
            ]},
    "C26": {"run": c26, "level": "fault_enumeration",
            "assumptions": ["scaled-down writers (M < 1018) are reachable only through the cfg(dicom_rs_verif) constructor; every scaled-down witness is re-executed at M = 1018 before it counts"]},
    "C27": {"run": simple, "level": "fault_enumeration",
            "assumptions": [
                "the transport only segments/coalesces and may answer Pending; it never fails, reorders or "
                "drops bytes (I/O failures are C34's subject)",
                "every PDU of a sequence individually survives write_pdu→read_pdu (else the sequence is "
                "skipped and counted: that is C25's subject)",
            ]},
    "C28": {"run": simple, "level": "exploration",
            "assumptions": ["'supported by the registry' is modelled by an own table over the 7 transfer syntax UIDs the generator uses (cross-checked against the registry at start; a mismatch makes the run inconclusive)"]},
    "C29": {"run": simple, "level": "exploration",
            "assumptions": ["requestor and acceptor run in one process over loopback TCP; timeouts (8 s per socket operation, 20 s per hand-shake) make a scenario inconclusive"]},
    "C30": {"run": c30, "level": "exploration", "tools": True},
    "C31": {"run": simple, "level": "exploration"},
    "C32": {"run": c32, "level": "exploration", "tools": True,
            "assumptions": ["loopback TCP on 127.0.0.1 is available; ports are picked by bind(0) and re-used by the tool (lost races are retried)",
                            "command sets are built with dicom-object and sent in one PDV; only the data set is fragmented",
                            "the requestor side uses dicom-ul's client association (exercised separately by C28-C30)"]},
    "C33": {"run": c33, "level": "exploration", "tools": True,
            "assumptions": ["the recording acceptor is the harness' own PDU-level implementation on top of dicom-ul's read_pdu/write_pdu",
                            "files are written with FileDicomObject::write_to_file from generated data sets",
                            "--ignore-sop-class is never passed (it deliberately switches the property off)"]},
    "C34": {"run": simple, "level": "fault_enumeration"},
    "C35": {"run": tool_leg, "level": "exploration", "tools": True,
            "assumptions": ["PNG files are written and read back with the `image` crate (also used by the tools)",
                            "grayscale exports are checked through --unwrap only; plain decoding is checked for RGB, where the library documents that no LUT is applied"]},
    "C36": {"run": simple, "level": "exploration",
            "assumptions": [
                "titles are non-empty; socket addresses are those whose std text form is itself lossless "
                "(IPv6 flow labels have no text form and are skipped, counted)",
            ]},
}
