"""Per-property pipelines (which harness legs and Python oracles make up each check)."""
import json
import os


class Ctx:
    def __init__(self, chk, prop, tier, seed, replay):
        self.chk = chk
        self.prop = prop
        self.tier = tier
        self.seed = seed
        self.replay = replay
        self.work = os.path.join(chk.WORK, prop)
        os.makedirs(self.work, exist_ok=True)

    def replay_args(self):
        """`--case N` (+ leg flags) taken from a replay file written by an earlier run."""
        if not self.replay:
            return []
        doc = json.load(open(self.replay))
        rp = doc.get("replay") or {}
        args = []
        if "case" in rp:
            args += ["--case", str(rp["case"])]
        if "leg" in rp:
            args += ["--leg", str(rp["leg"])]
        return args

    def harness(self, extra=(), result="result.json", timeout=None, prop=None):
        return self.chk.harness(prop or self.prop, self.tier, self.seed,
                                list(extra) + self.replay_args(), out=self.work,
                                timeout=timeout or (7200 if self.tier == "thorough" else 1500),
                                result=result)


def simple(ctx):
    return ctx.chk.merge([ctx.harness()])


def c25(ctx):
    """Harness leg (write/read/prefix/strict/over-long monitors) + independent PS3.8 parser over
    every encoding the harness wrote to pdus.jsonl."""
    import ps38_parse
    res = ctx.harness()
    merged = ctx.chk.merge([res])
    path = os.path.join(ctx.work, "pdus.jsonl")
    n = 0
    n_over = n_over_corrupt = 0
    viol = {}
    kinds = {}
    for line in open(path):
        rec = json.loads(line)
        buf = bytes.fromhex(rec["hex"])
        if rec["leg"] == "C-overlong":
            # outputs of write_pdu for items that cannot be expressed (already reported by the
            # harness): confirm independently that what was emitted is not a consistent PDU
            n_over += 1
            probs = [p for p in ps38_parse.validate_one(buf) if p[0] not in ps38_parse.SYNTAX_KINDS]
            if probs:
                n_over_corrupt += 1
            continue
        n += 1
        kinds[rec["kind"]] = kinds.get(rec["kind"], 0) + 1
        probs = ps38_parse.validate_one(buf, rec.get("expect"))
        if (rec.get("info") or {}).get("lenient_syntax"):
            probs = [p for p in probs if p[0] not in ps38_parse.SYNTAX_KINDS]
        if probs:
            kind, where, msg = probs[0]
            key = "ps38|%s|%s|%s|%s" % (rec["leg"], rec["kind"], kind, where)
            v = viol.setdefault(key, {
                "key": key, "count": 0,
                "what": "independent PS3.8 parser on the output of write_pdu (%d bytes): %s [%s]" % (
                    len(buf), msg, where),
                "replay": {"seed": ctx.seed, "stream": rec["stream"], "case": rec["case"],
                           "leg": rec["leg"][:1], "written_hex": rec["hex"][:4096],
                           "written_len": len(buf), "expected": rec.get("expect"),
                           "problems": [list(p) for p in probs[:5]]}})
            v["count"] += 1
    if not os.environ.get("VERIF_KEEP"):
        os.remove(path)  # can be several GB in the thorough tier
    merged["violations"] += list(viol.values())
    merged["evaluations"] += n
    merged["counters"]["ps38_parser_validated"] = n
    for k, c in sorted(kinds.items()):
        merged["counters"]["ps38_parser_validated_" + k] = c
    merged["counters"]["overlong_outputs_seen_by_ps38_parser"] = n_over
    merged["counters"]["overlong_outputs_confirmed_inconsistent_by_ps38_parser"] = n_over_corrupt
    merged["rules"].append("O-PS38 (oracles/ps38_parse.py, written from PS3.8 §9.3 / PS3.7 Annex D): every "
                           "length field matches its content, no trailing bytes, reserved bytes zero, "
                           "decoded content = abstract description of the generated PDU")
    if not ctx.replay and n < 1000 and not merged.get("inconclusive"):
        merged["inconclusive"] = "only %d encodings reached the PS3.8 parser (floor 1000)" % n
    return merged


PROPS = {
    "C01": {"run": simple, "level": "exploration"},
    "C25": {"run": c25, "level": "exploration",
            "assumptions": [
                "well-formed = AE titles / version names without leading or trailing spaces (PS3.8: "
                "non-significant, the reader trims them), UIDs unpadded, RJ/ABORT codes enumerated in "
                "PS3.8, Unknown PDU / sub-item types that the library does not decode itself",
                "a PDU longer than 2^32-1 bytes is not constructible in memory and is not tried",
            ]},
    "C27": {"run": simple, "level": "fault_enumeration",
            "assumptions": [
                "the transport only segments/coalesces and may answer Pending; it never fails, reorders or "
                "drops bytes (I/O failures are C34's subject)",
                "every PDU of a sequence individually survives write_pdu→read_pdu (else the sequence is "
                "skipped and counted: that is C25's subject)",
            ]},
    "C36": {"run": simple, "level": "exploration",
            "assumptions": [
                "titles are non-empty; socket addresses are those whose std text form is itself lossless "
                "(IPv6 flow labels have no text form and are skipped, counted)",
            ]},
}
