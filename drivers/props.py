"""Per-property pipelines (which harness legs and Python oracles make up each check)."""
import json
import os


class Ctx:
    def __init__(self, chk, prop, tier, seed, replay):
        self.chk = chk
        self.prop = prop
        self.tier = tier
        self.seed = seed
        self.replay = replay
        self.work = os.path.join(chk.WORK, prop)
        os.makedirs(self.work, exist_ok=True)

    def replay_args(self):
        """`--case N` (+ leg flags) taken from a replay file written by an earlier run."""
        if not self.replay:
            return []
        doc = json.load(open(self.replay))
        rp = doc.get("replay") or {}
        args = []
        if "case" in rp:
            args += ["--case", str(rp["case"])]
        if "leg" in rp:
            args += ["--leg", str(rp["leg"])]
        return args

    def harness(self, extra=(), result="result.json", timeout=None, prop=None):
        return self.chk.harness(prop or self.prop, self.tier, self.seed,
                                list(extra) + self.replay_args(), out=self.work,
                                timeout=timeout or (7200 if self.tier == "thorough" else 1500),
                                result=result)


def simple(ctx):
    return ctx.chk.merge([ctx.harness()])


def c26(ctx):
    """Release profile always; the thorough tier adds the quick workload on a release+debug-assertions
    build (the P-DATA writers contain debug_assert!s, so the two verdicts can differ)."""
    legs = [ctx.harness()]
    # second, independent decision of the writer clauses (Python, from PS3.8) on a sample of the
    # recorded streams; a disagreement between the two oracles is a harness problem -> inconclusive
    streams = os.path.join(ctx.work, "streams.jsonl")
    if not ctx.replay and os.path.exists(streams):
        import pdata_stream
        n, agree, bad = pdata_stream.check_file(streams)
        legs[0].setdefault("counters", {})["python_oracle_streams"] = n
        legs[0]["counters"]["python_oracle_agreements"] = agree
        if bad:
            legs[0]["inconclusive"] = "Rust and Python oracles disagree on %d of %d streams, e.g. %s" % (
                len(bad), n, json.dumps(bad[0]))
        os.remove(streams)
    if ctx.tier == "thorough" and not ctx.replay:
        ctx.chk.build(profile="release-dbg")
        binary = os.path.join(ctx.chk.TARGET, "release-dbg", "dicomverif")
        dbg = ctx.chk.harness(ctx.prop, "quick", ctx.seed, [], out=ctx.work, timeout=3000,
                              result="release-dbg.json", binary=binary)
        dbg["counters"] = {"release_dbg_" + k: v for k, v in dbg.get("counters", {}).items()}
        seen = {v["key"]: v for v in legs[0].get("violations", [])}
        only_dbg = []
        for v in dbg.get("violations", []):
            if v["key"] in seen:
                seen[v["key"]]["count"] = seen[v["key"]].get("count", 1) + v.get("count", 1)
                seen[v["key"]]["what"] += " [also on the release+debug-assertions build]"
            else:
                v["what"] = "[release+debug-assertions build only] " + v["what"]
                only_dbg.append(v)
        dbg["violations"] = only_dbg
        dbg["rule"] = "the quick workload repeated on a release build with debug assertions and overflow checks"
        legs.append(dbg)
    return ctx.chk.merge(legs)


PROPS = {
    "C01": {"run": simple, "level": "exploration"},
    "C28": {"run": simple, "level": "exploration",
            "assumptions": ["'supported by the registry' is modelled by an own table over the 7 transfer syntax UIDs the generator uses (cross-checked against the registry at start; a mismatch makes the run inconclusive)"]},
    "C29": {"run": simple, "level": "exploration",
            "assumptions": ["requestor and acceptor run in one process over loopback TCP; timeouts (8 s per socket operation, 20 s per hand-shake) make a scenario inconclusive"]},
    "C26": {"run": c26, "level": "fault_enumeration",
            "assumptions": ["scaled-down writers (M < 1018) are reachable only through the cfg(dicom_rs_verif) constructor; every scaled-down witness is re-executed at M = 1018 before it counts"]},
}
