#!/usr/bin/env python3
"""Maintenance helper for the seeded-mutant campaign (not a registered check).

  tools_seeded.py confirm <dir> [--slot K] [--props C01,C02] [--skip-baseline]
      <dir> holds patch.diff, demo.sh, demo/ (files copied over the repo root) and meta.json.
      1. scratch worktree /tmp/sw<K> of /repo HEAD (reused per slot, target dir kept for speed)
      2. demo on the clean tree must exit 0
      3. patch applies; demo on the mutated tree must exit non-zero
      4. the repository's baseline test suite (nextest, stable_pass list) still passes
      5. the property's checks run against the mutated tree (VERIF_REPO) – result recorded
      Writes <dir>/confirm.json.
  tools_seeded.py drop-slot K     remove the scratch worktree and its target directory
"""
import json, os, subprocess, sys, shutil, time, re

REPO = "/repo"
BASE = json.load(open("/root/.vp/BASELINE.json"))
STABLE = set(BASE["stable_pass"])

def sh(cmd, cwd=None, env=None, timeout=3600):
    e = dict(os.environ); e.update(env or {})
    e.setdefault("CARGO_NET_OFFLINE", "true")
    p = subprocess.run(cmd, shell=True, cwd=cwd, env=e, stdout=subprocess.PIPE, stderr=subprocess.STDOUT, timeout=timeout)
    return p.returncode, p.stdout.decode(errors="replace")

def slot_dir(k): return f"/tmp/sw{k}"

def prepare(k):
    wt = slot_dir(k)
    if not os.path.isdir(wt):
        rc, out = sh(f"git -C {REPO} worktree add --detach {wt} HEAD")
        assert rc == 0, out
    else:
        sh("git checkout -q --detach $(git -C /repo rev-parse HEAD) 2>/dev/null; git checkout -- . && git clean -fdq -e target", cwd=wt)
    return wt

def copy_demo(d, wt):
    copied = []
    demo = os.path.join(d, "demo")
    if os.path.isdir(demo):
        for root, _, files in os.walk(demo):
            for f in files:
                src = os.path.join(root, f)
                rel = os.path.relpath(src, demo)
                dst = os.path.join(wt, rel)
                os.makedirs(os.path.dirname(dst), exist_ok=True)
                shutil.copy(src, dst)
                copied.append(rel)
    return copied

def run_demo(d, wt):
    return sh("bash " + os.path.abspath(os.path.join(d, "demo.sh")), cwd=wt, env={"CARGO_BUILD_JOBS": "8"}, timeout=3600)

def baseline(wt):
    junit = os.path.join(wt, "target/nextest/pb/junit.xml")
    if os.path.exists(junit): os.remove(junit)
    rc, out = sh("cargo nextest run --workspace --no-fail-fast --tool-config-file pb:/w/lib/nextest.toml --profile pb --test-threads 8 --offline", cwd=wt, timeout=5400)
    if not os.path.exists(junit):
        return {"ok": False, "note": "no junit output (build failure?)", "tail": out[-3000:]}
    import xml.etree.ElementTree as ET
    try:
        root = ET.parse(junit).getroot()
    except Exception as e:
        return {"ok": False, "note": "unparseable junit: %s" % e}
    r = {"passed": [], "failed": []}
    for tc in root.iter("testcase"):
        tid = (tc.get("classname") or "") + "::" + (tc.get("name") or "")
        if tc.find("failure") is not None or tc.find("error") is not None or tc.find("flakyFailure") is not None or tc.find("rerunFailure") is not None:
            r["failed"].append(tid)
        elif tc.find("skipped") is not None:
            pass
        else:
            r["passed"].append(tid)
    passed = set(r["passed"]); failed = set(r["failed"])
    bad = sorted(STABLE - passed)
    note = None
    if bad and len(bad) <= 12:
        # timing-based tests (e.g. dicom-ul test_slow_association*) flake on a loaded machine:
        # re-run exactly the tests that did not pass, with retries
        filt = " ".join(sorted({"::".join(b.split("::")[-2:]) for b in bad}))
        rc, out = sh(f"cargo nextest run --workspace --no-fail-fast --offline --retries 5 --test-threads 2 {filt}", cwd=wt, timeout=1800)
        if rc == 0:
            note = "passed on an isolated re-run (timing-sensitive under load): " + ", ".join(bad)
            bad = []
        else:
            note = "still failing on an isolated re-run: " + out[-600:]
    return {"ok": not bad, "stable_not_passing": bad, "n_passed": len(passed), "n_failed": len(failed), "note": note}

def partial(d, k, props, mode):
    """mode 'baseline': only the baseline suite on the mutated tree; 'checks': only the checks.
    Results are merged into an existing confirm.json."""
    d = os.path.abspath(d)
    meta = json.load(open(os.path.join(d, "meta.json")))
    if not props:
        p = meta.get("property")
        props = [p] if isinstance(p, str) else list(p)
    cj = os.path.join(d, "confirm.json")
    res = json.load(open(cj)) if os.path.exists(cj) else {}
    wt = prepare(k)
    rc, out = sh(f"git apply {os.path.join(d,'patch.diff')}", cwd=wt)
    if rc != 0:
        print("patch does not apply", out[-500:]); return
    res["repo_head"] = sh(f"git -C {REPO} rev-parse HEAD")[1].strip()
    if mode == "baseline":
        res["baseline"] = baseline(wt)
        print(d, "baseline", res["baseline"].get("ok"), res["baseline"].get("stable_not_passing"), res["baseline"].get("note"))
    else:
        checks = res.get("checks", {})
        for p in props:
            t0 = time.time()
            rc, out = sh(f"./check {p} --tier quick", cwd="/verif", env={"VERIF_REPO": wt}, timeout=3600)
            lines = [l for l in out.splitlines() if re.match(r"^(VIOLATION|KNOWN-FINDING|INCONCLUSIVE|\[" + p + r"\])", l)]
            checks[p] = {"rc": rc, "caught": rc == 1 and any(l.startswith("VIOLATION") for l in lines), "lines": lines[:12], "wall_s": round(time.time() - t0, 1)}
            print(d, p, "rc", rc, "caught", checks[p]["caught"])
        res["checks"] = checks
    res["confirmed_mutant"] = bool(res.get("demo_clean_rc") == 0 and res.get("demo_mutant_rc", 0) != 0 and (res.get("baseline") or {}).get("ok"))
    json.dump(res, open(cj, "w"), indent=1)
    sh("git checkout -- . && git clean -fdq -e target", cwd=wt)

def confirm(d, k, props, skip_baseline):
    d = os.path.abspath(d)
    meta = json.load(open(os.path.join(d, "meta.json")))
    if not props:
        p = meta.get("property")
        props = [p] if isinstance(p, str) else list(p)
    res = {"at": time.strftime("%Y-%m-%dT%H:%M:%SZ", time.gmtime()), "repo_head": sh(f"git -C {REPO} rev-parse HEAD")[1].strip()}
    wt = prepare(k)
    copied = copy_demo(d, wt)
    rc, out = run_demo(d, wt)
    res["demo_clean_rc"] = rc
    if rc != 0: res["demo_clean_tail"] = out[-2500:]
    rc, out = sh(f"git apply {os.path.join(d,'patch.diff')}", cwd=wt)
    res["patch_applies"] = rc == 0
    if rc != 0:
        res["apply_out"] = out[-1500:]
        json.dump(res, open(os.path.join(d, "confirm.json"), "w"), indent=1); print(json.dumps(res, indent=1)); return
    rc, out = run_demo(d, wt)
    res["demo_mutant_rc"] = rc
    res["demo_mutant_tail"] = out[-1500:]
    # remove demo files before the baseline run so that they do not count as tests
    for rel in copied:
        try: os.remove(os.path.join(wt, rel))
        except OSError: pass
    if not skip_baseline:
        res["baseline"] = baseline(wt)
    checks = {}
    for p in props:
        t0 = time.time()
        rc, out = sh(f"./check {p} --tier quick", cwd="/verif", env={"VERIF_REPO": wt}, timeout=3600)
        lines = [l for l in out.splitlines() if re.match(r"^(VIOLATION|KNOWN-FINDING|INCONCLUSIVE|\[" + p + r"\])", l)]
        checks[p] = {"rc": rc, "caught": rc == 1 and any(l.startswith("VIOLATION") for l in lines), "lines": lines[:12], "wall_s": round(time.time() - t0, 1)}
        if rc not in (0, 1): checks[p]["tail"] = out[-2000:]
    res["checks"] = checks
    res["confirmed_mutant"] = bool(res.get("demo_clean_rc") == 0 and res.get("demo_mutant_rc", 0) != 0 and (skip_baseline or res["baseline"]["ok"]))
    json.dump(res, open(os.path.join(d, "confirm.json"), "w"), indent=1)
    print(json.dumps({k2: v for k2, v in res.items() if k2 != "demo_mutant_tail"}, indent=1))
    sh("git checkout -- . && git clean -fdq -e target", cwd=wt)

def install(src):
    """Copy a confirmed mutant into /verif/seeded/<id>/ (patch.diff, demo.sh, demo/, meta.json)."""
    src = os.path.abspath(src)
    mid = os.path.basename(src.rstrip("/"))
    cj = os.path.join(src, "confirm.json")
    if not os.path.exists(cj):
        print("no confirm.json in", src); return
    c = json.load(open(cj))
    meta = json.load(open(os.path.join(src, "meta.json")))
    dst = os.path.join("/verif/seeded", mid)
    prev = {}
    if os.path.exists(os.path.join(dst, "meta.json")):
        prev = json.load(open(os.path.join(dst, "meta.json"))).get("verification", {})
    shutil.rmtree(dst, ignore_errors=True)
    os.makedirs(dst)
    shutil.copy(os.path.join(src, "patch.diff"), dst)
    shutil.copy(os.path.join(src, "demo.sh"), dst)
    if os.path.isdir(os.path.join(src, "demo")):
        shutil.copytree(os.path.join(src, "demo"), os.path.join(dst, "demo"))
    ver = {
        "demo_on_clean_tree_rc": c.get("demo_clean_rc"),
        "demo_on_mutated_tree_rc": c.get("demo_mutant_rc"),
        "baseline_suite_passes_with_mutant": (c.get("baseline") or {}).get("ok"),
        "baseline_detail": {k: v for k, v in (c.get("baseline") or {}).items() if k != "tail"},
        "confirmed": c.get("confirmed_mutant"),
        "repo_head_when_confirmed": c.get("repo_head"),
        "checks": {p: {"caught": v["caught"], "rc": v["rc"], "first_lines": v["lines"][:3]} for p, v in c.get("checks", {}).items()},
    }
    if "first_run_checks" in c:
        ver["first_run_checks"] = c["first_run_checks"]
        ver["note"] = "missed by the first version of the check; the check was strengthened (see DESIGN.md section 7) and now reports it"
    elif "first_run_checks" in prev:
        ver["first_run_checks"] = prev["first_run_checks"]
    meta["verification"] = ver
    json.dump(meta, open(os.path.join(dst, "meta.json"), "w"), indent=1)
    print("installed", mid, "confirmed", ver["confirmed"], {p: v["caught"] for p, v in ver["checks"].items()})

def regress(slot, ids):
    """Re-run the property's quick check of installed mutants against the current machinery;
    records verification.final_check in seeded/<id>/meta.json."""
    for mid in ids:
        d = os.path.join("/verif/seeded", mid)
        mp = os.path.join(d, "meta.json")
        meta = json.load(open(mp))
        prop = meta["property"]
        wt = prepare(slot)
        rc, out = sh(f"git apply {os.path.join(d,'patch.diff')}", cwd=wt)
        if rc != 0:
            print(mid, "patch does not apply"); continue
        t0 = time.time()
        rc, out = sh(f"./check {prop} --tier quick", cwd="/verif", env={"VERIF_REPO": wt}, timeout=5400)
        lines = [l for l in out.splitlines() if re.match(r"^(VIOLATION|INCONCLUSIVE)", l)]
        meta = json.load(open(mp))
        meta.setdefault("verification", {})["final_check"] = {
            "property": prop, "rc": rc, "caught": rc == 1 and any(l.startswith("VIOLATION") for l in lines),
            "first_lines": lines[:2], "wall_s": round(time.time() - t0, 1),
            "verif_head": sh("git -C /verif rev-parse --short HEAD")[1].strip(), "repo_head": sh(f"git -C {REPO} rev-parse --short HEAD")[1].strip()}
        json.dump(meta, open(mp, "w"), indent=1)
        print(mid, prop, "rc", rc, "caught", meta["verification"]["final_check"]["caught"], flush=True)
        sh("git checkout -- . && git clean -fdq -e target", cwd=wt)

if __name__ == "__main__":
    a = sys.argv[1:]
    if a[0] == "regress":
        regress(int(a[1]), a[2:])
        sys.exit(0)
    if a[0] == "install":
        for d in a[1:]:
            install(d)
        sys.exit(0)
    if a[0] in ("baseline", "checks"):
        d = a[1]; k = 0; props = []
        i = 2
        while i < len(a):
            if a[i] == "--slot": k = int(a[i+1]); i += 2
            elif a[i] == "--props": props = a[i+1].split(","); i += 2
            else: raise SystemExit("bad arg " + a[i])
        partial(d, k, props, a[0])
    elif a[0] == "confirm":
        d = a[1]; k = 0; props = []; skip = False
        i = 2
        while i < len(a):
            if a[i] == "--slot": k = int(a[i+1]); i += 2
            elif a[i] == "--props": props = a[i+1].split(","); i += 2
            elif a[i] == "--skip-baseline": skip = True; i += 1
            else: raise SystemExit("bad arg " + a[i])
        confirm(d, k, props, skip)
    elif a[0] == "drop-slot":
        wt = slot_dir(int(a[1]))
        sh(f"git -C {REPO} worktree remove --force {wt}"); shutil.rmtree(wt, ignore_errors=True); sh(f"git -C {REPO} worktree prune")
        # alt target/work dirs of ./check for this path
        import hashlib
        h = hashlib.sha1(wt.encode()).hexdigest()[:10]
        shutil.rmtree(f"/verif/target-alt-{h}", ignore_errors=True); shutil.rmtree(f"/verif/work/alt-{h}", ignore_errors=True)
        print("dropped", wt)
