#!/usr/bin/env python3
"""Maintenance helper for the seeded-mutant campaign (not a registered check).

  tools_seeded.py confirm <dir> [--slot K] [--props C01,C02] [--skip-baseline]
      <dir> holds patch.diff, demo.sh, demo/ (files copied over the repo root) and meta.json.
      1. scratch worktree /tmp/sw<K> of /repo HEAD (reused per slot, target dir kept for speed)
      2. demo on the clean tree must exit 0
      3. patch applies; demo on the mutated tree must exit non-zero
      4. the repository's baseline test suite (nextest, stable_pass list) still passes
      5. the property's checks run against the mutated tree (VERIF_REPO) – result recorded
      Writes <dir>/confirm.json.
  tools_seeded.py drop-slot K     remove the scratch worktree and its target directory
"""
import json, os, subprocess, sys, shutil, time, re

REPO = "/repo"
BASE = json.load(open("/root/.vp/BASELINE.json"))
STABLE = set(BASE["stable_pass"])

def sh(cmd, cwd=None, env=None, timeout=3600):
    e = dict(os.environ); e.update(env or {})
    e.setdefault("CARGO_NET_OFFLINE", "true")
    p = subprocess.run(cmd, shell=True, cwd=cwd, env=e, stdout=subprocess.PIPE, stderr=subprocess.STDOUT, timeout=timeout)
    return p.returncode, p.stdout.decode(errors="replace")

def slot_dir(k): return f"/tmp/sw{k}"

def prepare(k):
    wt = slot_dir(k)
    if not os.path.isdir(wt):
        rc, out = sh(f"git -C {REPO} worktree add --detach {wt} HEAD")
        assert rc == 0, out
    else:
        sh("git checkout -q --detach $(git -C /repo rev-parse HEAD) 2>/dev/null; git checkout -- . && git clean -fdq -e target", cwd=wt)
    return wt

def copy_demo(d, wt):
    copied = []
    demo = os.path.join(d, "demo")
    if os.path.isdir(demo):
        for root, _, files in os.walk(demo):
            for f in files:
                src = os.path.join(root, f)
                rel = os.path.relpath(src, demo)
                dst = os.path.join(wt, rel)
                os.makedirs(os.path.dirname(dst), exist_ok=True)
                shutil.copy(src, dst)
                copied.append(rel)
    return copied

def run_demo(d, wt):
    return sh("bash " + os.path.abspath(os.path.join(d, "demo.sh")), cwd=wt, env={"CARGO_BUILD_JOBS": "8"}, timeout=3600)

def baseline(wt):
    junit = os.path.join(wt, "target/nextest/pb/junit.xml")
    if os.path.exists(junit): os.remove(junit)
    rc, out = sh("cargo nextest run --workspace --no-fail-fast --tool-config-file pb:/w/lib/nextest.toml --profile pb --test-threads 8 --offline", cwd=wt, timeout=5400)
    if not os.path.exists(junit):
        return {"ok": False, "note": "no junit output (build failure?)", "tail": out[-3000:]}
    rc2, out2 = sh(f"python3 /w/lib/parse_tests.py --kind junit --glob {junit}")
    try:
        r = json.loads(out2)
    except Exception:
        return {"ok": False, "note": "unparseable result", "tail": out2[-2000:]}
    passed = set(r["passed"]); failed = set(r["failed"])
    bad = sorted(STABLE - passed)
    return {"ok": not bad, "stable_not_passing": bad, "n_passed": len(passed), "n_failed": len(failed)}

def confirm(d, k, props, skip_baseline):
    d = os.path.abspath(d)
    meta = json.load(open(os.path.join(d, "meta.json")))
    if not props:
        p = meta.get("property")
        props = [p] if isinstance(p, str) else list(p)
    res = {"at": time.strftime("%Y-%m-%dT%H:%M:%SZ", time.gmtime()), "repo_head": sh(f"git -C {REPO} rev-parse HEAD")[1].strip()}
    wt = prepare(k)
    copied = copy_demo(d, wt)
    rc, out = run_demo(d, wt)
    res["demo_clean_rc"] = rc
    if rc != 0: res["demo_clean_tail"] = out[-2500:]
    rc, out = sh(f"git apply {os.path.join(d,'patch.diff')}", cwd=wt)
    res["patch_applies"] = rc == 0
    if rc != 0:
        res["apply_out"] = out[-1500:]
        json.dump(res, open(os.path.join(d, "confirm.json"), "w"), indent=1); print(json.dumps(res, indent=1)); return
    rc, out = run_demo(d, wt)
    res["demo_mutant_rc"] = rc
    res["demo_mutant_tail"] = out[-1500:]
    # remove demo files before the baseline run so that they do not count as tests
    for rel in copied:
        try: os.remove(os.path.join(wt, rel))
        except OSError: pass
    if not skip_baseline:
        res["baseline"] = baseline(wt)
    checks = {}
    for p in props:
        t0 = time.time()
        rc, out = sh(f"./check {p} --tier quick", cwd="/verif", env={"VERIF_REPO": wt}, timeout=3600)
        lines = [l for l in out.splitlines() if re.match(r"^(VIOLATION|KNOWN-FINDING|INCONCLUSIVE|\[" + p + r"\])", l)]
        checks[p] = {"rc": rc, "caught": rc == 1 and any(l.startswith("VIOLATION") for l in lines), "lines": lines[:12], "wall_s": round(time.time() - t0, 1)}
        if rc not in (0, 1): checks[p]["tail"] = out[-2000:]
    res["checks"] = checks
    res["confirmed_mutant"] = bool(res.get("demo_clean_rc") == 0 and res.get("demo_mutant_rc", 0) != 0 and (skip_baseline or res["baseline"]["ok"]))
    json.dump(res, open(os.path.join(d, "confirm.json"), "w"), indent=1)
    print(json.dumps({k2: v for k2, v in res.items() if k2 != "demo_mutant_tail"}, indent=1))
    sh("git checkout -- . && git clean -fdq -e target", cwd=wt)

if __name__ == "__main__":
    a = sys.argv[1:]
    if a[0] == "confirm":
        d = a[1]; k = 0; props = []; skip = False
        i = 2
        while i < len(a):
            if a[i] == "--slot": k = int(a[i+1]); i += 2
            elif a[i] == "--props": props = a[i+1].split(","); i += 2
            elif a[i] == "--skip-baseline": skip = True; i += 1
            else: raise SystemExit("bad arg " + a[i])
        confirm(d, k, props, skip)
    elif a[0] == "drop-slot":
        wt = slot_dir(int(a[1]))
        sh(f"git -C {REPO} worktree remove --force {wt}"); shutil.rmtree(wt, ignore_errors=True); sh(f"git -C {REPO} worktree prune")
        # alt target/work dirs of ./check for this path
        import hashlib
        h = hashlib.sha1(wt.encode()).hexdigest()[:10]
        shutil.rmtree(f"/verif/target-alt-{h}", ignore_errors=True); shutil.rmtree(f"/verif/work/alt-{h}", ignore_errors=True)
        print("dropped", wt)
