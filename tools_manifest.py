#!/usr/bin/env python3
"""Maintenance helper: regenerate MANIFEST.json from the table below."""
import json, subprocess
T = {
 "C01": ("exploration", "randomized write->read round trip compared with the generator's abstract description (independent comparator)", "G-DS data sets x 4 transfer syntaxes x 3 writer entry points, incl. objects with recorded explicit lengths"),
 "C02": ("exploration", "byte-exact read->rewrite of streams from an independent PS3.5 reference encoder (cross-validated by the Python parser)", "canonical streams x 3 syntaxes x {mixed, undefined, explicit} lengths"),
 "C03": ("exploration", "exhaustive enumeration against an independent PS3.5 7.1 layout model", "34 VRs x 3 TS x boundary tags x boundary lengths; all 65536 VR codes; item/delimiter headers; adaptive decoder"),
 "C04": ("exploration", "every written stream judged by an independent Python PS3.5 parser + byte-count monitor on counting writers", "C01 corpus through all writers and files; primitive encoders and StatefulEncoder call sequences"),
 "C05": ("exploration", "mutation-based hostile workload in sandboxed worker processes with panic / abnormal-exit / CPU-budget monitors", "14 reading entry points; structure-aware mutants of valid files, streams, JSON, PDUs, strings"),
 "C06": ("exploration", "differential monitor: lazy reader, collector and stop-tag options against the eager reader on generated files", "G-DS files with encapsulated pixel data, empty offset tables, zero-length fragments, trailing elements"),
 "C07": ("exploration", "position probe (delegating decoder + byte-counting source) and event-sequence oracle on reference-encoded odd-length streams", "every VR x odd lengths x 3 TS x 3 strategies x eager/lazy/skip"),
 "C08": ("exploration", "differential monitor: flexible VR decoding against the plain explicit/implicit readers, ambiguity filter computed from the bytes", "G-DS streams plus near-ambiguous first elements"),
 "C09": ("exploration", "model-based monitor of the file meta table (own element walk, operation histories, preamble variants)", "random tables x histories of <=20 attribute operations; files read 6 ways"),
 "C10": ("exploration", "exhaustive Unicode sweep per character set + independent Python codec tables + data-set level wire-byte and read-back monitors", "16 character sets; all 1 112 064 scalars; data sets with Specific Character Set"),
 "C11": ("exploration", "conversion oracle in i128 / exact decimal arithmetic and list model for extend/truncate histories", "16 value variants x 10 integer targets x float targets; 50k histories"),
 "C12": ("exploration", "exhaustive enumeration with an own proleptic Gregorian calendar and encoder as oracle", "all partial dates 0-9999, all h/m/s, sampled fractions, offsets and ranges"),
 "C13": ("exploration", "step-by-step reference model of the documented attribute-operation semantics, then write/parse/read-back monitors", "histories of 1-30 operations, 17 action kinds, selectors of depth 0-2"),
 "C14": ("exploration", "exhaustive accepted forms + random Unicode rejection side against a grammar written from the documentation", "65536 groups x 8 elements x 3 forms x 3 cases; all keywords; 1M strings"),
 "C15": ("exploration", "reference lookup painted from the parsed generated source, exhaustive over 2^32 tags in the thorough tier", "all tags (thorough) / all populated groups and sampled elements (quick); keywords, constants, SOP classes"),
 "C16": ("exploration", "registry invariants checked against a hand-written PS3.6 table and against behaviour, under 8 feature sets (probe crate)", "every registered transfer syntax x 8 feature sets"),
 "C17": ("exploration", "independent formatter/parser model of PS3.5 person names", "32 presence masks x random components"),
 "C18": ("exploration", "encapsulation invariants checked in memory and on the written file by the Python parser", "helpers x frame/fragment sizes; images transcoded to every built encoder"),
 "C19": ("exploration", "byte equality of pixel data after transcoding chains, plus inspection of the encoded frames", "random images x 4 source syntaxes x lossless and native targets, through files"),
 "C20": ("exploration", "independent Annex G RLE encoder with randomized run segmentation as input oracle", "8/16 bit x 1/3 samples x 1-5 frames, byte-asymmetric samples"),
 "C21": ("exploration", "bit-level oracle for native frame extraction", "bits allocated 1/8/16, rows/cols 1-17, 1-7 frames, 4 native syntaxes"),
 "C22": ("exploration", "independent f64 implementation of the PS3.3 formulas, exhaustive over stored values", "bits stored 1-16 x signedness x allocation 8/16 x ~1900 parameter sets"),
 "C23": ("exploration", "JSON round trip compared with the generator's description + mutated-document robustness", "G-DS data sets; 10 JSON mutants per document"),
 "C24": ("exploration", "independent Annex F validator in Python over every serialised document", "the C23 data sets"),
 "C25": ("exploration", "independent PS3.8 parser and size model; every prefix of every encoding", "all PDU variants and sub-items; over-long items; strict/non-strict maxima"),
 "C26": ("fault_enumeration", "scripted transports (partial writes, not-ready results, failures) with exhaustive small schedule enumeration re-executed at real sizes", "all chunkings x transport scripts up to the bound; random large cases; reader segmentations"),
 "C27": ("fault_enumeration", "scripted Read/AsyncRead sources with exhaustive-small and random segmentations; loopback leg through real associations", "1-8 PDUs x all segmentations of short streams x 11 segmentation kinds"),
 "C28": ("exploration", "reference negotiation model compared with the acceptor through the hook and over loopback TCP", "exhaustive bounded universe + random large requests + rejection matrix"),
 "C29": ("exploration", "recording loopback proxy between real requestor and acceptor; agreement and PDU-limit monitors", "random option pairs, <=30 message exchanges at the limits"),
 "C30": ("exploration", "trace monitor (PS3.8 release/abort clauses) over wire and API events recorded by a delaying proxy", "random action scripts for library peers (sync/async) and the real storescp/echoscu binaries"),
 "C31": ("exploration", "own walk of the written Implicit VR stream against the recorded group length", "random command sets incl. stale lengths and foreign groups"),
 "C32": ("exploration", "real storescp binary inside a sentinel directory tree; tree diff and stored-file comparison (dicom-object + Python parser)", "16 hostile UID classes, 7 transfer syntaxes, 7 fragmentation styles, sync and async"),
 "C33": ("exploration", "PDU-level recording acceptor with randomized policy in front of the real storescu binary", "1-6 files, 6 SOP classes, 6 transfer syntaxes, 4 policy kinds"),
 "C34": ("fault_enumeration", "fault-injecting writers/readers failing at every byte offset", "small objects x 4 TS x 2 failure kinds; PDUs; P-DATA writer/reader"),
 "C35": ("exploration", "real fromimage/toimage binaries on random PNGs, pixel-exact comparison", "L8/L16/RGB8/RGB16, sides 1-64, 6 base transfer syntaxes"),
 "C36": ("exploration", "print/parse round trip against the documented grammar", "8 title classes x IPv4/IPv6/string addresses; all ports"),
}
m = json.load(open('/verif/MANIFEST.json'))
log = subprocess.run(['git', '-C', '/repo', 'log', '--format=%h %s'], capture_output=True, text=True).stdout.splitlines()
m['hooks']['source_commits'] = [l.split()[0] for l in log if l.split(' ', 1)[1].startswith('verif hook')]
m['engines'] = [
 {"name": "dicomverif", "path": "harness/", "serves_properties": sorted(T), "kind_free_text": "Rust workload + monitor binary (seeded generators, independent reference encoder/parsers/models, scripted and fault-injecting transports, recording proxies, subprocess workers) built against /repo's working tree with --cfg dicom_rs_verif"},
 {"name": "python-oracles", "path": "oracles/", "serves_properties": ["C02", "C04", "C10", "C13", "C18", "C24", "C25", "C26", "C32", "C33"], "kind_free_text": "independent oracles in Python 3 stdlib: PS3.5 structural parser, Annex F validator, PS3.8 parser, charset tables, encapsulation and store comparison"},
 {"name": "check", "path": "check", "serves_properties": sorted(T), "kind_free_text": "driver: rebuild, run legs, match known findings, write evidence, three-valued verdict"},
]
checks = []
for pid in sorted(T):
    level, tech, scope = T[pid]
    checks.append({
        "property_id": pid,
        "quick_cmd": "./check %s --tier quick" % pid,
        "thorough_cmd": "./check %s --tier thorough" % pid,
        "evidence_file": "evidence/%s.json" % pid,
        "replay_cmd_template": "./check %s --replay {path}" % pid,
        "engine": "dicomverif",
        "level_claimed": {"category": level,
                          "text": "Runtime monitoring: %s. Workload: %s. The verdict is 'held on the executions counted in the evidence file' (or violated with a replayable witness, or inconclusive); nothing is proved." % (tech, scope),
                          "design_ref": "DESIGN.md §3 %s" % pid},
        "level_note": "Trusts the harness oracle for this property (written from the standard / the property text, see DESIGN.md §2-3) and the generator staying inside the property's quantifier; coverage is what the seeded workload reaches (classes and counters in the evidence file).",
        "technique": "runtime monitoring: " + tech,
    })
m['checks'] = checks
m['not_applicable'] = []
m['notes'] = "All 36 properties are decided by runtime monitors over real executions. Known findings: known_findings.json (open entries print KNOWN-FINDING lines; fixed entries record the fix: commits in /repo)."
json.dump(m, open('/verif/MANIFEST.json', 'w'), indent=1)
print(len(checks), 'checks;', m['hooks']['source_commits'])
