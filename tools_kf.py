#!/usr/bin/env python3
"""Maintenance helper (not part of any check): add a 'fixed' entry to known_findings.json and
refresh the commit hashes of all fixed entries from the subjects of /repo's fix: commits.
usage: tools_kf.py add <id> <property> <subject-fragment> <what>   |   tools_kf.py refresh"""
import json, subprocess, sys
P = '/verif/known_findings.json'
kf = json.load(open(P))
log = subprocess.run(['git', '-C', '/repo', 'log', '--format=%h %s'], capture_output=True, text=True).stdout.splitlines()
def sha(frag):
    for l in log:
        if frag in l:
            return l.split()[0]
    raise SystemExit('no commit matching %r' % frag)
if sys.argv[1] == 'add':
    _, _, i, p, frag, what = sys.argv
    kf['findings'] = [f for f in kf['findings'] if f['id'] != i]
    kf['findings'].append({"id": i, "property": p, "status": "fixed", "commit": sha(frag), "subject": frag, "keys": [], "what": what})
for f in kf['findings']:
    if f['status'] == 'fixed':
        if 'subject' not in f:
            # recover the subject fragment from the old hash if still present
            old = [l for l in log if l.startswith(f['commit'])]
            if old:
                f['subject'] = old[0].split(' ', 1)[1]
        if 'subject' in f:
            f['commit'] = sha(f['subject'])
        f['line'] = "fixed: property=%s %s %s" % (f['property'], f['commit'], f['what'])
json.dump(kf, open(P, 'w'), indent=1)
print(len(kf['findings']), 'entries')
