#!/bin/bash
# Maintenance helper: run the listed checks once. usage: run_some.sh <tier> <seed> C01 C02 ...
cd /verif
TIER=$1; SEED=$2; shift 2
for p in "$@"; do
  s=$(date +%s)
  out=$(./check $p --tier $TIER --seed $SEED 2>/dev/null | grep -E "^\[$p\]|^VIOLATION|^INCONCLUSIVE|^KNOWN" | cut -c1-200)
  echo "== $p ($(( $(date +%s) - s ))s)"; echo "$out" | tail -6
done
