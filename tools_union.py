#!/usr/bin/env python3
"""Maintenance helper: resolve 'both added' merge conflicts by keeping both sides."""
import sys
for p in sys.argv[1:]:
    out=[]
    for l in open(p):
        if l.startswith('<<<<<<< ') or l.startswith('=======') and l.strip()=='=======' or l.startswith('>>>>>>> '):
            continue
        out.append(l)
    open(p,'w').write(''.join(out))
