#!/bin/bash
# Maintenance helper: run every check once (tier/seed from the environment) and summarise.
cd /verif
TIER=${1:-quick}; SEED=${2:-1}
for i in $(seq -w 1 36); do
  p=C$i
  s=$(date +%s)
  out=$(./check $p --tier $TIER --seed $SEED 2>/dev/null | grep -E "^\[$p\]|^VIOLATION|^INCONCLUSIVE|^KNOWN" | cut -c1-160)
  rc=$?
  echo "== $p ($(( $(date +%s) - s ))s)"; echo "$out" | tail -4
done
