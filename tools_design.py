#!/usr/bin/env python3
"""Maintenance helper: regenerate the generated tables of DESIGN.md (findings, seeded mutants)."""
import json, os, glob, re
P = '/verif/DESIGN.md'
s = open(P).read()

def between(s, name, body):
    b, e = '<!-- %s-BEGIN -->' % name, '<!-- %s-END -->' % name
    assert b in s and e in s, name
    i, j = s.index(b) + len(b), s.index(e)
    return s[:i] + '\n' + body.rstrip('\n') + '\n' + s[j:]

kf = json.load(open('/verif/known_findings.json'))
rows = ['| id | prop | disposition | what failed |', '|----|------|-------------|-------------|']
for f in kf['findings']:
    rows.append('| %s | %s | %s | %s |' % (f['id'], f['property'], ('fixed `%s`' % f['commit']) if f['status'] == 'fixed' else 'open (KNOWN-FINDING)', f['what'].replace('|', '\\|')))
s = between(s, 'FINDINGS-TABLE', '\n'.join(rows))

rows = ['| mutant | property | change (file) | trigger | demo clean/mutant | repo tests pass | caught by (quick tier) |', '|---|---|---|---|---|---|---|']
n = caught = missed_first = 0
for d in sorted(glob.glob('/verif/seeded/*/meta.json')):
    m = json.load(open(d)); v = m.get('verification', {})
    mid = os.path.basename(os.path.dirname(d))
    ch = v.get('checks', {})
    c = ', '.join('%s%s' % (p, '' if x['caught'] else ' (MISSED)') for p, x in sorted(ch.items()))
    if 'first_run_checks' in v:
        c += ' — missed by the first version of the check, caught after strengthening'
        missed_first += 1
    n += 1; caught += all(x['caught'] for x in ch.values()) and bool(ch)
    rows.append('| %s | %s | %s (%s) | %s | %s/%s | %s | %s |' % (
        mid, m.get('property'), str(m.get('title', '')).replace('|', '/')[:110], ', '.join(m.get('files_changed', []))[:60],
        str(m.get('trigger', '')).replace('|', '/').replace('\n', ' ')[:160], v.get('demo_on_clean_tree_rc'), v.get('demo_on_mutated_tree_rc'),
        {True: 'yes', False: 'NO', None: '?'}[v.get('baseline_suite_passes_with_mutant')], c))
fc = [json.load(open(d)).get('verification', {}).get('final_check') for d in sorted(glob.glob('/verif/seeded/*/meta.json'))]
fc = [x for x in fc if x]
rows.append('')
rows.append('Regression against the final machinery (after all generator and driver changes of the campaign): %d of the first-wave mutants were re-run, %d reported again%s.' % (
    len(fc), sum(1 for x in fc if x['caught']), '' if all(x['caught'] for x in fc) else ' (the others: see meta.json final_check)'))
rows.append('Totals: %d seeded mutants kept, %d reported by their property\'s quick check on the final machinery, %d of them only after the check was strengthened.' % (n, caught, missed_first))
s = between(s, 'SEEDED-TABLE', '\n'.join(rows))
open(P, 'w').write(s)
print('ok', n, caught, missed_first)
