//! Comparator between an *expected* abstract data set and an actual `InMemDicomObject`,
//! implementing exactly the normalisations N1–N4 of DESIGN.md §2.3.

use crate::gen::tree::*;
use crate::refenc;
use dicom_core::dictionary::{DataDictionary, DataDictionaryEntry, VirtualVr};
use dicom_core::header::Header;
use dicom_core::value::{PrimitiveValue, Value};
use dicom_core::{Tag, VR};
use dicom_dictionary_std::StandardDataDictionary;
use dicom_object::InMemDicomObject;

#[derive(Clone, Copy, Debug, Default)]
pub struct Ctx {
    /// the data passed through an Implicit VR encoding (VR re-derived from the dictionary)
    pub implicit: bool,
    /// Pixel Representation seen so far is signed (affects XS tags in implicit VR)
    pub signed: bool,
    /// the data passed through DICOM JSON (C23): see json-specific normalisations
    pub json: bool,
}

#[derive(Debug, Clone)]
pub struct Mismatch {
    pub path: String,
    /// short class used in violation keys: tags | vr | value | items | fragments | bot | kind
    pub kind: &'static str,
    pub vr: String,
    pub shape: &'static str,
    pub detail: String,
}

impl Mismatch {
    pub fn key(&self) -> String {
        format!("mismatch:{}|vr={}|shape={}", self.kind, self.vr, self.shape)
    }
}

#[derive(Debug, PartialEq, Clone)]
pub enum N {
    Empty,
    Text(Vec<String>),
    Bytes(Vec<u8>),
    Int(&'static str, Vec<i128>),
    F32(Vec<u32>),
    F64(Vec<u64>),
    Tags(Vec<(u16, u16)>),
}

fn trim_text(s: &str) -> String {
    s.trim_end_matches([' ', '\0']).to_string()
}

fn norm_text_list(v: Vec<String>) -> N {
    let v: Vec<String> = v.iter().map(|s| trim_text(s)).collect();
    if v.is_empty() || (v.len() == 1 && v[0].is_empty()) {
        N::Empty
    } else {
        N::Text(v)
    }
}

pub fn norm_expected(e: &GElem) -> N {
    let m = e.val.multiplicity();
    if m == 0 {
        return N::Empty;
    }
    match &e.val {
        GVal::Empty => N::Empty,
        GVal::Strs(v) => norm_text_list(v.clone()),
        GVal::Str(s) => norm_text_list(vec![s.clone()]),
        GVal::Tags(v) => N::Tags(v.clone()),
        GVal::U8(v) => N::Bytes(v.clone()),
        GVal::I16(v) => N::Int("i16", v.iter().map(|x| *x as i128).collect()),
        GVal::U16(v) => N::Int("u16", v.iter().map(|x| *x as i128).collect()),
        GVal::I32(v) => {
            if e.vr == VR::IS {
                N::Text(v.iter().map(|x| x.to_string()).collect())
            } else {
                N::Int("i32", v.iter().map(|x| *x as i128).collect())
            }
        }
        GVal::U32(v) => N::Int("u32", v.iter().map(|x| *x as i128).collect()),
        GVal::I64(v) => N::Int("i64", v.iter().map(|x| *x as i128).collect()),
        GVal::U64(v) => N::Int("u64", v.iter().map(|x| *x as i128).collect()),
        GVal::F32(v) => N::F32(v.iter().map(|x| x.to_bits()).collect()),
        GVal::F64(v) => N::F64(v.iter().map(|x| x.to_bits()).collect()),
        GVal::Date(v) => N::Text(v.iter().map(|x| x.text()).collect()),
        GVal::Time(v) => N::Text(v.iter().map(|x| x.text()).collect()),
        GVal::DateTime(v) => N::Text(v.iter().map(|x| x.text()).collect()),
        GVal::Seq(_) | GVal::Pix { .. } => N::Empty,
    }
}

pub fn norm_actual(p: &PrimitiveValue) -> N {
    match p {
        PrimitiveValue::Empty => N::Empty,
        PrimitiveValue::Strs(v) => norm_text_list(v.to_vec()),
        PrimitiveValue::Str(s) => norm_text_list(vec![s.clone()]),
        PrimitiveValue::Tags(v) => {
            if v.is_empty() {
                N::Empty
            } else {
                N::Tags(v.iter().map(|t| (t.0, t.1)).collect())
            }
        }
        PrimitiveValue::U8(v) => {
            if v.is_empty() {
                N::Empty
            } else {
                N::Bytes(v.to_vec())
            }
        }
        PrimitiveValue::I16(v) => ints("i16", v.iter().map(|x| *x as i128).collect()),
        PrimitiveValue::U16(v) => ints("u16", v.iter().map(|x| *x as i128).collect()),
        PrimitiveValue::I32(v) => ints("i32", v.iter().map(|x| *x as i128).collect()),
        PrimitiveValue::U32(v) => ints("u32", v.iter().map(|x| *x as i128).collect()),
        PrimitiveValue::I64(v) => ints("i64", v.iter().map(|x| *x as i128).collect()),
        PrimitiveValue::U64(v) => ints("u64", v.iter().map(|x| *x as i128).collect()),
        PrimitiveValue::F32(v) => {
            if v.is_empty() {
                N::Empty
            } else {
                N::F32(v.iter().map(|x| x.to_bits()).collect())
            }
        }
        PrimitiveValue::F64(v) => {
            if v.is_empty() {
                N::Empty
            } else {
                N::F64(v.iter().map(|x| x.to_bits()).collect())
            }
        }
        PrimitiveValue::Date(v) => norm_text_list(v.iter().map(|d| d.to_encoded()).collect()),
        PrimitiveValue::Time(v) => norm_text_list(v.iter().map(|d| d.to_encoded()).collect()),
        PrimitiveValue::DateTime(v) => {
            norm_text_list(v.iter().map(|d| d.to_encoded()).collect())
        }
    }
}

fn ints(l: &'static str, v: Vec<i128>) -> N {
    if v.is_empty() {
        N::Empty
    } else {
        N::Int(l, v)
    }
}

fn short(n: &N) -> String {
    let s = format!("{:?}", n);
    if s.len() > 300 {
        format!("{}…", &s[..300])
    } else {
        s
    }
}

/// The VR the reader is expected to report for element `e`.
/// Returns a list of acceptable VRs and whether the value must be compared on its wire bytes.
fn expected_vr(e: &GElem, ctx: &Ctx) -> (Vec<VR>, bool) {
    if !ctx.implicit {
        return (vec![e.vr], false);
    }
    let tag = Tag(e.tag.0, e.tag.1);
    match StandardDataDictionary.by_tag(tag).map(|d| d.vr()) {
        None => (vec![VR::UN], e.vr != VR::UN && e.vr != VR::OB),
        Some(VirtualVr::Exact(vr)) => (vec![vr], false),
        Some(VirtualVr::Xs) => (vec![if ctx.signed { VR::SS } else { VR::US }], false),
        Some(VirtualVr::Px) | Some(VirtualVr::Ox) | Some(VirtualVr::Lt) => {
            (vec![VR::OW, VR::OB, VR::US], false)
        }
        Some(_) => (vec![e.vr], false),
    }
}

fn bytes_of_actual(p: &PrimitiveValue) -> Option<Vec<u8>> {
    match p {
        PrimitiveValue::Empty => Some(vec![]),
        PrimitiveValue::U8(v) => Some(v.to_vec()),
        _ => None,
    }
}

fn strip_pad(mut v: Vec<u8>, unpadded_len: usize) -> Vec<u8> {
    if v.len() == unpadded_len + 1 && unpadded_len % 2 == 1 {
        v.pop();
    }
    v
}

pub fn cmp_dataset(
    exp: &[GElem],
    act: &InMemDicomObject,
    ctx: &Ctx,
    path: &str,
) -> Result<(), Mismatch> {
    let mut ctx = *ctx;
    let exp_tags: Vec<(u16, u16)> = exp.iter().map(|e| e.tag).collect();
    let act_tags: Vec<(u16, u16)> = act.iter().map(|e| (e.tag().0, e.tag().1)).collect();
    if exp_tags != act_tags {
        let first = exp_tags
            .iter()
            .zip(act_tags.iter())
            .position(|(a, b)| a != b)
            .unwrap_or(exp_tags.len().min(act_tags.len()));
        let vr = exp
            .get(first)
            .map(|e| e.vr.to_string().to_owned())
            .unwrap_or_else(|| "-".into());
        let shape = exp.get(first).map(|e| e.val.shape()).unwrap_or("-");
        return Err(Mismatch {
            path: path.to_string(),
            kind: "tags",
            vr,
            shape,
            detail: format!(
                "tag sequence differs at index {}: expected {:04X?} got {:04X?}",
                first, exp_tags, act_tags
            ),
        });
    }
    for (e, a) in exp.iter().zip(act.iter()) {
        let p = format!("{}({:04X},{:04X})", path, e.tag.0, e.tag.1);
        let mk = |kind: &'static str, detail: String| Mismatch {
            path: p.clone(),
            kind,
            vr: e.vr.to_string().to_owned(),
            shape: e.val.shape(),
            detail,
        };
        if e.tag == (0x0028, 0x0103) {
            if let GVal::U16(v) = &e.val {
                ctx.signed = v.first() == Some(&1);
            }
        }
        let (vrs, on_bytes) = expected_vr(e, &ctx);
        match (&e.val, a.value()) {
            (GVal::Seq(s), Value::Sequence(seq)) => {
                // a private/unknown sequence read from implicit VR is reported as UN or SQ
                if !(a.vr() == VR::SQ || (ctx.implicit && a.vr() == VR::UN)) {
                    return Err(mk("vr", format!("sequence element has VR {}", a.vr())));
                }
                let items = seq.items();
                if items.len() != s.items.len() {
                    return Err(mk(
                        "items",
                        format!("expected {} items, got {}", s.items.len(), items.len()),
                    ));
                }
                for (i, (gi, ai)) in s.items.iter().zip(items.iter()).enumerate() {
                    cmp_dataset(&gi.elems, ai, &ctx, &format!("{}[{}].", p, i))?;
                }
            }
            (GVal::Pix { bot, frags }, Value::PixelSequence(ps)) => {
                if ps.offset_table() != &bot[..] {
                    return Err(mk(
                        "bot",
                        format!("offset table {:?}, expected {:?}", ps.offset_table(), bot),
                    ));
                }
                let af = ps.fragments();
                if af.len() != frags.len() {
                    return Err(mk(
                        "fragments",
                        format!(
                            "fragment lengths {:?}, expected {:?}",
                            af.iter().map(|f| f.len()).collect::<Vec<_>>(),
                            frags.iter().map(|f| f.len()).collect::<Vec<_>>()
                        ),
                    ));
                }
                for (i, (g, f)) in frags.iter().zip(af.iter()).enumerate() {
                    if strip_pad(f.clone(), g.len()) != *g {
                        return Err(mk("fragments", format!("fragment {} differs", i)));
                    }
                }
            }
            (GVal::Seq(_), _) | (GVal::Pix { .. }, _) => {
                return Err(mk(
                    "kind",
                    format!(
                        "expected {} but element holds {}",
                        e.val.shape(),
                        match a.value() {
                            Value::Primitive(_) => "a primitive value",
                            Value::Sequence(_) => "a sequence",
                            Value::PixelSequence(_) => "a pixel sequence",
                        }
                    ),
                ));
            }
            (_, Value::Primitive(pv)) => {
                if !vrs.contains(&a.vr()) {
                    return Err(mk(
                        "vr",
                        format!("VR {} but expected one of {:?}", a.vr(), vrs),
                    ));
                }
                if on_bytes || (ctx.implicit && a.vr() != e.vr) {
                    // N3/N5: compare on little-endian wire bytes
                    let Some(ab) = bytes_of_actual(pv).or_else(|| wire_bytes_of(pv)) else {
                        return Err(mk("value", format!("cannot take bytes of {:?}", pv)));
                    };
                    if let (GVal::F64(v), VR::DS) = (&e.val, e.vr) {
                        // decimal text produced by the encoder: compare numerically
                        let txt = String::from_utf8_lossy(&ab).to_string();
                        let got: Vec<Option<f64>> = txt
                            .trim_end_matches([' ', '\0'])
                            .split('\\')
                            .map(|s| s.trim().parse::<f64>().ok())
                            .collect();
                        let want: Vec<Option<f64>> = v.iter().map(|x| Some(*x)).collect();
                        if got != want {
                            return Err(mk("value", format!("DS text {:?} vs {:?}", txt, v)));
                        }
                        continue;
                    }
                    let eb = refenc::elem_value_bytes(e, false);
                    let n = eb.len();
                    let padded = refenc::padded(eb.clone(), e.vr);
                    if ab != padded && strip_pad(ab.clone(), n) != eb {
                        return Err(mk(
                            "value",
                            format!(
                                "wire bytes differ: got {} expected {}",
                                crate::report::hex_short(&ab, 48),
                                crate::report::hex_short(&padded, 48)
                            ),
                        ));
                    }
                    continue;
                }
                let ne = norm_expected(e);
                let na = norm_actual(pv);
                let ok = match (&ne, &na) {
                    // textual numbers: compare numerically when the writer formatted the text
                    (N::F64(bits), N::Text(t)) if e.vr == VR::DS => {
                        t.len() == bits.len()
                            && t.iter().zip(bits.iter()).all(|(s, b)| {
                                s.trim().parse::<f64>().map(|x| x.to_bits()) == Ok(*b)
                                    || s.trim().parse::<f64>().ok() == Some(f64::from_bits(*b))
                            })
                    }
                    (N::Bytes(eb), N::Bytes(ab)) => {
                        eb == ab || strip_pad(ab.clone(), eb.len()) == *eb
                    }
                    (a, b) => a == b,
                };
                if !ok {
                    return Err(mk(
                        "value",
                        format!("expected {} got {}", short(&ne), short(&na)),
                    ));
                }
            }
            (_, other) => {
                return Err(mk(
                    "kind",
                    format!(
                        "expected a primitive value but element holds {}",
                        match other {
                            Value::Sequence(_) => "a sequence",
                            _ => "a pixel sequence",
                        }
                    ),
                ));
            }
        }
    }
    Ok(())
}

/// little-endian wire bytes of a typed primitive value (own code, not dicom-rs')
fn wire_bytes_of(p: &PrimitiveValue) -> Option<Vec<u8>> {
    let mut o = Vec::new();
    match p {
        PrimitiveValue::Empty => {}
        PrimitiveValue::U8(v) => o = v.to_vec(),
        PrimitiveValue::U16(v) => v.iter().for_each(|x| o.extend_from_slice(&x.to_le_bytes())),
        PrimitiveValue::I16(v) => v.iter().for_each(|x| o.extend_from_slice(&x.to_le_bytes())),
        PrimitiveValue::U32(v) => v.iter().for_each(|x| o.extend_from_slice(&x.to_le_bytes())),
        PrimitiveValue::I32(v) => v.iter().for_each(|x| o.extend_from_slice(&x.to_le_bytes())),
        PrimitiveValue::U64(v) => v.iter().for_each(|x| o.extend_from_slice(&x.to_le_bytes())),
        PrimitiveValue::I64(v) => v.iter().for_each(|x| o.extend_from_slice(&x.to_le_bytes())),
        PrimitiveValue::F32(v) => v.iter().for_each(|x| o.extend_from_slice(&x.to_le_bytes())),
        PrimitiveValue::F64(v) => v.iter().for_each(|x| o.extend_from_slice(&x.to_le_bytes())),
        PrimitiveValue::Strs(v) => o = v.join("\\").into_bytes(),
        PrimitiveValue::Str(s) => o = s.clone().into_bytes(),
        _ => return None,
    }
    Some(o)
}
