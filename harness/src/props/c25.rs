//! C25 — PDUs are encoded and decoded losslessly with exact framing.
//!
//! Legs (all in one harness run; `--leg X` restricts, used by replays):
//!  * A (stream 1): G-PDU random well-formed PDUs → `write_pdu`; size must equal the independent
//!    PS3.8 size model; `read_pdu` over (encoding ++ trailing bytes) must give the same value and
//!    leave exactly the trailing bytes, in strict and non-strict mode and through several `Buf`
//!    implementations; **every strict prefix** must read as `Ok(None)`; with a maximum below the
//!    PDU length strict mode must reject and non-strict mode must accept. The encodings are written
//!    to `<out>/pdus.jsonl` (hex + abstract description) for the independent Python parser
//!    `oracles/ps38_parse.py`, which checks every length field and the decoded content.
//!  * B (stream 2): PDUs whose PDU-length is exactly `max + d`, d ∈ −2..+2, for many maxima
//!    (strict: accept iff d ≤ 0; non-strict: accept always).
//!  * C (stream 3): items whose content does not fit their 16-bit length field: `write_pdu` must
//!    fail; the same shapes exactly at the limit must be written and read back.

use crate::gen::pdu::*;
use crate::report::*;
use crate::rng::Rng;
use bytes::{Buf, Bytes, BytesMut};
use dicom_ul::pdu::{
    read_pdu, write_pdu, AssociationAC, AssociationRQ, Pdu, PresentationContextProposed,
    PresentationContextResult, PresentationContextResultReason, RequestorRoles, UserIdentity,
    UserIdentityType, UserVariableItem, DEFAULT_MAX_PDU, MAXIMUM_PDU_SIZE, MINIMUM_PDU_SIZE,
};
use serde_json::{json, Value};
use std::io::Write as _;
use std::sync::Mutex;
use std::time::Duration;

fn err_variant(dbg: &str) -> String {
    dbg.chars().take_while(|c| c.is_alphanumeric() || *c == '_').collect()
}

pub fn encode(p: &Pdu) -> Result<Result<Vec<u8>, String>, String> {
    guarded(|| {
        let mut v = Vec::new();
        write_pdu(&mut v, p).map(|_| v).map_err(|e| format!("{:?}", e))
    })
}

/// First differing path between two abstract descriptions (indices dropped → usable in keys).
pub fn json_diff_path(a: &Value, b: &Value) -> String {
    fn go(a: &Value, b: &Value, path: &mut Vec<String>) -> bool {
        match (a, b) {
            (Value::Object(x), Value::Object(y)) => {
                if let (Some(Value::String(t)), true) = (x.get("t"), path.last().map(|s| s == "[]").unwrap_or(false)) {
                    path.push(t.clone());
                }
                for (k, v) in x {
                    match y.get(k) {
                        Some(w) if w == v => {}
                        Some(w) => {
                            path.push(k.clone());
                            go(v, w, path);
                            return true;
                        }
                        None => {
                            path.push(k.clone());
                            return true;
                        }
                    }
                }
                for k in y.keys() {
                    if !x.contains_key(k) {
                        path.push(k.clone());
                        return true;
                    }
                }
                false
            }
            (Value::Array(x), Value::Array(y)) => {
                if x.len() != y.len() {
                    path.push("len".into());
                    return true;
                }
                for (v, w) in x.iter().zip(y) {
                    if v != w {
                        path.push("[]".into());
                        go(v, w, path);
                        return true;
                    }
                }
                false
            }
            _ => a != b,
        }
    }
    let mut path = Vec::new();
    go(a, b, &mut path);
    path.join("/")
}

fn size_bucket(n: usize) -> &'static str {
    match n {
        0..=16 => "≤16",
        17..=128 => "≤128",
        129..=1024 => "≤1k",
        1025..=8192 => "≤8k",
        8193..=65535 => "≤64k",
        _ => ">64k",
    }
}

fn classes(l: &mut Local, leg: &str, p: &Pdu, len: usize) {
    let k = kind_name(kind_of(p));
    let detail = match p {
        Pdu::AssociationRQ(rq) => format!("pcs{}", count_bucket(rq.presentation_contexts.len())),
        Pdu::AssociationAC(ac) => format!("pcs{}", count_bucket(ac.presentation_contexts.len())),
        Pdu::PData { data } => format!("pdvs{}", count_bucket(data.len())),
        Pdu::AssociationRJ(rj) => format!("{:?}", rj_codes(&rj.source)),
        Pdu::AbortRQ { source } => format!("{:?}", abort_codes(source)),
        _ => String::new(),
    };
    l.class(format!("{}|{}|{}|{}", leg, k, size_bucket(len), detail));
    l.count(&format!("pdus_{}", k), 1);
    let uv = match p {
        Pdu::AssociationRQ(rq) => Some(&rq.user_variables),
        Pdu::AssociationAC(ac) => Some(&ac.user_variables),
        _ => None,
    };
    if let Some(uv) = uv {
        for u in uv {
            let n = user_var_name(u);
            l.class(format!("{}|{}|uv:{}|{}", leg, k, n, size_bucket(user_var_wire_len(u))));
            l.count(&format!("uservar_{}", n), 1);
        }
        if uv.is_empty() {
            l.class(format!("{}|{}|uv:none", leg, k));
        }
    }
}

fn count_bucket(n: usize) -> &'static str {
    match n {
        0 => "0",
        1 => "1",
        2..=8 => "2-8",
        9..=64 => "9-64",
        65..=127 => "65-127",
        _ => "128",
    }
}

struct Sink {
    file: Mutex<std::io::BufWriter<std::fs::File>>,
}

impl Sink {
    fn new(path: &str) -> Sink {
        Sink {
            file: Mutex::new(std::io::BufWriter::with_capacity(
                1 << 20,
                std::fs::File::create(path).expect("create pdus.jsonl"),
            )),
        }
    }
    fn emit(&self, leg: &str, stream: u64, idx: u64, kind: &str, bytes: &[u8], expect: Option<Value>, extra: Value) {
        let rec = json!({"leg": leg, "stream": stream, "case": idx, "kind": kind, "hex": hex(bytes),
                         "expect": expect, "info": extra});
        let mut line = serde_json::to_vec(&rec).unwrap();
        line.push(b'\n');
        self.file.lock().unwrap().write_all(&line).expect("write pdus.jsonl");
    }
    fn finish(&self) {
        self.file.lock().unwrap().flush().expect("flush pdus.jsonl");
    }
}

/// One full read of `bytes ++ trailing` through `&mut &[u8]`; checks value and exact consumption.
#[allow(clippy::too_many_arguments)]
fn check_full_read(
    l: &mut Local,
    leg: &str,
    p: &Pdu,
    kind: &str,
    bytes: &[u8],
    trailing: &[u8],
    max: u32,
    strict: bool,
    replay: &Value,
) {
    l.eval();
    let mode = if strict { "strict" } else { "non-strict" };
    let mut all = bytes.to_vec();
    all.extend_from_slice(trailing);
    let mut buf: &[u8] = &all[..];
    let r = guarded(|| read_pdu(&mut buf, max, strict).map_err(|e| format!("{:?}", e)));
    let mut rp = replay.clone();
    rp["max_pdu_length"] = json!(max);
    rp["strict"] = json!(strict);
    rp["trailing_hex"] = json!(hex(trailing));
    match r {
        Err(pn) => l.violation(
            format!("read_pdu|{}|{}|{}|panic|{}", leg, kind, mode, panic_loc(&pn)),
            format!("read_pdu panicked on a complete well-formed PDU: {}", pn),
            rp,
        ),
        Ok(Err(e)) => l.violation(
            format!("read_pdu|{}|{}|{}|error|{}", leg, kind, mode, err_variant(&e)),
            format!(
                "read_pdu({} bytes, max={}, strict={}) failed on the output of write_pdu: {}",
                all.len(),
                max,
                strict,
                e.chars().take(300).collect::<String>()
            ),
            rp,
        ),
        Ok(Ok(None)) => l.violation(
            format!("read_pdu|{}|{}|{}|complete-read-as-incomplete", leg, kind, mode),
            format!(
                "read_pdu returned Ok(None) although all {} bytes of the PDU (+{} trailing) were available",
                bytes.len(),
                trailing.len()
            ),
            rp,
        ),
        Ok(Ok(Some(q))) => {
            if &q != p {
                let path = json_diff_path(&pdu_json(&q), &pdu_json(p));
                rp["read_back"] = json!(pdu_brief(&q));
                l.violation(
                    format!("read_pdu|{}|{}|{}|roundtrip-mismatch|{}", leg, kind, mode, path),
                    format!("PDU read back differs at {}: wrote {} / read {}", path, pdu_brief(p), pdu_brief(&q)),
                    rp,
                );
            } else if buf != trailing {
                rp["left_in_buffer"] = json!(buf.len());
                l.violation(
                    format!(
                        "read_pdu|{}|{}|{}|consumed-{}",
                        leg,
                        kind,
                        mode,
                        if buf.len() < trailing.len() { "too-much" } else { "too-little" }
                    ),
                    format!(
                        "read_pdu consumed {} bytes of a {}-byte PDU ({} trailing bytes given, {} left)",
                        all.len() - buf.len(),
                        bytes.len(),
                        trailing.len(),
                        buf.len()
                    ),
                    rp,
                );
            }
        }
    }
}

/// Other `Buf` implementations: the result must not depend on the buffer type.
fn check_buf_variants(l: &mut Local, leg: &str, p: &Pdu, kind: &str, bytes: &[u8], rng: &mut Rng, replay: &Value) {
    let max = (bytes.len() as u32).max(MINIMUM_PDU_SIZE);
    let nt = rng.usize(5);
    let trailing = rng.bytes(nt);
    let mut all = bytes.to_vec();
    all.extend_from_slice(&trailing);
    let which = rng.below(4);
    let name = ["Bytes", "Cursor", "Chain", "BytesMut"][which as usize];
    l.eval();
    l.count(&format!("buf_variant_{}", name), 1);
    let split = rng.usize(all.len() + 1);
    let r = guarded(|| -> (Result<Option<Pdu>, String>, usize) {
        match which {
            0 => {
                let mut b = Bytes::from(all.clone());
                let r = read_pdu(&mut b, max, true).map_err(|e| format!("{:?}", e));
                (r, b.remaining())
            }
            1 => {
                let mut c = std::io::Cursor::new(&all[..]);
                let r = read_pdu(&mut c, max, true).map_err(|e| format!("{:?}", e));
                (r, all.len() - c.position() as usize)
            }
            2 => {
                let mut c = (&all[..split]).chain(&all[split..]);
                let r = read_pdu(&mut c, max, true).map_err(|e| format!("{:?}", e));
                (r, c.remaining())
            }
            _ => {
                let mut b = BytesMut::from(&all[..]);
                let r = read_pdu(&mut b, max, true).map_err(|e| format!("{:?}", e));
                (r, b.remaining())
            }
        }
    });
    let mut rp = replay.clone();
    rp["buf"] = json!(name);
    rp["chain_split"] = json!(split);
    let bad = match r {
        Err(pn) => Some((format!("panic|{}", panic_loc(&pn)), pn)),
        Ok((Err(e), _)) => Some((format!("error|{}", err_variant(&e)), e)),
        Ok((Ok(None), _)) => Some(("complete-read-as-incomplete".into(), "Ok(None)".into())),
        Ok((Ok(Some(q)), left)) => {
            if &q != p {
                Some(("roundtrip-mismatch".into(), pdu_brief(&q)))
            } else if left != trailing.len() {
                Some(("consumed-wrong".into(), format!("{} bytes left, {} trailing given", left, trailing.len())))
            } else {
                None
            }
        }
    };
    if let Some((k, what)) = bad {
        l.violation(
            format!("read_pdu|{}|{}|buf:{}|{}", leg, kind, name, k),
            format!("reading through a {} buffer: {}", name, what.chars().take(300).collect::<String>()),
            rp,
        );
    }
}

/// Every strict prefix must read as Ok(None). Returns the number of prefixes tried.
fn check_prefixes(l: &mut Local, leg: &str, kind: &str, bytes: &[u8], rng: &mut Rng, replay: &Value) {
    let len = bytes.len();
    let max_strict = ((len - 6) as u32).max(MINIMUM_PDU_SIZE);
    let exhaustive = len <= 16 * 1024;
    let cuts: Vec<usize> = if exhaustive {
        (0..len).collect()
    } else {
        let mut v: Vec<usize> = (0..200.min(len)).collect();
        v.extend((len - 200)..len);
        for _ in 0..400 {
            v.push(rng.usize(len));
        }
        // cuts around 64 KiB boundaries (16-bit wrap-arounds)
        for base in [65_535usize, 65_536, 65_541, 65_542, 131_072] {
            for d in 0..4 {
                if base + d < len {
                    v.push(base + d);
                }
                if base >= d && base - d < len {
                    v.push(base - d);
                }
            }
        }
        v
    };
    l.count(if exhaustive { "pdus_with_all_prefixes" } else { "pdus_with_sampled_prefixes" }, 1);
    let mut first_bad: Option<(usize, bool, String, String)> = None;
    let mut n = 0u64;
    let r = guarded(|| {
        for &k in &cuts {
            for strict in [true, false] {
                let max = if strict { max_strict } else { MINIMUM_PDU_SIZE };
                n += 1;
                match read_pdu(&bytes[..k], max, strict) {
                    Ok(None) => {}
                    Ok(Some(q)) => {
                        if first_bad.is_none() {
                            first_bad = Some((k, strict, "prefix-read-as-pdu".into(), pdu_brief(&q)));
                        }
                    }
                    Err(e) => {
                        if first_bad.is_none() {
                            let d = format!("{:?}", e);
                            first_bad = Some((k, strict, format!("prefix-error|{}", err_variant(&d)), d));
                        }
                    }
                }
            }
            if first_bad.is_some() {
                break;
            }
        }
    });
    l.evals(n);
    l.count("prefixes_checked", n);
    if let Err(pn) = r {
        l.violation(
            format!("read_pdu|{}|{}|prefix-panic|{}", leg, kind, panic_loc(&pn)),
            format!("read_pdu panicked on a strict prefix of a {}-byte PDU: {}", len, pn),
            replay.clone(),
        );
        return;
    }
    if let Some((k, strict, key, what)) = first_bad {
        let zone = if k < 6 { "in-header" } else { "in-body" };
        let mut rp = replay.clone();
        rp["prefix_len"] = json!(k);
        rp["strict"] = json!(strict);
        l.violation(
            format!("read_pdu|{}|{}|{}|{}", leg, kind, key, zone),
            format!(
                "the first {} of {} bytes (strict={}) did not read as incomplete (Ok(None)) but as: {}",
                k,
                len,
                strict,
                what.chars().take(300).collect::<String>()
            ),
            rp,
        );
    }
}

/// Strict / non-strict behaviour for a maximum below (or at) the PDU-length field value `plen`.
#[allow(clippy::too_many_arguments)]
fn check_max(l: &mut Local, leg: &str, p: &Pdu, kind: &str, bytes: &[u8], max: u32, replay: &Value) {
    let plen = (bytes.len() - 6) as u32;
    let mut rp = replay.clone();
    rp["max_pdu_length"] = json!(max);
    rp["pdu_length_field"] = json!(plen);
    // strict
    l.eval();
    let r = guarded(|| read_pdu(bytes, max, true).map_err(|e| format!("{:?}", e)));
    if plen > max {
        l.count("strict_over_max_cases", 1);
        match r {
            Ok(Err(_)) => l.count("strict_over_max_rejected", 1),
            Ok(Ok(x)) => {
                rp["strict"] = json!(true);
                l.violation(
                    format!(
                        "read_pdu|{}|{}|strict|over-max-{}",
                        leg,
                        kind,
                        if x.is_some() { "accepted" } else { "read-as-incomplete" }
                    ),
                    format!(
                        "strict read_pdu with max={} did not reject a complete PDU with PDU-length {} (got {})",
                        max,
                        plen,
                        if x.is_some() { "the PDU" } else { "Ok(None)" }
                    ),
                    rp.clone(),
                )
            }
            Err(pn) => l.violation(
                format!("read_pdu|{}|{}|strict|panic|{}", leg, kind, panic_loc(&pn)),
                format!("panic: {}", pn),
                rp.clone(),
            ),
        }
    } else {
        l.count("strict_within_max_cases", 1);
        match r {
            Ok(Ok(Some(q))) if &q == p => {}
            other => {
                rp["strict"] = json!(true);
                let d = match &other {
                    Ok(Ok(Some(_))) => "roundtrip-mismatch".to_string(),
                    Ok(Ok(None)) => "complete-read-as-incomplete".to_string(),
                    Ok(Err(e)) => format!("error|{}", err_variant(e)),
                    Err(pn) => format!("panic|{}", panic_loc(pn)),
                };
                l.violation(
                    format!("read_pdu|{}|{}|strict|within-max|{}", leg, kind, d),
                    format!(
                        "strict read_pdu with max={} on a PDU with PDU-length {} (≤ max): {:?}",
                        max,
                        plen,
                        other.map(|x| x.map(|y| y.map(|z| pdu_brief(&z))))
                    ),
                    rp.clone(),
                )
            }
        }
    }
    // non-strict: always accepted
    l.eval();
    if plen > max {
        l.count("nonstrict_over_max_cases", 1);
    }
    let r = guarded(|| read_pdu(bytes, max, false).map_err(|e| format!("{:?}", e)));
    match r {
        Ok(Ok(Some(q))) if &q == p => {}
        other => {
            rp["strict"] = json!(false);
            let d = match &other {
                Ok(Ok(Some(_))) => "roundtrip-mismatch".to_string(),
                Ok(Ok(None)) => "complete-read-as-incomplete".to_string(),
                Ok(Err(e)) => format!("error|{}", err_variant(e)),
                Err(pn) => format!("panic|{}", panic_loc(pn)),
            };
            l.violation(
                format!(
                    "read_pdu|{}|{}|non-strict|{}|{}",
                    leg,
                    kind,
                    if plen > max { "over-max" } else { "within-max" },
                    d
                ),
                format!(
                    "non-strict read_pdu with max={} on a well-formed PDU with PDU-length {}: {:?}",
                    max,
                    plen,
                    other.map(|x| x.map(|y| y.map(|z| pdu_brief(&z))))
                ),
                rp,
            )
        }
    }
}

/// Write a well-formed PDU; report failures / size-model disagreement. Returns the bytes.
fn write_checked(l: &mut Local, leg: &str, p: &Pdu, kind: &str, replay: &Value) -> Option<Vec<u8>> {
    l.eval();
    match encode(p) {
        Err(pn) => {
            l.violation(
                format!("write_pdu|{}|{}|panic|{}", leg, kind, panic_loc(&pn)),
                format!("write_pdu panicked on a well-formed PDU: {}", pn),
                replay.clone(),
            );
            None
        }
        Ok(Err(e)) => {
            l.violation(
                format!("write_pdu|{}|{}|error|{}", leg, kind, err_variant(&e)),
                format!("write_pdu failed on a well-formed PDU: {}", e.chars().take(300).collect::<String>()),
                replay.clone(),
            );
            None
        }
        Ok(Ok(b)) => {
            let want = pdu_wire_len(p);
            if b.len() != want {
                let mut rp = replay.clone();
                rp["written_hex"] = json!(hex_short(&b, 2048));
                l.violation(
                    format!("write_pdu|{}|{}|encoded-size-{}", leg, kind, if b.len() < want { "short" } else { "long" }),
                    format!(
                        "write_pdu produced {} bytes, the PS3.8 layout of this PDU needs {} ({:+})",
                        b.len(),
                        want,
                        b.len() as i64 - want as i64
                    ),
                    rp,
                );
            }
            if b.len() < 6 {
                return None;
            }
            Some(b)
        }
    }
}

fn leg_a(cfg: &Cfg, sink: &Sink) -> Local {
    let n = cfg.n(60_000, 1_500_000);
    run_parallel(
        cfg,
        1,
        RunLimits {
            cases: n,
            wall: Duration::from_secs(if cfg.thorough() { 1200 } else { 120 }),
        },
        |l: &mut Local, rng: &mut Rng, idx: u64| {
            let opts = match rng.below(10) {
                0 => PduOpts::default(),
                1..=3 => PduOpts {
                    kinds: None,
                    max_pcs: 16,
                    max_ts: 8,
                    big: false,
                    max_payload: 3000,
                },
                _ => PduOpts::small(),
            };
            let p = gen_pdu(rng, &opts);
            let kind = kind_name(kind_of(&p));
            let replay = json!({"seed": cfg.seed, "stream": 1, "case": idx, "leg": "A", "pdu": pdu_json(&p)});
            let bytes = match write_checked(l, "A", &p, kind, &replay) {
                Some(b) => b,
                None => return,
            };
            classes(l, "A", &p, bytes.len());
            let mut replay = replay;
            replay["written_hex"] = json!(hex_short(&bytes, 2048));
            replay["written_len"] = json!(bytes.len());
            if l.want_sample() && idx % 131 == 0 {
                l.sample(json!({"case": idx, "pdu": pdu_json(&p), "encoded_len": bytes.len(), "hex": hex_short(&bytes, 96)}));
            }
            // to the independent parser: every PDU up to 8 KiB, every 2nd (thorough: 16th) larger one
            if bytes.len() <= 8192 || idx % (if cfg.thorough() { 16 } else { 2 }) == 0 {
                sink.emit("A", 1, idx, kind, &bytes, Some(pdu_json(&p)), Value::Null);
                l.count("pdus_sent_to_ps38_parser", 1);
            }
            let plen = (bytes.len() - 6) as u32;
            let fit = plen.max(MINIMUM_PDU_SIZE);
            // full reads
            let trailing = match rng.below(4) {
                0 => vec![],
                1 => {
                    let n = rng.urange(1, 5);
                    rng.bytes(n)
                }
                2 => vec![0x04, 0x00, 0x00, 0x00, 0x00, 0x20],
                _ => {
                    let n = rng.urange(6, 24);
                    rng.bytes(n)
                }
            };
            check_full_read(l, "A", &p, kind, &bytes, &trailing, fit, true, &replay);
            check_full_read(l, "A", &p, kind, &bytes, &trailing, MAXIMUM_PDU_SIZE, true, &replay);
            check_full_read(l, "A", &p, kind, &bytes, &trailing, MINIMUM_PDU_SIZE, false, &replay);
            check_full_read(l, "A", &p, kind, &bytes, &[], DEFAULT_MAX_PDU.max(fit), rng.bool(), &replay);
            check_buf_variants(l, "A", &p, kind, &bytes, rng, &replay);
            // every strict prefix
            check_prefixes(l, "A", kind, &bytes, rng, &replay);
            // maxima below the PDU length
            if plen > MINIMUM_PDU_SIZE {
                for max in [plen - 1, MINIMUM_PDU_SIZE, MINIMUM_PDU_SIZE + rng.below((plen - MINIMUM_PDU_SIZE) as u64) as u32] {
                    check_max(l, "A", &p, kind, &bytes, max, &replay);
                }
            }
        },
    )
}

/// A PDU whose PDU-length field is exactly `plen` (≥ 80), of a random variant.
fn pdu_with_length(rng: &mut Rng, plen: usize) -> Pdu {
    match rng.below(4) {
        0 => Pdu::Unknown {
            pdu_type: if rng.bool() { 0 } else { 8 + rng.below(248) as u8 },
            data: rng.bytes(plen),
        },
        1 if plen < 60_000 => {
            // association request padded with an (unknown-type) user sub-item
            let mut opts = PduOpts::small();
            opts.kinds = Some(vec![Kind::Rq, Kind::Ac]);
            for _ in 0..20 {
                let mut p = gen_pdu(rng, &opts);
                let base = pdu_wire_len(&p) - 6;
                let uv = match &mut p {
                    Pdu::AssociationRQ(rq) => &mut rq.user_variables,
                    Pdu::AssociationAC(ac) => &mut ac.user_variables,
                    _ => unreachable!(),
                };
                // a first sub-item also brings the 4-byte user information header
                let need = if uv.is_empty() { 8 } else { 4 };
                if plen >= base + need {
                    let pad = plen - base - need;
                    if user_info_wire_len(uv) + need + pad <= 65_535 + 4 {
                        uv.push(UserVariableItem::Unknown(0x5A, rng.bytes(pad)));
                        if user_info_wire_len(uv) - 4 <= 65_535 {
                            return p;
                        }
                    }
                }
            }
            gen_pdata(rng, &PDataOpts { exact_len: Some(plen), ..Default::default() })
        }
        _ => gen_pdata(rng, &PDataOpts { exact_len: Some(plen), ..Default::default() }),
    }
}

fn leg_b(cfg: &Cfg, sink: &Sink) -> Local {
    let n = cfg.n(6_000, 80_000);
    run_parallel(
        cfg,
        2,
        RunLimits {
            cases: n,
            wall: Duration::from_secs(if cfg.thorough() { 600 } else { 60 }),
        },
        |l: &mut Local, rng: &mut Rng, idx: u64| {
            let max: u32 = match rng.below(12) {
                0 => MINIMUM_PDU_SIZE,
                1 => MINIMUM_PDU_SIZE + 1,
                2 => 4096,
                3 => 16_384,
                4 => DEFAULT_MAX_PDU,
                5 => 32_768,
                6 => 65_535,
                7 => 65_536,
                8 => 131_072,
                _ => rng.range(MINIMUM_PDU_SIZE as i64, 150_000) as u32,
            };
            let d: i64 = match rng.below(8) {
                0 => -2,
                1 => -1,
                2 | 3 => 0,
                4 | 5 => 1,
                6 => 2,
                _ => rng.range(3, 5000),
            };
            let plen = (max as i64 + d) as usize;
            let p = pdu_with_length(rng, plen);
            let kind = kind_name(kind_of(&p));
            let replay = json!({"seed": cfg.seed, "stream": 2, "case": idx, "leg": "B", "pdu": pdu_json(&p),
                                "max_pdu_length": max, "pdu_length_field_wanted": plen});
            let bytes = match write_checked(l, "B", &p, kind, &replay) {
                Some(b) => b,
                None => return,
            };
            if bytes.len() != plen + 6 {
                // size-model disagreement was already reported by write_checked
                return;
            }
            l.class(format!("B|{}|max{}|d{}", kind, size_bucket(max as usize), d.clamp(-3, 3)));
            if idx % 16 == 0 {
                sink.emit("B", 2, idx, kind, &bytes, Some(pdu_json(&p)), Value::Null);
                l.count("pdus_sent_to_ps38_parser", 1);
            }
            check_max(l, "B", &p, kind, &bytes, max, &replay);
            // the last prefixes of a PDU at the limit are still incomplete, never an error
            if d <= 0 {
                for k in [bytes.len() - 1, bytes.len() - 2, 6, 5] {
                    l.eval();
                    l.count("prefixes_checked", 1);
                    match guarded(|| read_pdu(&bytes[..k], max, true).map_err(|e| format!("{:?}", e))) {
                        Ok(Ok(None)) => {}
                        other => {
                            let mut rp = replay.clone();
                            rp["prefix_len"] = json!(k);
                            l.violation(
                                format!("read_pdu|B|{}|prefix-not-incomplete", kind),
                                format!(
                                    "prefix of {} of {} bytes with strict max={}: {:?}",
                                    k,
                                    bytes.len(),
                                    max,
                                    other.map(|x| x.map(|y| y.map(|z| pdu_brief(&z))))
                                ),
                                rp,
                            );
                        }
                    }
                }
            }
        },
    )
}

// ---------------------------------------------------------------------------------------------
// Leg C — content that does not fit a 16-bit item length.

const OVER_CLASSES: [&str; 13] = [
    "user-sub-item:unknown",
    "user-sub-item:ext-neg",
    "user-sub-item:user-identity-primary",
    "user-sub-item:user-identity-total",
    "user-sub-item:impl-class-uid",
    "user-sub-item:impl-version",
    "user-sub-item:role-uid",
    "user-info-total",
    "pc-proposed-total",
    "pc-proposed:abstract-syntax",
    "pc-proposed:transfer-syntax",
    "pc-result:transfer-syntax",
    "application-context",
];

fn digits(rng: &mut Rng, n: usize) -> String {
    (0..n).map(|_| (b'1' + rng.below(9) as u8) as char).collect()
}

fn base_rq(rng: &mut Rng) -> AssociationRQ {
    AssociationRQ {
        protocol_version: 1,
        calling_ae_title: gen_ae_title(rng),
        called_ae_title: gen_ae_title(rng),
        application_context_name: "1.2.840.10008.3.1.1.1".into(),
        presentation_contexts: vec![PresentationContextProposed {
            id: 1,
            abstract_syntax: "1.2.840.10008.1.1".into(),
            transfer_syntaxes: vec!["1.2.840.10008.1.2".into()],
        }],
        user_variables: vec![
            UserVariableItem::MaxLength(16_384),
            UserVariableItem::ImplementationClassUID("1.2.3.4".into()),
        ],
    }
}

fn base_ac(rng: &mut Rng) -> AssociationAC {
    AssociationAC {
        protocol_version: 1,
        calling_ae_title: gen_ae_title(rng),
        called_ae_title: gen_ae_title(rng),
        application_context_name: "1.2.840.10008.3.1.1.1".into(),
        presentation_contexts: vec![PresentationContextResult {
            id: 1,
            reason: PresentationContextResultReason::Acceptance,
            transfer_syntax: "1.2.840.10008.1.2".into(),
        }],
        user_variables: vec![
            UserVariableItem::MaxLength(16_384),
            UserVariableItem::ImplementationClassUID("1.2.3.4".into()),
        ],
    }
}

/// Build a PDU in which the item of class `class` has a content of exactly `limit + over` bytes
/// where `limit` = 65 535 is the largest value its length field can hold (`over` ≤ 0 ⇒ it fits).
/// Returns (pdu, description of the oversized structure, content length).
fn overlong_pdu(rng: &mut Rng, class: &str, over: i64) -> (Pdu, String, usize) {
    let target = (65_535i64 + over) as usize;
    let in_ac = rng.bool();
    let wrap_user = |rng: &mut Rng, uv: Vec<UserVariableItem>, in_ac: bool| -> Pdu {
        if in_ac {
            let mut ac = base_ac(rng);
            ac.user_variables = uv;
            Pdu::AssociationAC(ac)
        } else {
            let mut rq = base_rq(rng);
            rq.user_variables = uv;
            Pdu::AssociationRQ(rq)
        }
    };
    match class {
        // a single sub-item: the sub-item content is `target`; note that the enclosing user
        // information item is then 4 bytes larger still
        "user-sub-item:unknown" => {
            let uv = vec![UserVariableItem::Unknown(0x5A, rng.bytes(target))];
            (wrap_user(rng, uv, in_ac), "sub-item 5AH content".into(), target)
        }
        "user-sub-item:ext-neg" => {
            let uid = "1.2.840.10008.5.1.4.1.1.2".to_string();
            let n = target - 2 - uid.len();
            let uv = vec![UserVariableItem::SopClassExtendedNegotiationSubItem(uid, rng.bytes(n))];
            (wrap_user(rng, uv, in_ac), "sub-item 56H content".into(), target)
        }
        "user-sub-item:user-identity-primary" => {
            // the primary field itself has a 16-bit length
            let ui = UserIdentity::new(false, UserIdentityType::Jwt, rng.bytes(target), vec![]);
            let uv = vec![UserVariableItem::UserIdentityItem(ui)];
            (wrap_user(rng, uv, false), "user identity primary field".into(), target)
        }
        "user-sub-item:user-identity-total" => {
            // both fields fit their own length, the sub-item (6 + p + s) does not
            let p = 40_000usize;
            let s = target - 6 - p;
            let ui = UserIdentity::new(true, UserIdentityType::UsernamePassword, rng.bytes(p), rng.bytes(s));
            let uv = vec![UserVariableItem::UserIdentityItem(ui)];
            (wrap_user(rng, uv, false), "sub-item 58H content".into(), target)
        }
        "user-sub-item:impl-class-uid" => {
            let uv = vec![UserVariableItem::ImplementationClassUID(digits(rng, target))];
            (wrap_user(rng, uv, in_ac), "sub-item 52H content".into(), target)
        }
        "user-sub-item:impl-version" => {
            let uv = vec![UserVariableItem::ImplementationVersionName(digits(rng, target))];
            (wrap_user(rng, uv, in_ac), "sub-item 55H content".into(), target)
        }
        "user-sub-item:role-uid" => {
            let uv = vec![UserVariableItem::ScuScpRoleSelectionSubItem(
                digits(rng, target - 4),
                RequestorRoles { scu: true, scp: false },
            )];
            (wrap_user(rng, uv, in_ac), "sub-item 54H content".into(), target)
        }
        "user-info-total" => {
            // several sub-items that fit individually; the user information item is `target`
            let mut uv = vec![
                UserVariableItem::MaxLength(16_384),
                UserVariableItem::ImplementationClassUID("1.2.3.4".into()),
            ];
            let mut used = user_info_wire_len(&uv) - 4;
            let k = rng.urange(2, 4);
            for i in 0..k {
                let left = target - used;
                let share = if i + 1 == k { left } else { left / (k - i) };
                let share = share.max(4);
                uv.push(UserVariableItem::Unknown(0x5B, rng.bytes(share - 4)));
                used += share;
            }
            (wrap_user(rng, uv, in_ac), "user information item 50H content".into(), used)
        }
        "pc-proposed-total" => {
            // 4 + (4+17) + k * (4 + len): many transfer syntaxes, each perfectly valid
            let mut rq = base_rq(rng);
            let pc = &mut rq.presentation_contexts[0];
            pc.transfer_syntaxes.clear();
            let mut used = 4 + 4 + pc.abstract_syntax.len();
            // every syntax costs 4 + n bytes with n in 17..=64, i.e. 21..=68; land exactly on target
            loop {
                let left = target - used;
                let part = if (21..=68).contains(&left) {
                    left
                } else if left <= 136 {
                    (left - 68).max(21)
                } else {
                    4 + rng.urange(17, 64)
                };
                let n = part - 4;
                pc.transfer_syntaxes.push(format!("1.{}", digits(rng, n - 2)));
                used += part;
                if used == target {
                    break;
                }
            }
            (Pdu::AssociationRQ(rq), "presentation context item 20H content".into(), used)
        }
        "pc-proposed:abstract-syntax" => {
            let mut rq = base_rq(rng);
            rq.presentation_contexts[0].abstract_syntax = digits(rng, target);
            (Pdu::AssociationRQ(rq), "abstract syntax sub-item 30H content".into(), target)
        }
        "pc-proposed:transfer-syntax" => {
            let mut rq = base_rq(rng);
            rq.presentation_contexts[0].transfer_syntaxes = vec![digits(rng, target)];
            (Pdu::AssociationRQ(rq), "transfer syntax sub-item 40H content".into(), target)
        }
        "pc-result:transfer-syntax" => {
            let mut ac = base_ac(rng);
            ac.presentation_contexts[0].transfer_syntax = digits(rng, target);
            (Pdu::AssociationAC(ac), "transfer syntax sub-item 40H content".into(), target)
        }
        "application-context" => {
            if in_ac {
                let mut ac = base_ac(rng);
                ac.application_context_name = digits(rng, target);
                (Pdu::AssociationAC(ac), "application context item 10H content".into(), target)
            } else {
                let mut rq = base_rq(rng);
                rq.application_context_name = digits(rng, target);
                (Pdu::AssociationRQ(rq), "application context item 10H content".into(), target)
            }
        }
        _ => unreachable!(),
    }
}

/// For classes where the *outermost* oversized structure is not the one named by the class
/// (a single sub-item of 65 535 bytes sits in a user information item of 65 539), "fits" means:
/// every enclosing 16-bit item fits as well.
fn fits_everything(p: &Pdu) -> bool {
    let uv_ok = |uv: &[UserVariableItem]| {
        uv.iter().all(|u| user_var_wire_len(u) - 4 <= 65_535)
            && uv.iter().all(|u| match u {
                UserVariableItem::UserIdentityItem(ui) => {
                    ui.primary_field().len() <= 65_535 && ui.secondary_field().len() <= 65_535
                }
                UserVariableItem::ScuScpRoleSelectionSubItem(uid, _) => uid.len() <= 65_535,
                UserVariableItem::SopClassExtendedNegotiationSubItem(uid, _) => uid.len() <= 65_535,
                _ => true,
            })
            && user_info_wire_len(uv).saturating_sub(4) <= 65_535
    };
    match p {
        Pdu::AssociationRQ(rq) => {
            rq.application_context_name.len() <= 65_535
                && rq.presentation_contexts.iter().all(|pc| {
                    pc_proposed_wire_len(pc) - 4 <= 65_535
                        && pc.abstract_syntax.len() <= 65_535
                        && pc.transfer_syntaxes.iter().all(|t| t.len() <= 65_535)
                })
                && uv_ok(&rq.user_variables)
        }
        Pdu::AssociationAC(ac) => {
            ac.application_context_name.len() <= 65_535
                && ac
                    .presentation_contexts
                    .iter()
                    .all(|pc| pc_result_wire_len(pc) - 4 <= 65_535 && pc.transfer_syntax.len() <= 65_535)
                && uv_ok(&ac.user_variables)
        }
        _ => true,
    }
}

fn leg_c(cfg: &Cfg, sink: &Sink) -> Local {
    let n = cfg.n(1_300, 13_000);
    // single-threaded: cases are taken in index order, so the witness kept for every key is the
    // first (= smallest: 65 536 bytes) one and the report is reproducible
    let mut cfg1 = cfg.clone();
    cfg1.threads = 1;
    let cfg = &cfg1;
    run_parallel(
        cfg,
        3,
        RunLimits {
            cases: n,
            wall: Duration::from_secs(if cfg.thorough() { 600 } else { 60 }),
        },
        |l: &mut Local, rng: &mut Rng, idx: u64| {
            let class = OVER_CLASSES[(idx % OVER_CLASSES.len() as u64) as usize];
            // how far beyond (or below) the 16-bit limit the named structure is
            let over: i64 = match (idx / OVER_CLASSES.len() as u64) % 10 {
                0 => 1,      // 65 536: truncates to 0
                1 => 2,
                2 => 0,      // exactly at the limit of the named structure
                3 => -40,    // comfortably inside, everything fits
                4 => 256,
                5 => 65_536, // 131 071
                6 => rng.range(3, 4_000),
                7 => rng.range(4_001, 66_000),
                8 => -rng.range(8, 2_000),
                _ => 1 + rng.range(0, 8),
            };
            let (p, what, content) = overlong_pdu(rng, class, over);
            let kind = kind_name(kind_of(&p));
            let must_fit = fits_everything(&p);
            let replay = json!({"seed": cfg.seed, "stream": 3, "case": idx, "leg": "C", "class": class,
                                "structure": what, "content_bytes": content, "limit": 65535,
                                "pdu_kind": kind});
            l.class(format!("C|{}|{}|{}", class, kind, if must_fit { "fits" } else if over <= 256 { "over-small" } else { "over-large" }));
            if must_fit {
                // boundary positives: must be written and read back exactly
                l.count("at_limit_cases", 1);
                let bytes = match write_checked(l, "C", &p, kind, &replay) {
                    Some(b) => b,
                    None => return,
                };
                // the strings of this leg are length probes, not valid UIDs / names
                sink.emit("C", 3, idx, kind, &bytes, Some(pdu_json(&p)), json!({"lenient_syntax": true}));
                l.count("pdus_sent_to_ps38_parser", 1);
                let fit = ((bytes.len() - 6) as u32).max(MINIMUM_PDU_SIZE);
                check_full_read(l, "C", &p, kind, &bytes, &[0x05, 0x00], fit, true, &replay);
                return;
            }
            l.eval();
            l.count("overlong_cases", 1);
            l.count(&format!("overlong_{}", class), 1);
            match encode(&p) {
                Ok(Err(_)) => l.count("overlong_write_failed_as_required", 1),
                Err(pn) => l.violation(
                    format!("write_pdu|overlong|{}|panic|{}", class, panic_loc(&pn)),
                    format!("write_pdu panicked on an over-long {} of {} bytes: {}", what, content, pn),
                    replay,
                ),
                Ok(Ok(bytes)) => {
                    let back = guarded(|| {
                        read_pdu(&bytes[..], MAXIMUM_PDU_SIZE, false).map_err(|e| err_variant(&format!("{:?}", e)))
                    });
                    let back_s = match &back {
                        Ok(Ok(Some(q))) if q == &p => "the same PDU (!)".to_string(),
                        Ok(Ok(Some(q))) => format!("a different PDU: {}", pdu_brief(q).chars().take(200).collect::<String>()),
                        Ok(Ok(None)) => "incomplete (Ok(None))".to_string(),
                        Ok(Err(e)) => format!("error {}", e),
                        Err(pn) => format!("panic {}", pn),
                    };
                    let mut rp = replay.clone();
                    rp["written_len"] = json!(bytes.len());
                    rp["needed_len"] = json!(pdu_wire_len(&p));
                    rp["written_head_hex"] = json!(hex_short(&bytes, 160));
                    rp["read_back"] = json!(back_s);
                    sink.emit("C-overlong", 3, idx, kind, &bytes, None, json!({"class": class}));
                    l.violation(
                        format!("write_pdu|overlong|{}|wrote-ok", class),
                        format!(
                            "write_pdu returned Ok for a {} with a {} of {} bytes (16-bit length field, max 65535): {} bytes emitted with the length truncated modulo 65536; reading them back gives {}",
                            kind, what, content, bytes.len(), back_s
                        ),
                        rp,
                    );
                }
            }
        },
    )
}

pub fn run(cfg: &Cfg) -> Outcome {
    let leg = cfg.opt("--leg");
    let want = |x: &str| leg.as_deref().map(|l| l == x).unwrap_or(cfg.only_case.is_none() || cfg.opt("--only-stream").is_some());
    let sink = Sink::new(&format!("{}/pdus.jsonl", cfg.out));
    let mut local = Local::new();
    if want("A") {
        local.merge(leg_a(cfg, &sink));
    }
    if want("B") {
        local.merge(leg_b(cfg, &sink));
    }
    if want("C") {
        local.merge(leg_c(cfg, &sink));
    }
    sink.finish();
    let mut o = Outcome::new(
        local,
        "A: G-PDU random well-formed PDUs (all 8 variants, all user sub-items, 0–128 presentation contexts, sub-items up to 64 KiB): write_pdu size = PS3.8 size model; read_pdu(encoding ++ trailing) = same value and exact consumption (strict/non-strict, 4 maxima, 4 Buf types); every strict prefix reads Ok(None) (exhaustive ≤16 KiB, else 400 head/tail + 400 random + 64 KiB-boundary cuts) in both modes; max below PDU-length ⇒ strict rejects / non-strict accepts. B: PDU-length = max+d, d∈−2..+2 and beyond, 12 maxima. C: 13 item classes beyond / exactly at the 16-bit length limit (beyond ⇒ write_pdu must fail; at the limit ⇒ round trip). Encodings checked by the independent PS3.8 parser (driver leg). class = (leg, variant, size bucket, detail / user sub-item kind)",
    );
    if cfg.only_case.is_none() && leg.is_none() {
        o.min_evaluations = 100_000;
        o.min_classes = 120;
    }
    o
}
