//! C34 — I/O failures are always reported (fault enumeration over the failing byte offset).

use crate::gen::ds::{gen_dataset, DsOpts};
use crate::gen::tree::*;
use crate::mon::failio::{FailMode, FailingReader, FailingWriter};
use crate::props::c01::{four_ts, write_with, Api};
use crate::report::*;
use crate::rng::Rng;
use bytes::BytesMut;
use dicom_object::meta::FileMetaTableBuilder;
use dicom_object::{FileMetaTable, InMemDicomObject};
use dicom_ul::pdu::{AbortRQSource, PDataValue, PDataValueType, Pdu, PresentationContextProposed};
use serde_json::json;
use std::io::{Read, Write};
use std::time::Duration;

const UIDS: [&str; 4] = ["1.2.840.10008.1.2", "1.2.840.10008.1.2.1", "1.2.840.10008.1.2.2", "1.2.840.10008.1.2.1.99"];

fn offsets(rng: &mut Rng, len: usize, cfg: &Cfg) -> Vec<usize> {
    let cap = if cfg.thorough() { 4096 } else { 700 };
    if len <= cap {
        (0..len).collect()
    } else {
        let mut v: Vec<usize> = (0..200).collect();
        v.extend((len - 100)..len);
        for _ in 0..(cap - 300) {
            v.push(rng.usize(len));
        }
        v.sort();
        v.dedup();
        v
    }
}

fn gen_pdu(rng: &mut Rng) -> Pdu {
    match rng.usize(5) {
        0 => Pdu::AssociationRQ(dicom_ul::pdu::AssociationRQ {
            protocol_version: 1,
            calling_ae_title: "CALLING".into(),
            called_ae_title: "CALLED".into(),
            application_context_name: "1.2.840.10008.3.1.1.1".into(),
            presentation_contexts: (0..rng.urange(1, 4)).map(|i| PresentationContextProposed {
                id: (2 * i + 1) as u8,
                abstract_syntax: "1.2.840.10008.5.1.4.1.1.7".into(),
                transfer_syntaxes: vec!["1.2.840.10008.1.2".into(), "1.2.840.10008.1.2.1".into()],
            }).collect(),
            user_variables: vec![dicom_ul::pdu::UserVariableItem::MaxLength(16384), dicom_ul::pdu::UserVariableItem::ImplementationClassUID("1.2.3.4".into())],
        }),
        1 => Pdu::PData { data: vec![PDataValue { presentation_context_id: 1, value_type: PDataValueType::Data, is_last: true, data: { let n = rng.urange(0, 300); rng.bytes(n) } }] },
        2 => Pdu::ReleaseRQ,
        3 => Pdu::AbortRQ { source: AbortRQSource::ServiceUser },
        _ => Pdu::PData { data: (0..2).map(|i| PDataValue { presentation_context_id: 3, value_type: PDataValueType::Command, is_last: i == 1, data: { let n = rng.urange(1, 60); rng.bytes(n) } }).collect() },
    }
}

pub fn run(cfg: &Cfg) -> Outcome {
    let tss = four_ts();
    let n = cfg.n(400, 8_000);
    let local = run_parallel(
        cfg,
        34,
        RunLimits { cases: n, wall: Duration::from_secs(if cfg.thorough() { 1500 } else { 150 }) },
        |l: &mut Local, rng: &mut Rng, idx: u64| {
            let mut opts = DsOpts::default();
            opts.max_elems = 6;
            opts.max_depth = 2;
            opts.big = idx % 40 == 0;
            let ds = gen_dataset(rng, &opts);
            let obj = to_object(&ds);
            let base = json!({"seed": cfg.seed, "stream": 34, "case": idx, "dataset": ds_json(&ds)});
            let mut check_write = |l: &mut Local, rng: &mut Rng, name: &str, tsname: &str, op: &dyn Fn(&mut dyn Write) -> Result<(), String>| {
                let mut healthy = Vec::new();
                if op(&mut healthy).is_err() {
                    l.count("healthy_write_failed_skipped", 1);
                    return;
                }
                let total = healthy.len();
                let sizeclass = if total <= 64 { "tiny" } else if total <= 700 { "small" } else { "large" };
                for mode in [FailMode::Err, FailMode::WriteZero] {
                    l.class(format!("{}|{}|{:?}|{}", name, tsname, mode, sizeclass));
                    for k in offsets(rng, total, cfg) {
                        l.eval();
                        let mut fw = FailingWriter::new(k, mode);
                        let r = guarded(|| op(&mut fw));
                        let mut rp = base.clone();
                        rp["operation"] = json!(name);
                        rp["ts"] = json!(tsname);
                        rp["fail_at"] = json!(k);
                        rp["mode"] = json!(format!("{:?}", mode));
                        rp["complete_length"] = json!(total);
                        match r {
                            Err(p) => { l.violation(format!("{}|{}|panic|{}", name, tsname, panic_loc(&p)), p, rp); break; }
                            Ok(Ok(())) => {
                                if fw.accepted.len() < total {
                                    let region = if k + 4 >= total { "tail" } else if k == 0 { "start" } else { "middle" };
                                    l.violation(
                                        format!("{}|{}|{:?}|ok-with-incomplete-output|{}", name, tsname, mode, region),
                                        format!("{} reported success although the writer failed after {} of {} bytes ({} bytes accepted, {} failed write calls)", name, k, total, fw.accepted.len(), fw.failures),
                                        rp,
                                    );
                                }
                            }
                            Ok(Err(_)) => { l.count("write_failures_reported", 1); }
                        }
                    }
                }
            };
            for (ti, tc) in tss.iter().enumerate() {
                let o2 = obj.clone();
                check_write(l, rng, "write_dataset_with_ts", tc.name, &|w| o2.write_dataset_with_ts(w, &tc.ts).map_err(|e| err_chain(&e)));
                if idx % 2 == 0 {
                    let o3 = obj.clone();
                    check_write(l, rng, "write_dataset_with_ts_options", tc.name, &|mut w| write_with_to(&o3, &tc.ts, &mut w));
                }
                let meta = FileMetaTableBuilder::new().transfer_syntax(UIDS[ti]).media_storage_sop_class_uid("1.2.840.10008.5.1.4.1.1.7").media_storage_sop_instance_uid("1.2.3.4");
                if let Ok(f) = obj.clone().with_meta(meta) {
                    check_write(l, rng, "write_all", tc.name, &|w| f.write_all(w).map_err(|e| err_chain(&e)));
                    if ti == 1 {
                        let m: FileMetaTable = f.meta().clone();
                        check_write(l, rng, "FileMetaTable::write", "-", &|w| m.write(w).map_err(|e| err_chain(&e)));
                    }
                    // ---- reading
                    let mut file = Vec::new();
                    if f.write_all(&mut file).is_ok() {
                        l.class(format!("from_reader|{}", tc.name));
                        for k in offsets(rng, file.len(), cfg) {
                            l.eval();
                            let mut fr = FailingReader::new(&file, k);
                            let r = guarded(|| dicom_object::from_reader(&mut fr).map(|_| ()).map_err(|e| err_chain(&e)));
                            let mut rp = base.clone();
                            rp["operation"] = json!("from_reader"); rp["ts"] = json!(tc.name); rp["fail_at"] = json!(k); rp["complete_length"] = json!(file.len());
                            match r {
                                Err(p) => { l.violation(format!("from_reader|{}|panic|{}", tc.name, panic_loc(&p)), p, rp); break; }
                                Ok(Ok(())) => {
                                    if fr.failures > 0 {
                                        let region = if k < 132 { "preamble" } else if k + 8 >= file.len() { "tail" } else { "middle" };
                                        l.violation(format!("from_reader|{}|ok-after-read-failure|{}", tc.name, region), format!("from_reader returned an object although the source failed at byte {} of {}", k, file.len()), rp);
                                    } else { l.count("reads_completed_before_failure_point", 1); }
                                }
                                Ok(Err(_)) => { l.count("read_failures_reported", 1); }
                            }
                        }
                    }
                }
                // data set reading
                let mut bytes = Vec::new();
                if obj.write_dataset_with_ts(&mut bytes, &tc.ts).is_ok() {
                    l.class(format!("read_dataset_with_ts|{}", tc.name));
                    for k in offsets(rng, bytes.len(), cfg) {
                        l.eval();
                        let mut fr = FailingReader::new(&bytes, k);
                        let r = guarded(|| InMemDicomObject::read_dataset_with_ts(&mut fr, &tc.ts).map(|_| ()).map_err(|e| err_chain(&e)));
                        let mut rp = base.clone();
                        rp["operation"] = json!("read_dataset_with_ts"); rp["ts"] = json!(tc.name); rp["fail_at"] = json!(k); rp["complete_length"] = json!(bytes.len());
                        match r {
                            Err(p) => { l.violation(format!("read_dataset_with_ts|{}|panic|{}", tc.name, panic_loc(&p)), p, rp); break; }
                            Ok(Ok(())) => { if fr.failures > 0 { l.violation(format!("read_dataset_with_ts|{}|ok-after-read-failure", tc.name), format!("returned an object although the source failed at byte {} of {}", k, bytes.len()), rp); } }
                            Ok(Err(_)) => { l.count("read_failures_reported", 1); }
                        }
                    }
                }
            }
            // ---- PDUs
            let pdu = gen_pdu(rng);
            let pname = pdu.short_description().to_string().split(' ').next().unwrap_or("?").to_string();
            check_write(l, rng, "write_pdu", &pname, &|mut w| dicom_ul::pdu::write_pdu(&mut w, &pdu).map_err(|e| err_chain(&e)));
            let mut enc = Vec::new();
            if dicom_ul::pdu::write_pdu(&mut enc, &pdu).is_ok() {
                l.class(format!("read_pdu_from_wire|{}", pname));
                for k in 0..enc.len() {
                    l.eval();
                    let mut fr = FailingReader::new(&enc, k);
                    let mut buf = BytesMut::new();
                    let r = guarded(|| dicom_ul::association::read_pdu_from_wire(&mut fr, &mut buf, 16384, true).map(|_| ()).map_err(|e| err_chain(&e)));
                    match r {
                        Err(p) => { l.violation(format!("read_pdu_from_wire|panic|{}", panic_loc(&p)), p, json!({"seed": cfg.seed, "stream": 34, "case": idx, "pdu_hex": hex_short(&enc, 200), "fail_at": k})); break; }
                        Ok(Ok(())) => l.violation(format!("read_pdu_from_wire|{}|ok-after-read-failure", pname), format!("a PDU was returned although the source failed at byte {} of {}", k, enc.len()), json!({"seed": cfg.seed, "stream": 34, "case": idx, "pdu_hex": hex_short(&enc, 200), "fail_at": k})),
                        Ok(Err(_)) => { l.count("read_failures_reported", 1); }
                    }
                }
            }
            // ---- P-DATA writer / reader
            let payload = { let n = rng.urange(0, 3000); rng.bytes(n) };
            let maxlen = *rng.pick(&[1018u32, 1100, 4096]);
            let pd = |w: &mut dyn Write| -> Result<(), String> {
                let mut pw = dicom_ul::association::PDataWriter::verif_new(w, 1, maxlen);
                pw.write_all(&payload).map_err(|e| e.to_string())?;
                pw.finish().map_err(|e| e.to_string())
            };
            check_write(l, rng, "PDataWriter", "-", &pd);
            let mut wire = Vec::new();
            if pd(&mut wire).is_ok() {
                l.class(format!("PDataReader|max{}", maxlen));
                for k in offsets(rng, wire.len(), cfg) {
                    l.eval();
                    let mut fr = FailingReader::new(&wire, k);
                    let mut rem = BytesMut::new();
                    let r = guarded(|| {
                        let mut rd = dicom_ul::association::PDataReader::new(&mut fr, maxlen, &mut rem);
                        let mut out = Vec::new();
                        rd.read_to_end(&mut out).map(|_| out.len()).map_err(|e| e.to_string())
                    });
                    match r {
                        Err(p) => { l.violation(format!("PDataReader|panic|{}", panic_loc(&p)), p, json!({"seed": cfg.seed, "stream": 34, "case": idx, "fail_at": k})); break; }
                        Ok(Ok(nread)) => l.violation("PDataReader|ok-after-read-failure".to_string(), format!("read_to_end returned {} bytes although the source failed at byte {} of {}", nread, k, wire.len()), json!({"seed": cfg.seed, "stream": 34, "case": idx, "fail_at": k, "payload_len": payload.len(), "max_pdu": maxlen})),
                        Ok(Err(_)) => { l.count("read_failures_reported", 1); }
                    }
                }
            }
            if l.want_sample() && idx % 97 == 0 {
                l.sample(json!({"case": idx, "dataset_elements": ds.len(), "pdu": pname, "pdata_payload": payload.len()}));
            }
        },
    );
    let mut o = Outcome::new(local, "fault enumeration: for small G-DS objects × 4 transfer syntaxes and for PDUs / P-DATA streams, every failing byte offset 0..len (sampled above the cap) × failure kind {write error, zero-length write} for write_dataset_with_ts(_options), write_all, FileMetaTable::write, write_pdu, PDataWriter(write_all+finish), and every failing read offset for from_reader, read_dataset_with_ts, read_pdu_from_wire, PDataReader; the operation must return an error whenever the transport failed before the complete output was accepted / input delivered, and never panic; class = (operation, TS/PDU kind, failure kind, size class)");
    o.min_evaluations = 20_000;
    o.min_classes = 30;
    o
}

fn write_with_to(o: &InMemDicomObject, ts: &dicom_encoding::TransferSyntax, w: &mut dyn Write) -> Result<(), String> {
    use dicom_parser::dataset::write::{DataSetWriterOptions, ExplicitLengthSqItemStrategy};
    let _ = (write_with, Api::Default);
    o.write_dataset_with_ts_options(w, ts, DataSetWriterOptions::default().explicit_length_sq_item_strategy(ExplicitLengthSqItemStrategy::NoChange)).map_err(|e| err_chain(&e))
}
