//! C30 — association release and abort follow the upper-layer protocol: trace monitor over
//! recorded wire events (delaying, recording loopback proxy) and API call/return events of real
//! dicom-ul requestors/acceptors and of the real storescp / echoscu binaries.

use crate::mon::net::{connect, rst_on_close, Listener};
use crate::proc;
use crate::report::*;
use crate::rng::Rng;
use dicom_core::{DataElement, PrimitiveValue, Tag, VR};
use dicom_object::InMemDicomObject;
use dicom_transfer_syntax_registry::entries;
use dicom_ul::association::{ClientAssociationOptions, ServerAssociationOptions};
use dicom_ul::pdu::{PDataValue, PDataValueType, Pdu};
use serde_json::json;
use std::io::{Read, Write};
use std::net::{SocketAddr, TcpStream};
use std::process::Command;
use std::sync::atomic::{AtomicBool, AtomicU64, Ordering};
use std::sync::{Arc, Mutex};
use std::time::{Duration, Instant};

const VERIFICATION: &str = "1.2.840.10008.1.1";
const IO: Duration = Duration::from_secs(4);

#[derive(Default)]
struct Log {
    seq: AtomicU64,
    ev: Mutex<Vec<(u64, String)>>,
}

impl Log {
    fn add(&self, s: impl Into<String>) -> u64 {
        let n = self.seq.fetch_add(1, Ordering::SeqCst);
        self.ev.lock().unwrap().push((n, s.into()));
        n
    }
}

/// Forward whole PDUs from `from` to `to`, recording `sent <side> <type>` when a PDU has been read
/// from its sender and `dlv <side> <type>` when it has been written to the receiver, with a
/// pseudo-random delay in between; `eof <side>` when the sender closed.
fn pump(mut from: TcpStream, mut to: TcpStream, side: char, log: Arc<Log>, stop: Arc<AtomicBool>, mut delays: Rng, deadline: Instant) {
    let _ = from.set_read_timeout(Some(Duration::from_millis(40)));
    let mut hdr = [0u8; 6];
    let mut have = 0usize;
    loop {
        if stop.load(Ordering::Relaxed) || Instant::now() > deadline {
            return;
        }
        match from.read(&mut hdr[have..]) {
            Ok(0) => {
                log.add(format!("eof {}", side));
                std::thread::sleep(Duration::from_micros(delays.below(3000)));
                let _ = to.shutdown(std::net::Shutdown::Write);
                return;
            }
            Ok(n) => {
                have += n;
                if have < 6 {
                    continue;
                }
                let len = u32::from_be_bytes([hdr[2], hdr[3], hdr[4], hdr[5]]) as usize;
                let mut body = vec![0u8; len.min(1 << 22)];
                let mut got = 0;
                let t0 = Instant::now();
                while got < body.len() {
                    match from.read(&mut body[got..]) {
                        Ok(0) => break,
                        Ok(k) => got += k,
                        Err(e) if matches!(e.kind(), std::io::ErrorKind::WouldBlock | std::io::ErrorKind::TimedOut | std::io::ErrorKind::Interrupted) => {
                            if t0.elapsed() > IO { break; }
                        }
                        Err(_) => break,
                    }
                }
                log.add(format!("sent {} {:02x}", side, hdr[0]));
                let d = match delays.usize(4) { 0 => 0, 1 => delays.below(800), 2 => delays.below(4000), _ => delays.below(200) };
                std::thread::sleep(Duration::from_micros(d));
                let mut all = hdr.to_vec();
                all.extend_from_slice(&body[..got]);
                // logged *before* the write: the receiver cannot have the PDU earlier than this
                log.add(format!("dlv {} {:02x}", side, hdr[0]));
                if to.write_all(&all).is_err() {
                    log.add(format!("undeliverable {} {:02x}", side, hdr[0]));
                }
                have = 0;
            }
            Err(e) if matches!(e.kind(), std::io::ErrorKind::WouldBlock | std::io::ErrorKind::TimedOut | std::io::ErrorKind::Interrupted) => continue,
            Err(_) => {
                log.add(format!("eof {}", side)); // reset by peer counts as closed
                let _ = to.shutdown(std::net::Shutdown::Write);
                return;
            }
        }
    }
}

struct Proxy {
    addr: SocketAddr,
    stop: Arc<AtomicBool>,
    handle: Option<std::thread::JoinHandle<()>>,
}

fn start_proxy(upstream: SocketAddr, log: Arc<Log>, seed: u64) -> std::io::Result<Proxy> {
    let lst = Listener::new()?;
    let addr = lst.addr;
    let stop = Arc::new(AtomicBool::new(false));
    let stop2 = stop.clone();
    let handle = std::thread::spawn(move || {
        let deadline = Instant::now() + Duration::from_secs(25);
        let Ok(down) = lst.accept_until(Duration::from_secs(10), Some(&stop2)) else { return };
        let Ok(up) = connect(upstream) else { return };
        let (Ok(d2), Ok(u2)) = (down.try_clone(), up.try_clone()) else { return };
        rst_on_close(&down);
        rst_on_close(&up);
        let (l2, s2) = (log.clone(), stop2.clone());
        let t = std::thread::spawn(move || pump(u2, d2, 'S', l2, s2, Rng::new(seed ^ 0x5555), deadline));
        pump(down, up, 'C', log, stop2, Rng::new(seed), deadline);
        let _ = t.join();
    });
    Ok(Proxy { addr, stop, handle: Some(handle) })
}

impl Proxy {
    fn finish(mut self) {
        if let Some(h) = self.handle.take() {
            let t0 = Instant::now();
            // the pumps end by themselves once both peers have closed; the generous bound only
            // matters when a peer really keeps its socket open (or the machine is overloaded)
            while !h.is_finished() && t0.elapsed() < Duration::from_secs(10) {
                std::thread::sleep(Duration::from_millis(2));
            }
            self.stop.store(true, Ordering::Relaxed);
            let _ = h.join();
        }
    }
}

fn echo_rq(msgid: u16) -> Vec<u8> {
    let obj = InMemDicomObject::command_from_element_iter([
        DataElement::new(Tag(0, 0x0002), VR::UI, PrimitiveValue::from(VERIFICATION)),
        DataElement::new(Tag(0, 0x0100), VR::US, PrimitiveValue::from(0x0030u16)),
        DataElement::new(Tag(0, 0x0110), VR::US, PrimitiveValue::from(msgid)),
        DataElement::new(Tag(0, 0x0800), VR::US, PrimitiveValue::from(0x0101u16)),
    ]);
    let mut v = Vec::new();
    let _ = obj.write_dataset_with_ts(&mut v, &entries::IMPLICIT_VR_LITTLE_ENDIAN.erased());
    v
}

fn pdata(ctx: u8, data: Vec<u8>, command: bool) -> Pdu {
    Pdu::PData { data: vec![PDataValue { presentation_context_id: ctx, value_type: if command { PDataValueType::Command } else { PDataValueType::Data }, is_last: true, data }] }
}

#[derive(Clone, Copy, Debug, PartialEq)]
enum Final { Release, Abort, Drop }

#[derive(Clone, Copy, Debug, PartialEq)]
enum OnRelease { Reply, Abort, DataThenReply, Drop, Collide, Ignore }

#[derive(Clone, Debug)]
struct Script {
    client_msgs: usize,
    client_reads: bool,
    fin: Final,
    on_release: OnRelease,
    server_echoes: bool,
    server_aborts_after: Option<usize>,
    server_chatter: usize,
}

fn gen_script(rng: &mut Rng) -> Script {
    Script {
        client_msgs: rng.usize(4),
        client_reads: rng.bool(),
        fin: *rng.pick(&[Final::Release, Final::Release, Final::Release, Final::Abort, Final::Drop]),
        on_release: *rng.pick(&[OnRelease::Reply, OnRelease::Reply, OnRelease::Abort, OnRelease::DataThenReply, OnRelease::Drop, OnRelease::Collide, OnRelease::Ignore]),
        server_echoes: rng.bool(),
        server_aborts_after: if rng.chance(1, 6) { Some(rng.usize(3)) } else { None },
        server_chatter: if rng.chance(1, 3) { rng.urange(1, 3) } else { 0 },
    }
}

/// harness acceptor over the real ServerAssociation
fn run_server(stream: TcpStream, sc: &Script, log: &Log) {
    let opts = ServerAssociationOptions::new().accept_any().with_abstract_syntax(VERIFICATION).read_timeout(IO).write_timeout(IO);
    let mut a = match opts.establish(stream) {
        Ok(a) => a,
        Err(_) => { log.add("api S establish-err"); return; }
    };
    log.add("api S established");
    let ctx = a.presentation_contexts().first().map(|p| p.id).unwrap_or(1);
    for _ in 0..sc.server_chatter {
        // unsolicited data, to cross with the requestor's release request
        let _ = a.send(&pdata(ctx, vec![1, 2, 3, 4], false));
    }
    let mut seen = 0usize;
    loop {
        if sc.server_aborts_after == Some(seen) {
            log.add("api S abort-call");
            let r = a.abort();
            log.add(if r.is_ok() { "api S abort-ok" } else { "api S abort-err" });
            return;
        }
        match a.receive() {
            Ok(Pdu::PData { .. }) => {
                seen += 1;
                if sc.server_echoes {
                    let _ = a.send(&pdata(ctx, vec![9; 8], false));
                }
            }
            Ok(Pdu::ReleaseRQ) => {
                log.add("api S got-release-rq");
                match sc.on_release {
                    OnRelease::Reply => { let _ = a.send(&Pdu::ReleaseRP); }
                    OnRelease::Abort => { log.add("api S abort-call"); let r = a.abort(); log.add(if r.is_ok() { "api S abort-ok" } else { "api S abort-err" }); return; }
                    OnRelease::DataThenReply => { let _ = a.send(&pdata(ctx, vec![7; 6], false)); let _ = a.send(&Pdu::ReleaseRP); }
                    OnRelease::Drop => {}
                    OnRelease::Collide => { let _ = a.send(&Pdu::ReleaseRQ); let _ = a.send(&Pdu::ReleaseRP); }
                    OnRelease::Ignore => { std::thread::sleep(Duration::from_millis(30)); }
                }
                return;
            }
            Ok(Pdu::AbortRQ { .. }) => { log.add("api S got-abort"); return; }
            Ok(_) => { seen += 1; }
            Err(_) => { log.add("api S receive-err"); return; }
        }
    }
}

fn run_client(addr: SocketAddr, sc: &Script, log: &Log) {
    let opts = ClientAssociationOptions::new().with_abstract_syntax(VERIFICATION).read_timeout(IO).write_timeout(IO);
    let mut a = match opts.establish(addr) {
        Ok(a) => a,
        Err(_) => { log.add("api C establish-err"); return; }
    };
    log.add("api C established");
    let ctx = a.presentation_contexts().first().map(|p| p.id).unwrap_or(1);
    for i in 0..sc.client_msgs {
        if a.send(&pdata(ctx, echo_rq(i as u16 + 1), true)).is_err() { log.add("api C send-err"); break; }
        if sc.client_reads {
            match a.receive() { Ok(_) => {}, Err(_) => { log.add("api C receive-err"); break; } }
        }
    }
    match sc.fin {
        Final::Release => {
            log.add("api C release-call");
            let r = a.release();
            log.add(if r.is_ok() { "api C release-ok" } else { "api C release-err" });
        }
        Final::Abort => {
            log.add("api C abort-call");
            let r = a.abort();
            log.add(if r.is_ok() { "api C abort-ok" } else { "api C abort-err" });
        }
        Final::Drop => { log.add("api C drop"); drop(a); }
    }
}

async fn run_client_async(addr: SocketAddr, sc: Script, log: Arc<Log>) {
    let opts = ClientAssociationOptions::new().with_abstract_syntax(VERIFICATION).read_timeout(IO).write_timeout(IO);
    let mut a = match opts.establish_async(addr).await {
        Ok(a) => a,
        Err(_) => { log.add("api C establish-err"); return; }
    };
    log.add("api C established");
    let ctx = a.presentation_contexts().first().map(|p| p.id).unwrap_or(1);
    for i in 0..sc.client_msgs {
        if a.send(&pdata(ctx, echo_rq(i as u16 + 1), true)).await.is_err() { log.add("api C send-err"); break; }
        if sc.client_reads {
            match a.receive().await { Ok(_) => {}, Err(_) => { log.add("api C receive-err"); break; } }
        }
    }
    match sc.fin {
        Final::Release => {
            log.add("api C release-call");
            let r = a.release().await;
            log.add(if r.is_ok() { "api C release-ok" } else { "api C release-err" });
        }
        Final::Abort => {
            log.add("api C abort-call");
            let r = a.abort().await;
            log.add(if r.is_ok() { "api C abort-ok" } else { "api C abort-err" });
        }
        Final::Drop => { log.add("api C drop"); drop(a); }
    }
}

/// The trace monitor. Returns (violations, race observed?)
fn monitor(ev: &[(u64, String)], acceptor_is_tool: bool, requestor_is_tool: bool) -> (Vec<(String, String)>, bool) {
    let mut v = Vec::new();
    let find = |pat: &str| ev.iter().find(|e| e.1 == pat).map(|e| e.0);
    let other = |s: char| if s == 'C' { 'S' } else { 'C' };
    let mut race = false;
    for x in ['C', 'S'] {
        let y = other(x);
        let rq_sent = find(&format!("sent {} 05", x));
        let rp_dlv = rq_sent.and_then(|t| ev.iter().find(|e| e.0 > t && e.1 == format!("dlv {} 06", y)).map(|e| e.0));
        let abort_dlv = rq_sent.and_then(|t| ev.iter().find(|e| e.0 > t && e.1 == format!("dlv {} 07", y)).map(|e| e.0));
        let ok = find(&format!("api {} release-ok", x));
        // (1) a release completes only after a release reply was received
        if let Some(r) = ok {
            match rp_dlv {
                Some(t) if t < r => {}
                _ => v.push((format!("release-ok-without-reply|side={}", x), format!("release() returned Ok at event {} but no A-RELEASE-RP had been delivered to {} after its A-RELEASE-RQ", r, x))),
            }
            // (2) an abort delivered while awaiting the reply ends the association with an error
            if let Some(ab) = abort_dlv {
                if rp_dlv.map(|t| ab < t).unwrap_or(true) && ab < r {
                    v.push((format!("release-ok-after-abort|side={}", x), format!("A-ABORT was delivered to {} (event {}) while it awaited the release reply, yet release() returned Ok (event {})", x, ab, r)));
                }
            }
        }
        // data crossing a release request = a genuine race
        if let Some(t) = rq_sent {
            let dl = ev.iter().find(|e| e.0 > t && e.1 == format!("dlv {} 05", x)).map(|e| e.0).unwrap_or(u64::MAX);
            if ev.iter().any(|e| e.0 > t && e.0 < dl && e.1.starts_with(&format!("sent {} ", y))) { race = true; }
        }
        // (3) no data transfer by x after its own release request / its own release reply
        for (code, name) in [("05", "after-own-release-request"), ("06", "after-own-release-reply")] {
            if let Some(t) = find(&format!("sent {} {}", x, code)) {
                if let Some(e) = ev.iter().find(|e| e.0 > t && e.1 == format!("sent {} 04", x)) {
                    v.push((format!("data-{}|side={}", name, x), format!("{} sent P-DATA-TF (event {}) after it had sent PDU type {} (event {})", x, e.0, code, t)));
                }
            }
        }
        // no data after a completed release (reply delivered to the side that asked)
        if let Some(t) = rp_dlv {
            if let Some(e) = ev.iter().find(|e| e.0 > t && (e.1 == format!("sent {} 04", x) || e.1 == format!("sent {} 04", y))) {
                v.push(("data-after-completed-release".into(), format!("P-DATA-TF (event {}: {}) after the release completed at event {}", e.0, e.1, t)));
            }
        }
        // (5) after A-ABORT sent, x sends nothing more and closes
        if let Some(t) = find(&format!("sent {} 07", x)) {
            if let Some(e) = ev.iter().find(|e| e.0 > t && e.1.starts_with(&format!("sent {} ", x))) {
                v.push((format!("pdu-after-abort|side={}", x), format!("{} sent {} (event {}) after its A-ABORT (event {})", x, e.1, e.0, t)));
            }
            if find(&format!("eof {}", x)).is_none() {
                v.push((format!("no-close-after-abort|side={}", x), format!("{} sent A-ABORT but did not close the connection by the end of the scenario", x)));
            }
        }
        // an error from release() ends the association: the connection is closed
        if find(&format!("api {} release-err", x)).is_some() && find(&format!("eof {}", x)).is_none() {
            v.push((format!("no-close-after-failed-release|side={}", x), format!("release() failed at {} but its connection was not closed by the end of the scenario", x)));
        }
    }
    // (4) a (tool) acceptor answers a release request with a release reply
    if acceptor_is_tool {
        if let Some(t) = ev.iter().find(|e| e.1 == "dlv C 05").map(|e| e.0) {
            // only if the acceptor had not itself aborted / been aborted before
            let aborted_before = ev.iter().any(|e| e.0 < t && (e.1 == "sent S 07" || e.1 == "dlv C 07"));
            if !aborted_before {
                // responses to requests received before the release request may still follow;
                // then the reply must come, and nothing after it. If the requestor has already
                // closed the connection the acceptor may legitimately give up.
                let after: Vec<&(u64, String)> = ev.iter().filter(|e| e.0 > t && e.1.starts_with("sent S ")).collect();
                let closed_by_requestor = ev.iter().find(|e| e.1 == "eof C").map(|e| e.0);
                let reply = after.iter().position(|e| e.1 == "sent S 06");
                match reply {
                    Some(i) => {
                        if let Some(e) = after.get(i + 1) {
                            v.push(("acceptor-answer-to-release|pdu-after-reply".into(), format!("the acceptor sent {} (event {}) after its release reply", e.1, e.0)));
                        }
                        if let Some(e) = after[..i].iter().find(|e| e.1 != "sent S 04") {
                            v.push(("acceptor-answer-to-release|not-a-reply".into(), format!("after the release request was delivered (event {}) the acceptor sent {} (event {}) before its reply", t, e.1, e.0)));
                        }
                    }
                    None => {
                        let gave_up = closed_by_requestor.map(|c| after.last().map(|e| e.0 > c).unwrap_or(true)).unwrap_or(false);
                        if !gave_up {
                            v.push(("acceptor-answer-to-release|none".into(), format!("the acceptor never sent a release reply after the request delivered at event {} (it sent {:?})", t, after.iter().map(|e| e.1.as_str()).collect::<Vec<_>>())));
                        }
                    }
                }
            }
        }
    }
    let _ = requestor_is_tool;
    (v, race)
}

fn shape(ev: &[(u64, String)]) -> String {
    // ordering signature of the wire events
    let s: Vec<&str> = ev.iter().filter(|e| !e.1.starts_with("api")).map(|e| e.1.as_str()).collect();
    let joined = s.join(",");
    format!("{:08x}", crate::gen::pdu::crc32(joined.as_bytes()))
}

/// Raw requestor that sends A-ABORT (or, as a control, A-RELEASE-RQ) and then *keeps its socket
/// open*: whether the acceptor closes the connection by itself is otherwise invisible (the library
/// requestor closes its own end right after sending an abort).
/// Returns (established, what was sent, outcome) with outcome = "closed" | "data:<type>" | "still-open".
fn raw_hold(addr: SocketAddr, send_release: bool, hold: Duration) -> Result<(bool, &'static str, String), String> {
    use dicom_ul::pdu::{AssociationRQ, PresentationContextProposed, UserVariableItem};
    let mut s = connect(addr).map_err(|e| e.to_string())?;
    let rq = Pdu::AssociationRQ(AssociationRQ {
        protocol_version: 1,
        calling_ae_title: "RAW-SCU".into(),
        called_ae_title: "ANY-SCP".into(),
        application_context_name: "1.2.840.10008.3.1.1.1".into(),
        presentation_contexts: vec![PresentationContextProposed { id: 1, abstract_syntax: "1.2.840.10008.1.1".into(), transfer_syntaxes: vec!["1.2.840.10008.1.2".into()] }],
        user_variables: vec![UserVariableItem::MaxLength(16_384), UserVariableItem::ImplementationClassUID("1.2.826.0.1.3680043.8.498.30".into())],
    });
    let mut b = Vec::new();
    dicom_ul::pdu::write_pdu(&mut b, &rq).map_err(|e| e.to_string())?;
    s.write_all(&b).map_err(|e| e.to_string())?;
    let ans = crate::mon::net::read_raw_pdu(&mut s).map_err(|e| e.to_string())?;
    if ans[0] != 0x02 {
        return Ok((false, "", String::new()));
    }
    let (what, pdu): (&'static str, [u8; 10]) = if send_release { ("release-rq", [5, 0, 0, 0, 0, 4, 0, 0, 0, 0]) } else { ("abort", [7, 0, 0, 0, 0, 4, 0, 0, 0, 0]) };
    s.write_all(&pdu).map_err(|e| e.to_string())?;
    let _ = s.set_read_timeout(Some(hold));
    let mut got = [0u8; 6];
    let outcome = match s.read(&mut got) {
        Ok(0) => "closed".to_string(),
        Ok(_) => format!("data:{:02x}", got[0]),
        Err(e) if e.kind() == std::io::ErrorKind::WouldBlock || e.kind() == std::io::ErrorKind::TimedOut => "still-open".to_string(),
        Err(_) => "closed".to_string(), // reset by peer
    };
    Ok((true, what, outcome))
}

pub fn run(cfg: &Cfg) -> Outcome {
    let leg = cfg.opt("--leg").unwrap_or_else(|| "lib".into());
    let n = if leg == "lib" { cfg.n(1_500, 40_000) } else { cfg.n(160, 1_500) };
    let storescp = proc::tool(cfg, "dicom-storescp").ok();
    let echoscu = proc::tool(cfg, "dicom-echoscu").ok();
    let leg2 = leg.clone();
    let local = run_parallel(
        cfg,
        if leg == "lib" { 30 } else { 301 },
        RunLimits { cases: n, wall: Duration::from_secs(if cfg.thorough() { 1200 } else { 120 }) },
        |l: &mut Local, rng: &mut Rng, idx: u64| {
            let sc = gen_script(rng);
            let log = Arc::new(Log::default());
            let kind = if leg2 == "lib" { if rng.bool() { "sync-client" } else { "async-client" } } else if rng.bool() { "storescp" } else { "echoscu" };
            let mut tool_guard = None;
            let mut inconclusive = false;
            // ---------------- acceptor
            let upstream: SocketAddr;
            let mut server_thread = None;
            if kind == "storescp" {
                let Some(bin) = &storescp else { l.note("dicom-storescp not built"); return };
                let Some(port) = proc::free_port() else { return };
                let Ok(scratch) = proc::Scratch::new(cfg, "c30", idx) else { return };
                let mut cmd = Command::new(bin);
                cmd.arg("-p").arg(port.to_string()).arg("-o").arg(scratch.path());
                if rng.bool() { cmd.arg("--non-blocking"); }
                let Ok(mut g) = proc::spawn_logged(&mut cmd, &scratch.path().join("log")) else { return };
                if proc::wait_port(port, &mut g, Duration::from_secs(15)) != proc::PortWait::Ready { l.count("scenarios_inconclusive_tool_start", 1); return; }
                upstream = ([127, 0, 0, 1], port).into();
                tool_guard = Some((g, scratch));
            } else {
                let Ok(lst) = Listener::new() else { return };
                upstream = lst.addr;
                let (sc2, log2) = (sc.clone(), log.clone());
                server_thread = Some(std::thread::spawn(move || {
                    if let Ok(s) = lst.accept(Duration::from_secs(10)) {
                        let _ = crate::mon::net::with_timeouts(&s);
                        run_server(s, &sc2, &log2);
                    }
                }));
            }
            if kind == "storescp" && idx % 4 == 3 {
                // the acceptor tool must close the connection after an A-ABORT even when the
                // requestor keeps its own end open (and answer a release request as a control)
                let send_release = rng.chance(1, 4);
                l.eval();
                match raw_hold(upstream, send_release, Duration::from_secs(20)) {
                    Err(_) => l.count("scenarios_inconclusive_raw", 1),
                    Ok((false, _, _)) => l.count("scenarios_not_established", 1),
                    Ok((true, what, outcome)) => {
                        l.class(format!("storescp|raw-hold|{}|{}", what, outcome));
                        l.count("scenarios|storescp-raw-hold", 1);
                        let bad = if what == "abort" { outcome != "closed" } else { outcome != "data:06" };
                        if bad {
                            l.violation(
                                format!("storescp|raw-hold|{}|{}", what, outcome.split(':').next().unwrap_or("")),
                                format!("after the requestor sent {} and kept its socket open, the acceptor tool's side was: {} (expected: {})", what, outcome, if what == "abort" { "connection closed" } else { "A-RELEASE-RP" }),
                                json!({"seed": cfg.seed, "stream": 301, "case": idx, "leg": leg2, "raw_hold": what}),
                            );
                        }
                    }
                }
                drop(tool_guard);
                return;
            }
            let Ok(proxy) = start_proxy(upstream, log.clone(), rng.next_u64()) else { return };
            // ---------------- requestor
            let t0 = Instant::now();
            match kind {
                "echoscu" => {
                    let Some(bin) = &echoscu else { l.note("dicom-echoscu not built"); return };
                    let Ok(scratch) = proc::Scratch::new(cfg, "c30e", idx) else { return };
                    let mut cmd = Command::new(bin);
                    cmd.arg(format!("{}", proxy.addr));
                    match proc::run_bounded(&mut cmd, &scratch.path().join("log"), Duration::from_secs(15)) {
                        Ok(f) => { log.add(format!("api C tool-exit {}", f.status.code().map(|c| if c == 0 { "0" } else { "nonzero" }).unwrap_or("signal"))); }
                        Err(_) => { inconclusive = true; }
                    }
                }
                "async-client" => {
                    let rt = tokio::runtime::Builder::new_current_thread().enable_all().build().expect("rt");
                    let (sc2, log2, addr) = (sc.clone(), log.clone(), proxy.addr);
                    let r = rt.block_on(async move { tokio::time::timeout(Duration::from_secs(15), run_client_async(addr, sc2, log2)).await });
                    if r.is_err() { inconclusive = true; }
                }
                _ => run_client(proxy.addr, &sc, &log),
            }
            if let Some(h) = server_thread {
                let t1 = Instant::now();
                while !h.is_finished() && t1.elapsed() < Duration::from_secs(12) { std::thread::sleep(Duration::from_millis(2)); }
                if h.is_finished() { let _ = h.join(); } else { inconclusive = true; }
            } else {
                std::thread::sleep(Duration::from_millis(60));
            }
            proxy.finish();
            drop(tool_guard);
            if t0.elapsed() > Duration::from_secs(14) { inconclusive = true; }
            if inconclusive { l.count("scenarios_inconclusive_watchdog", 1); return; }
            let ev = log.ev.lock().unwrap().clone();
            let mut ev = ev;
            ev.sort();
            l.eval();
            if !ev.iter().any(|e| e.1 == "api C established") && kind != "echoscu" { l.count("scenarios_not_established", 1); }
            let (viol, race) = monitor(&ev, kind == "storescp", kind == "echoscu");
            if race { l.count("genuine_races_observed", 1); }
            l.count("wire_events", ev.iter().filter(|e| !e.1.starts_with("api")).count() as u64);
            l.class(format!("{}|{}", kind, shape(&ev)));
            l.count(&format!("scenarios|{}", kind), 1);
            for (k, what) in viol {
                l.violation(format!("{}|{}", kind, k), what, json!({"seed": cfg.seed, "stream": if leg2 == "lib" { 30 } else { 301 }, "case": idx, "leg": leg2, "script": format!("{:?}", sc), "trace": ev.iter().map(|e| format!("{} {}", e.0, e.1)).collect::<Vec<_>>()}));
            }
            if l.want_sample() && idx % 211 == 0 {
                l.sample(json!({"case": idx, "kind": kind, "script": format!("{:?}", sc), "trace": ev.iter().map(|e| e.1.clone()).collect::<Vec<_>>()}));
            }
        },
    );
    let mut o = Outcome::new(local, if leg == "lib" { "random action scripts (requestor: 0-3 C-ECHO exchanges then release / abort / drop; acceptor: echo data or not, unsolicited data, spontaneous abort, answer to a release request = reply / abort / data then reply / drop / collision / silence) between the real sync or async ClientAssociation and ServerAssociation through a recording proxy that forwards whole PDUs with pseudo-random delays; per-connection trace (sent / delivered / eof per side + API call and return events) checked against the release and abort clauses of the statement; class = (peer kind, hash of the wire event order)" } else { "the real dicom-storescp (sync / --non-blocking) as acceptor under the same requestor scripts, and the real dicom-echoscu as requestor against the scripted acceptor, through the same delaying recording proxy; wire clauses: the acceptor answers a release request with a release reply, no data after a release request/reply, nothing after an abort, connection closed; plus a raw requestor that sends A-ABORT (control: A-RELEASE-RQ) and keeps its socket open: the tool must close its side (answer with A-RELEASE-RP)" });
    o.min_evaluations = if leg == "lib" { 300 } else { 40 };
    o.min_classes = if leg == "lib" { 20 } else { 4 };
    o
}
