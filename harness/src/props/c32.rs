//! C32 — the storage SCP stores exactly what it receives, only in its output directory.
//!
//! Observation: the real `dicom-storescp` binary (synchronous and `--non-blocking`) listening on a
//! loopback port with `-o <tmp>/out`, where `<tmp>` is a sentinel tree
//! `{cwd/, out/[sub/], sibling/keep.dcm, abs/}`. A scripted requestor (dicom-ul client association)
//! negotiates storage contexts and sends C-STORE requests whose data sets come from G-DS, encoded by
//! the harness' own reference encoder in the negotiated transfer syntax, cut into 1..n P-DATA
//! fragments, with ordinary and hostile Affected SOP Instance UID strings.
//!
//! Monitor (after the associations are over and the server is killed): the whole tree is walked.
//!  * a file or directory created (or a sentinel changed) outside `out/`      -> `escape`
//!  * a file created inside a subdirectory of `out/`                          -> `subdir`
//!  * every new file must be a DICOM file whose data set equals one sent instance (matched through
//!    the data set's SOP Instance UID), with meta TS = negotiated TS and media storage SOP
//!    class/instance = the data set's (dicom-object here, O-PARSE in the driver)
//!  * a success status for an instance of which no file exists                -> `success-not-stored`
//! Failing to store (connection dropped, failure status) is not a violation of the statement.

use crate::cmp::{cmp_dataset, Ctx};
use crate::gen::ds::{gen_dataset, gen_pixel_fragments, DsOpts};
use crate::gen::tree::*;
use crate::proc::{self, PortWait, Scratch};
use crate::props::c01::undefine_foreign_sq;
use crate::props::c35::{ts_name, TS_BE, TS_DEFLATED, TS_ENCAP_UNCOMPRESSED, TS_EXPLICIT, TS_IMPLICIT, TS_RLE};
use crate::refenc::{self, LenMode, Ts};
use crate::report::*;
use crate::rng::Rng;
use dicom_core::{dicom_value, DataElement, VR};
use dicom_dictionary_std::tags;
use dicom_object::{open_file, InMemDicomObject};
use dicom_transfer_syntax_registry::entries::IMPLICIT_VR_LITTLE_ENDIAN;
use dicom_ul::pdu::{PDataValue, PDataValueType};
use dicom_ul::{ClientAssociationOptions, Pdu};
use serde_json::{json, Value};
use std::collections::BTreeMap;
use std::io::Write;
use std::path::{Path, PathBuf};
use std::process::Command;
use std::sync::Mutex;
use std::time::{Duration, Instant};

pub const TS_JPEG_BASELINE: &str = "1.2.840.10008.1.2.4.50";

/// storage SOP classes from storescp's own list (transfer.rs) ...
const KNOWN_CLASSES: [&str; 6] = [
    "1.2.840.10008.5.1.4.1.1.2",     // CT
    "1.2.840.10008.5.1.4.1.1.4",     // MR
    "1.2.840.10008.5.1.4.1.1.7",     // Secondary Capture
    "1.2.840.10008.5.1.4.1.1.1",     // CR
    "1.2.840.10008.5.1.4.1.1.88.22", // Enhanced SR
    "1.2.840.10008.5.1.4.1.1.104.1", // Encapsulated PDF
];
/// ... and classes it only takes with --promiscuous
const FOREIGN_CLASSES: [&str; 2] = ["1.2.840.10008.5.1.4.1.1.66", "1.2.826.0.1.3680043.9.7777.1"];

pub fn is_encapsulated(ts: &str) -> bool {
    !matches!(ts, TS_IMPLICIT | TS_EXPLICIT | TS_BE | TS_DEFLATED)
}

/// Data set bytes as they go on the wire / into a file body for transfer syntax `ts`.
pub fn encode_for_ts(ds: &[GElem], ts: &str, mode: LenMode) -> Vec<u8> {
    match ts {
        TS_IMPLICIT => {
            let ds = if matches!(mode, LenMode::AllUndefined) { ds.to_vec() } else { undefine_foreign_sq(ds) };
            // in Implicit VR a private/unknown sequence is only recognisable through its
            // undefined length: AllExplicit is not available there
            let mode = if matches!(mode, LenMode::AllExplicit) { LenMode::AsMarked } else { mode };
            refenc::encode(&ds, Ts::ImplicitLe, mode).bytes
        }
        TS_BE => refenc::encode(ds, Ts::ExplicitBe, mode).bytes,
        TS_DEFLATED => {
            let plain = refenc::encode(ds, Ts::ExplicitLe, mode).bytes;
            let mut enc = flate2::write::DeflateEncoder::new(Vec::new(), flate2::Compression::default());
            enc.write_all(&plain).unwrap();
            enc.finish().unwrap()
        }
        _ => refenc::encode(ds, Ts::ExplicitLe, mode).bytes,
    }
}

/// Tags that hold sequences anywhere in the tree (O-PARSE needs them to recognise defined-length
/// sequences in Implicit VR); `ambiguous` when a tag is a sequence in one place and not in another.
pub fn sq_tag_list(ds: &[GElem]) -> (Vec<String>, bool) {
    let mut sq = std::collections::BTreeSet::new();
    let mut other = std::collections::BTreeSet::new();
    walk(ds, 0, &mut |e, _| {
        if matches!(e.val, GVal::Seq(_)) {
            sq.insert(e.tag);
        } else {
            other.insert(e.tag);
        }
    });
    let ambiguous = sq.iter().any(|t| other.contains(t));
    (sq.iter().map(|t| format!("{:04X}{:04X}", t.0, t.1)).collect(), ambiguous)
}

fn ui(tag: (u16, u16), v: &str) -> GElem {
    GElem { tag, vr: VR::UI, val: GVal::Strs(vec![v.to_string()]) }
}

/// G-DS data set carrying the given SOP class / instance, pixel data form matching the TS.
pub fn gen_instance_ds(rng: &mut Rng, ts: &str, class: &str, inst: &str, marks: bool) -> GDataset {
    let mut o = DsOpts::default();
    o.encapsulated = is_encapsulated(ts);
    o.explicit_marks = marks;
    o.big = rng.chance(1, 3);
    let mut ds: Vec<GElem> = gen_dataset(rng, &o)
        .into_iter()
        .filter(|e| e.tag != (0x0008, 0x0016) && e.tag != (0x0008, 0x0018))
        .collect();
    if is_encapsulated(ts) {
        for e in ds.iter_mut() {
            if e.tag == (0x7FE0, 0x0010) && !matches!(e.val, GVal::Pix { .. }) {
                e.vr = VR::OB;
                e.val = gen_pixel_fragments(rng, false);
            }
        }
    }
    ds.push(ui((0x0008, 0x0016), class));
    ds.push(ui((0x0008, 0x0018), inst));
    ds.sort_by_key(|e| e.tag);
    ds
}

pub fn store_rq(class: &str, inst: &str, msg_id: u16) -> Vec<u8> {
    let obj = InMemDicomObject::command_from_element_iter([
        DataElement::new(tags::AFFECTED_SOP_CLASS_UID, VR::UI, dicom_value!(Str, class)),
        DataElement::new(tags::COMMAND_FIELD, VR::US, dicom_value!(U16, [0x0001])),
        DataElement::new(tags::MESSAGE_ID, VR::US, dicom_value!(U16, [msg_id])),
        DataElement::new(tags::PRIORITY, VR::US, dicom_value!(U16, [0x0000])),
        DataElement::new(tags::COMMAND_DATA_SET_TYPE, VR::US, dicom_value!(U16, [0x0000])),
        DataElement::new(tags::AFFECTED_SOP_INSTANCE_UID, VR::UI, dicom_value!(Str, inst)),
    ]);
    let mut v = Vec::new();
    obj.write_dataset_with_ts(&mut v, &IMPLICIT_VR_LITTLE_ENDIAN.erased())
        .expect("command set");
    v
}

pub fn parse_command(data: &[u8]) -> Option<InMemDicomObject> {
    guarded(|| InMemDicomObject::read_dataset_with_ts(data, &IMPLICIT_VR_LITTLE_ENDIAN.erased()).ok())
        .ok()
        .flatten()
}

fn uid_base(rng: &mut Rng, idx: u64, k: usize) -> String {
    format!("1.2.826.0.1.3680043.9.{}.{}.{}", idx + 1, k + 1, rng.below(1_000_000))
}

pub const UID_CLASSES: [&str; 18] = [
    "plain",
    "parent-ref",
    "parent-ref-deep",
    "overwrite-sibling",
    "absolute",
    "subdir-existing",
    "subdir-missing",
    "dot-dot",
    "dot",
    "empty",
    "nul-padded",
    "nul-inside",
    "space-padded",
    "long-ok",
    "long-over",
    "backslash",
    // separators hidden among characters that are legal in a UID (digits and dots only)
    "parent-ref-numeric",
    "subdir-numeric",
];

/// the Affected SOP Instance UID text for a class
fn hostile_uid(rng: &mut Rng, class: &str, base: &str, tmp: &Path) -> String {
    match class {
        "plain" => base.to_string(),
        "parent-ref" => format!("../x{}", base),
        "parent-ref-deep" => format!("../../{}/sibling/y{}", tmp.file_name().unwrap().to_string_lossy(), base),
        "overwrite-sibling" => "../sibling/keep".to_string(),
        "absolute" => format!("{}/abs/z{}", tmp.display(), base),
        "subdir-existing" => format!("sub/{}", base),
        "subdir-missing" => format!("a/{}", base),
        "dot-dot" => "..".to_string(),
        "dot" => ".".to_string(),
        "empty" => String::new(),
        "nul-padded" => format!("{}{}", base, "\0".repeat(rng.urange(1, 3))),
        "nul-inside" => format!("{}\0/../q", base),
        "space-padded" => format!("{} ", base),
        "long-ok" => format!("{}.{}", base, "7".repeat(180)),
        "long-over" => format!("{}.{}", base, "8".repeat(300)),
        "backslash" => format!("..\\{}", base),
        "parent-ref-numeric" => format!("../9.{}", base),
        "subdir-numeric" => format!("1.2/{}", base),
        _ => unreachable!(),
    }
}

/// P-DATA schedule: list of PDUs, each a list of data fragment lengths. `budget` = room for PDVs
/// in one PDU (PDU incl. its 6-byte header must not exceed the acceptor's maximum).
fn schedule(rng: &mut Rng, total: usize, max_pdu: usize) -> (Vec<Vec<usize>>, &'static str) {
    let one = max_pdu - 12; // one PDV per PDU
    let style = *rng.pick(&["max", "small", "random", "multi-pdv", "byte-first", "two", "empty-last", "empty-mid"]);
    let mut out: Vec<Vec<usize>> = Vec::new();
    let mut left = total;
    match style {
        "max" => {
            while left > 0 {
                let k = left.min(one);
                out.push(vec![k]);
                left -= k;
            }
        }
        "small" => {
            // keep the number of PDUs below ~400 whatever the size
            let cap = (total / 400).max(1);
            while left > 0 {
                let k = left.min(one).min(cap * rng.urange(1, 48));
                out.push(vec![k.max(1)]);
                left -= k.max(1);
            }
        }
        "random" => {
            while left > 0 {
                let k = left.min(rng.urange(1, one));
                out.push(vec![k]);
                left -= k;
            }
        }
        "multi-pdv" => {
            while left > 0 {
                let n = rng.urange(2, 4);
                let room = max_pdu - 6 - 6 * n;
                let mut pdu = Vec::new();
                let mut used = 0;
                for _ in 0..n {
                    if left == 0 || used >= room {
                        break;
                    }
                    let k = left.min(rng.urange(1, (room - used).min(4096)));
                    pdu.push(k);
                    used += k;
                    left -= k;
                }
                out.push(pdu);
            }
        }
        "empty-last" | "empty-mid" => {
            // zero-length data fragments: as the final (last-flagged) value, in a PDU of its own or
            // behind the final bytes in the same PDU; or somewhere in the middle
            while left > 0 {
                let k = left.min(rng.urange(1, one.min(8192)));
                out.push(vec![k]);
                left -= k;
            }
            if style == "empty-last" {
                if rng.bool() || out.is_empty() {
                    out.push(vec![0]);
                } else {
                    out.last_mut().unwrap().push(0);
                }
            } else {
                let at = rng.usize(out.len().max(1));
                if rng.bool() || out.is_empty() {
                    out.insert(at, vec![0]);
                } else {
                    out[at].insert(0, 0);
                }
            }
        }
        "byte-first" => {
            out.push(vec![1.min(left)]);
            left -= 1.min(left);
            while left > 0 {
                let k = left.min(one);
                out.push(vec![k]);
                left -= k;
            }
        }
        _ => {
            if left > 1 && left <= 2 * one {
                let a = rng.urange(1.max(left.saturating_sub(one)), (left - 1).min(one));
                out.push(vec![a]);
                out.push(vec![left - a]);
            } else {
                while left > 0 {
                    let k = left.min(one);
                    out.push(vec![k]);
                    left -= k;
                }
            }
        }
    }
    (out, style)
}

struct Sent {
    assoc: usize,
    uid_class: &'static str,
    affected_uid: String,
    ds_class: String,
    ds_uid: String,
    ts: String,
    ds: GDataset,
    wire: Vec<u8>,
    frag_style: &'static str,
    pdus: usize,
    /// Some(status) when a C-STORE-RSP arrived
    status: Option<u16>,
    send_error: Option<String>,
}

struct Scenario {
    mode: &'static str,
    promiscuous: bool,
    uncompressed_only: bool,
    strict: bool,
    max_pdu: u32,
    out_state: &'static str,
    out_relative: bool,
}

fn replay_of(cfg: &Cfg, idx: u64, sc: &Scenario, s: Option<&Sent>) -> Value {
    let mut r = json!({
        "seed": cfg.seed, "stream": 32, "case": idx,
        "server": {"mode": sc.mode, "promiscuous": sc.promiscuous, "uncompressed_only": sc.uncompressed_only,
                   "strict": sc.strict, "max_pdu_length": sc.max_pdu, "out_dir_state": sc.out_state,
                   "out_dir_relative": sc.out_relative},
    });
    if let Some(s) = s {
        r["instance"] = json!({
            "association": s.assoc, "uid_class": s.uid_class, "affected_sop_instance_uid": s.affected_uid,
            "dataset_sop_class_uid": s.ds_class, "dataset_sop_instance_uid": s.ds_uid,
            "transfer_syntax": s.ts, "fragment_style": s.frag_style, "pdus": s.pdus,
            "status": s.status.map(|x| format!("{:04X}", x)), "send_error": s.send_error,
            "dataset": ds_json(&s.ds), "sent_hex": hex_short(&s.wire, 2048),
        });
    }
    r
}

fn trim_uid(s: &str) -> &str {
    s.trim_end_matches(['\0', ' '])
}

const IO_TIMEOUT: Duration = Duration::from_secs(20);

#[allow(clippy::too_many_arguments)]
fn one_case(cfg: &Cfg, l: &mut Local, rng: &mut Rng, idx: u64, oparse: &Mutex<Option<std::fs::File>>) {
    let Ok(storescp) = proc::tool(cfg, "dicom-storescp") else {
        l.count("tools_missing", 1);
        return;
    };
    let sc = Scenario {
        mode: if rng.bool() { "sync" } else { "async" },
        promiscuous: rng.chance(1, 3),
        uncompressed_only: rng.chance(1, 6),
        strict: rng.chance(1, 4),
        max_pdu: *rng.pick(&[1018u32, 2048, 4096, 16378, 16378, 65536, 131072]),
        out_state: *rng.pick(&["with-sub", "with-sub", "empty", "missing"]),
        out_relative: rng.chance(1, 3),
    };
    let Ok(tmp) = Scratch::new(cfg, "c32", idx) else {
        l.count("scratch_errors", 1);
        return;
    };
    let root = tmp.path().join("tree");
    let logs = tmp.path().join("logs");
    let out = root.join("out");
    for d in [root.join("cwd"), root.join("sibling"), root.join("abs"), logs.clone()] {
        let _ = std::fs::create_dir_all(d);
    }
    let _ = std::fs::write(root.join("sibling/keep.dcm"), b"SENTINEL sibling\n");
    let _ = std::fs::write(root.join("abs/keep.txt"), b"SENTINEL abs\n");
    match sc.out_state {
        "with-sub" => {
            let _ = std::fs::create_dir_all(out.join("sub"));
            let _ = std::fs::write(out.join("sub/keep.txt"), b"SENTINEL sub\n");
            let _ = std::fs::write(out.join("existing.dcm"), b"SENTINEL existing\n");
        }
        "empty" => {
            let _ = std::fs::create_dir_all(&out);
        }
        _ => {}
    }
    let before = proc::snapshot(&root);

    // --- start the server (retry on a lost port race) ---
    let mut server = None;
    let mut port = 0u16;
    for _attempt in 0..4 {
        let Some(p) = proc::free_port() else { continue };
        let mut cmd = Command::new(&storescp);
        cmd.current_dir(root.join("cwd")).env("RUST_LOG", "info").arg("-p").arg(p.to_string()).arg("-o");
        if sc.out_relative {
            cmd.arg("../out");
        } else {
            cmd.arg(&out);
        }
        cmd.arg("-m").arg(sc.max_pdu.to_string());
        if sc.mode == "async" {
            cmd.arg("--non-blocking");
        }
        if sc.promiscuous {
            cmd.arg("--promiscuous");
        }
        if sc.uncompressed_only {
            cmd.arg("--uncompressed-only");
        }
        if sc.strict {
            cmd.arg("--strict");
        }
        let Ok(mut g) = proc::spawn_logged(&mut cmd, &logs.join("storescp")) else {
            l.count("spawn_errors", 1);
            return;
        };
        match proc::wait_port(p, &mut g, Duration::from_secs(20)) {
            PortWait::Ready => {
                server = Some(g);
                port = p;
                break;
            }
            PortWait::ChildExited => {
                l.count("server_start_retries", 1);
                continue;
            }
            PortWait::Timeout => {
                l.count("watchdog_fired", 1);
                l.note("storescp did not start listening within 20 s (scenario skipped)");
                return;
            }
        }
    }
    let Some(mut server) = server else {
        l.count("server_start_failures", 1);
        l.note(format!(
            "storescp could not be started: {}",
            proc::log_tail(&logs.join("storescp"), 300)
        ));
        return;
    };
    l.count(&format!("servers_{}", sc.mode), 1);

    // --- associations ---
    let mut sent: Vec<Sent> = Vec::new();
    let mut classes_left: Vec<&'static str> = UID_CLASSES.to_vec();
    rng.shuffle(&mut classes_left);
    let n_assoc = rng.urange(1, 3);
    let started = Instant::now();
    let mut timed_out = false;
    for a in 0..n_assoc {
        if started.elapsed() > Duration::from_secs(60) {
            break;
        }
        // proposed contexts
        let mut ts_pool = vec![TS_IMPLICIT, TS_EXPLICIT, TS_DEFLATED, TS_ENCAP_UNCOMPRESSED, TS_RLE, TS_BE, TS_JPEG_BASELINE];
        rng.shuffle(&mut ts_pool);
        let n_ctx = rng.urange(2, 5);
        let mut proposed: Vec<(String, Vec<String>)> = Vec::new();
        for c in 0..n_ctx {
            let class = if sc.promiscuous && rng.chance(1, 3) {
                *rng.pick(&FOREIGN_CLASSES)
            } else {
                *rng.pick(&KNOWN_CLASSES)
            };
            let tss: Vec<String> = if rng.chance(1, 4) {
                let k = rng.urange(2, 3);
                (0..k).map(|j| ts_pool[(c + j) % ts_pool.len()].to_string()).collect()
            } else {
                vec![ts_pool[c % ts_pool.len()].to_string()]
            };
            proposed.push((class.to_string(), tss));
        }
        let mut opts = ClientAssociationOptions::new()
            .calling_ae_title("VERIF-SCU")
            .called_ae_title("STORE-SCP")
            .max_pdu_length(*rng.pick(&[4096u32, 16384, 65536]))
            .read_timeout(IO_TIMEOUT)
            .write_timeout(IO_TIMEOUT)
            .connection_timeout(IO_TIMEOUT);
        for (class, tss) in &proposed {
            opts = opts.with_presentation_context(class.clone(), tss.clone());
        }
        let mut assoc = match guarded(|| opts.establish(("127.0.0.1", port))) {
            Ok(Ok(a)) => a,
            Ok(Err(e)) => {
                l.count("associations_not_established", 1);
                let v: String = format!("{:?}", e).chars().take_while(|c| c.is_alphanumeric()).collect();
                l.count(&format!("associations_not_established_{}", v), 1);
                continue;
            }
            Err(p) => {
                l.note(format!("client establish panicked: {}", p));
                l.count("harness_errors", 1);
                continue;
            }
        };
        l.count("associations", 1);
        let accepted: Vec<(u8, String, String)> = assoc
            .presentation_contexts()
            .iter()
            .map(|pc| (pc.id, pc.abstract_syntax.clone(), trim_uid(&pc.transfer_syntax).to_string()))
            .collect();
        let acc_max = assoc.acceptor_max_pdu_length() as usize;
        if accepted.is_empty() || acc_max < 1018 {
            let _ = assoc.abort();
            continue;
        }
        let n_store = rng.urange(1, 3);
        let mut alive = true;
        for k in 0..n_store {
            if !alive {
                break;
            }
            let (ctx_id, class, ts) = rng.pick(&accepted).clone();
            let uid_class = if rng.chance(1, 4) {
                "plain"
            } else {
                match classes_left.pop() {
                    Some(c) => c,
                    None => "plain",
                }
            };
            if uid_class == "subdir-existing" && sc.out_state != "with-sub" {
                // without the subdirectory this is the same as subdir-missing
            }
            let base = uid_base(rng, idx, sent.len() + 10 * a + k);
            let affected = hostile_uid(rng, uid_class, &base, &root);
            // the data set's own identifiers
            let ds_uid = if rng.chance(1, 4) && !affected.contains('\0') && !affected.is_empty() && affected.len() <= 64 && !affected.ends_with(' ') && !affected.contains('\\') {
                affected.clone()
            } else {
                format!("{}.1", base)
            };
            let ds_class = if rng.chance(1, 5) { rng.pick(&KNOWN_CLASSES).to_string() } else { class.clone() };
            let mode = *rng.pick(&[LenMode::AllUndefined, LenMode::AsMarked, LenMode::AllExplicit]);
            let ds = gen_instance_ds(rng, &ts, &ds_class, &ds_uid, !matches!(mode, LenMode::AllUndefined));
            let wire = encode_for_ts(&ds, &ts, mode);
            let cmd = store_rq(&class, &affected, (sent.len() + 1) as u16);
            let (mut plan, mut style) = schedule(rng, wire.len(), acc_max);
            let with_command = cmd.len() + wire.len() + 24 <= acc_max && rng.chance(1, 3);
            let mut s = Sent {
                assoc: a,
                uid_class,
                affected_uid: affected.clone(),
                ds_class: ds_class.clone(),
                ds_uid: ds_uid.clone(),
                ts: ts.clone(),
                ds,
                wire,
                frag_style: "",
                pdus: 0,
                status: None,
                send_error: None,
            };
            // build PDUs
            let mut pdus: Vec<Pdu> = Vec::new();
            let cmd_pdv = PDataValue {
                presentation_context_id: ctx_id,
                value_type: PDataValueType::Command,
                is_last: true,
                data: cmd,
            };
            if with_command {
                style = "with-command";
                plan = vec![vec![s.wire.len()]];
                pdus.push(Pdu::PData {
                    data: vec![
                        cmd_pdv,
                        PDataValue {
                            presentation_context_id: ctx_id,
                            value_type: PDataValueType::Data,
                            is_last: true,
                            data: s.wire.clone(),
                        },
                    ],
                });
            } else {
                pdus.push(Pdu::PData { data: vec![cmd_pdv] });
                let mut off = 0;
                let n_pdv: usize = plan.iter().map(|p| p.len()).sum();
                let mut seen = 0;
                for pdu in &plan {
                    let mut vals = Vec::new();
                    for len in pdu {
                        seen += 1;
                        vals.push(PDataValue {
                            presentation_context_id: ctx_id,
                            value_type: PDataValueType::Data,
                            is_last: seen == n_pdv,
                            data: s.wire[off..off + len].to_vec(),
                        });
                        off += len;
                    }
                    pdus.push(Pdu::PData { data: vals });
                }
                debug_assert_eq!(off, s.wire.len());
            }
            s.frag_style = style;
            s.pdus = pdus.len();
            l.count("cstore_sent", 1);
            l.count(&format!("ts_{}", ts_name(&ts)), 1);
            l.count(&format!("uid_class_{}", uid_class), 1);
            l.count(&format!("frag_{}", style), 1);
            l.count("pdata_pdus", pdus.len() as u64);
            l.class(format!(
                "{}|{}|{}|{}|frags={}",
                sc.mode,
                ts_name(&ts),
                uid_class,
                style,
                match plan.iter().map(|p| p.len()).sum::<usize>() {
                    0..=1 => "1",
                    2..=8 => "2-8",
                    _ => "9+",
                }
            ));
            for pdu in &pdus {
                if let Err(e) = assoc.send(pdu) {
                    s.send_error = Some(format!("{}", e));
                    alive = false;
                    break;
                }
            }
            if alive {
                match assoc.receive() {
                    Ok(Pdu::PData { data }) => {
                        let st = data
                            .iter()
                            .find(|v| v.value_type == PDataValueType::Command)
                            .and_then(|v| parse_command(&v.data))
                            .and_then(|o| o.element(tags::STATUS).ok().and_then(|e| e.to_int::<u16>().ok()));
                        s.status = st;
                        if st.is_none() {
                            s.send_error = Some("response without a readable status".into());
                        }
                    }
                    Ok(other) => {
                        s.send_error = Some(format!("unexpected PDU {}", other.short_description()));
                        alive = false;
                    }
                    Err(e) => {
                        let msg = format!("{:?}", e);
                        if msg.contains("TimedOut") || msg.contains("WouldBlock") {
                            timed_out = true;
                        }
                        s.send_error = Some(format!("{}", e));
                        alive = false;
                    }
                }
            }
            match s.status {
                Some(0) => l.count("responses_success", 1),
                Some(_) => l.count("responses_other_status", 1),
                None => l.count("no_response", 1),
            }
            sent.push(s);
        }
        if alive {
            match assoc.release() {
                Ok(()) => l.count("releases", 1),
                Err(_) => l.count("release_errors", 1),
            }
        } else {
            let _ = assoc.abort();
        }
    }
    if timed_out {
        l.count("watchdog_fired", 1);
        l.note("a response did not arrive within the socket timeout (treated as no response)");
    }
    // give an async server a moment to finish handlers of dropped connections, then stop it
    std::thread::sleep(Duration::from_millis(30));
    let server_died = server.exited().is_some();
    server.kill();
    if server_died {
        l.count("server_died_during_scenario", 1);
    }

    // --- walk the tree ---
    let after = proc::snapshot(&root);
    l.eval();
    let mut new_files: Vec<PathBuf> = Vec::new();
    for (p, e) in &after {
        let changed = match before.get(p) {
            None => true,
            Some(b) => b != e,
        };
        if !changed {
            continue;
        }
        if p == Path::new("out") && e.is_dir {
            continue; // the tool may create its output directory
        }
        if e.is_dir || e.is_symlink {
            // any other new directory / link
            let loc = if p.starts_with("out") { "subdir" } else { "escape" };
            l.violation(
                format!("C32|{}-dir|mode={}", loc, sc.mode),
                format!("the server created directory/link {} in the sentinel tree", p.display()),
                replay_of(cfg, idx, &sc, None),
            );
            continue;
        }
        new_files.push(p.clone());
    }
    for p in before.keys() {
        if !after.contains_key(p) {
            l.violation(
                format!("C32|deleted|mode={}", sc.mode),
                format!("sentinel entry {} disappeared", p.display()),
                replay_of(cfg, idx, &sc, None),
            );
        }
    }
    let mut stored_for: BTreeMap<usize, Vec<PathBuf>> = BTreeMap::new();
    let mut unmatched = 0usize;
    for p in &new_files {
        l.count("files_found", 1);
        let full = root.join(p);
        let parent = p.parent().unwrap_or(Path::new(""));
        let loc = if parent == Path::new("out") {
            "out"
        } else if p.starts_with("out") {
            "subdir"
        } else {
            "escape"
        };
        // read it back and find the instance it belongs to
        let parsed = guarded(|| open_file(&full));
        let matched: Option<usize> = match &parsed {
            Ok(Ok(obj)) => {
                let uid = obj
                    .element(tags::SOP_INSTANCE_UID)
                    .ok()
                    .and_then(|e| e.to_str().ok().map(|s| trim_uid(&s).to_string()));
                uid.and_then(|u| sent.iter().position(|s| trim_uid(&s.ds_uid) == u))
            }
            _ => None,
        }
        .or_else(|| {
            // fall back on the file name for unreadable files
            let stem = p.file_name().map(|f| f.to_string_lossy().to_string()).unwrap_or_default();
            sent.iter().position(|s| {
                let last = s.affected_uid.trim_end_matches('\0').rsplit('/').next().unwrap_or("").to_string();
                !last.is_empty() && stem == format!("{}.dcm", last)
            })
        });
        let uid_class = matched.map(|i| sent[i].uid_class).unwrap_or("unmatched");
        if loc != "out" {
            let key = format!("C32|{}|uid-class={}|mode={}", loc, uid_class, sc.mode);
            let mut r = replay_of(cfg, idx, &sc, matched.map(|i| &sent[i]));
            r["expected"] = json!("files only directly inside <tmp>/tree/out");
            r["observed"] = json!({"created_or_modified": p.display().to_string(),
                                   "was_present_before": before.contains_key(p)});
            l.violation(
                key,
                format!(
                    "storescp (-o {}) wrote {} for Affected SOP Instance UID {:?}",
                    if sc.out_relative { "../out" } else { "<tmp>/tree/out" },
                    p.display(),
                    matched.map(|i| sent[i].affected_uid.clone()).unwrap_or_default()
                ),
                r,
            );
        } else {
            l.count("files_in_out", 1);
        }
        // content
        l.eval();
        let Some(i) = matched else {
            unmatched += 1;
            let what = match &parsed {
                Ok(Ok(_)) => "readable DICOM file that matches no sent instance".to_string(),
                Ok(Err(e)) => format!("not readable as a DICOM file: {}", e),
                Err(p) => format!("reading it panicked: {}", p),
            };
            l.violation(
                format!("C32|stored-unmatched|loc={}|mode={}", loc, sc.mode),
                format!("new file {}: {}", p.display(), what),
                replay_of(cfg, idx, &sc, None),
            );
            continue;
        };
        stored_for.entry(i).or_default().push(p.clone());
        let s = &sent[i];
        let keyp = |kind: &str| format!("C32|content|{}|ts={}|mode={}", kind, ts_name(&s.ts), sc.mode);
        match parsed {
            Ok(Ok(obj)) => {
                l.count("files_parsed", 1);
                let meta = obj.meta();
                let mts = trim_uid(&meta.transfer_syntax).to_string();
                if mts != s.ts {
                    let mut r = replay_of(cfg, idx, &sc, Some(s));
                    r["expected"] = json!(s.ts);
                    r["observed"] = json!(mts);
                    l.violation(
                        keyp("meta-ts"),
                        format!("file meta transfer syntax {} but {} was negotiated", mts, s.ts),
                        r,
                    );
                }
                let mclass = trim_uid(&meta.media_storage_sop_class_uid).to_string();
                let minst = trim_uid(&meta.media_storage_sop_instance_uid).to_string();
                if mclass != trim_uid(&s.ds_class) {
                    let mut r = replay_of(cfg, idx, &sc, Some(s));
                    r["expected"] = json!(s.ds_class);
                    r["observed"] = json!(mclass);
                    l.violation(
                        keyp("meta-sop-class"),
                        format!("media storage SOP class {:?} but the data set says {:?}", mclass, s.ds_class),
                        r,
                    );
                }
                if minst != trim_uid(&s.ds_uid) {
                    let mut r = replay_of(cfg, idx, &sc, Some(s));
                    r["expected"] = json!(s.ds_uid);
                    r["observed"] = json!(minst);
                    l.violation(
                        keyp("meta-sop-instance"),
                        format!("media storage SOP instance {:?} but the data set says {:?}", minst, s.ds_uid),
                        r,
                    );
                }
                let ctx = Ctx { implicit: s.ts == TS_IMPLICIT, ..Default::default() };
                match guarded(|| cmp_dataset(&s.ds, &obj, &ctx, "")) {
                    Ok(Ok(())) => {}
                    Ok(Err(m)) => {
                        let mut r = replay_of(cfg, idx, &sc, Some(s));
                        r["path"] = json!(m.path);
                        r["file_hex"] = json!(hex_short(&std::fs::read(&full).unwrap_or_default(), 4096));
                        l.violation(
                            format!("C32|content|{}|ts={}|mode={}", m.key(), ts_name(&s.ts), sc.mode),
                            format!("stored data set differs from the sent one at {}: {}", m.path, m.detail),
                            r,
                        );
                    }
                    Err(p) => {
                        l.note(format!("comparator panicked: {}", p));
                        l.count("harness_errors", 1);
                    }
                }
            }
            Ok(Err(e)) => {
                let mut r = replay_of(cfg, idx, &sc, Some(s));
                r["file_hex"] = json!(hex_short(&std::fs::read(&full).unwrap_or_default(), 4096));
                l.violation(
                    keyp("unreadable"),
                    format!("stored file {} cannot be read back: {}", p.display(), e),
                    r,
                );
            }
            Err(pn) => {
                l.violation(
                    keyp(&format!("read-panic|{}", panic_loc(&pn))),
                    format!("reading stored file {} panicked: {}", p.display(), pn),
                    replay_of(cfg, idx, &sc, Some(s)),
                );
            }
        }
        // record for O-PARSE (driver leg)
        if let Ok(bytes) = std::fs::read(&full) {
            if bytes.len() < 400_000 {
                if let Some(f) = oparse.lock().unwrap().as_mut() {
                    let (sq_tags, sq_ambiguous) = sq_tag_list(&s.ds);
                    let rec = json!({
                        "prop": "C32", "stream": 32, "sq_tags": sq_tags, "sq_ambiguous": sq_ambiguous,
                        "case": idx, "mode": sc.mode, "ts_uid": s.ts, "ts": ts_name(&s.ts),
                        "sop_class": trim_uid(&s.ds_class), "sop_instance": trim_uid(&s.ds_uid),
                        "sent_hex": hex(&s.wire), "file_hex": hex(&bytes),
                        "seed": cfg.seed, "uid_class": s.uid_class,
                    });
                    let _ = writeln!(f, "{}", rec);
                }
            }
        }
    }
    // success status for something not stored
    for (i, s) in sent.iter().enumerate() {
        l.eval();
        if s.status == Some(0) {
            if !stored_for.contains_key(&i) && unmatched == 0 {
                let mut r = replay_of(cfg, idx, &sc, Some(s));
                r["expected"] = json!("a stored file for the instance answered with status 0000");
                r["observed"] = json!({"new_files": new_files.iter().map(|p| p.display().to_string()).collect::<Vec<_>>(),
                                       "server_log": proc::log_tail(&logs.join("storescp"), 600)});
                l.violation(
                    format!("C32|success-not-stored|uid-class={}|mode={}", s.uid_class, sc.mode),
                    format!(
                        "C-STORE-RSP status 0000 for Affected SOP Instance UID {:?} but no file holds the instance",
                        s.affected_uid
                    ),
                    r,
                );
            } else {
                l.count("stored_and_acknowledged", 1);
            }
        } else if stored_for.contains_key(&i) {
            l.count("stored_without_success_response", 1);
        } else {
            l.count(&format!("not_stored_{}", s.uid_class), 1);
        }
    }
    if l.want_sample() && idx % 5 == 0 {
        if let Some(s) = sent.first() {
            l.sample(json!({
                "case": idx, "mode": sc.mode, "out_dir_state": sc.out_state,
                "instances": sent.iter().map(|s| json!({"uid_class": s.uid_class, "affected_uid": s.affected_uid.chars().take(80).collect::<String>(),
                    "ts": ts_name(&s.ts), "bytes": s.wire.len(), "fragments": s.frag_style, "pdus": s.pdus,
                    "status": s.status})).collect::<Vec<_>>(),
                "new_files": new_files.iter().map(|p| p.display().to_string()).collect::<Vec<_>>(),
                "first_dataset_elements": s.ds.len(),
            }));
        }
    }
}

pub fn run(cfg: &Cfg) -> Outcome {
    let rule = "real dicom-storescp (sync / --non-blocking; random --promiscuous, --uncompressed-only, --strict, -m) in a sentinel tree; scripted dicom-ul requestor: 1-3 associations x 1-3 C-STOREs of G-DS data sets encoded by the reference encoder in the negotiated TS (Implicit/Explicit LE, Explicit BE, Deflated, Encapsulated Uncompressed, RLE, JPEG baseline), 8 fragmentation styles (incl. zero-length data fragments, last-flagged or in the middle), 18 Affected SOP Instance UID classes; tree walk + stored file vs sent data set (dicom-object + cmp; O-PARSE leg in the driver); class = (mode, TS, uid class, fragmentation style, fragment count class)";
    if let Err(e) = proc::tool(cfg, "dicom-storescp") {
        let mut o = Outcome::new(Local::new(), rule);
        o.inconclusive = Some(e);
        return o;
    }
    let path = Path::new(&cfg.out).join("c32_oparse.jsonl");
    let file = std::fs::File::create(&path).ok();
    let oparse = Mutex::new(file);
    let n = cfg.n(600, 12000);
    let local = run_parallel(
        cfg,
        32,
        RunLimits { cases: n, wall: Duration::from_secs(if cfg.thorough() { 780 } else { 100 }) },
        |l, rng, idx| one_case(cfg, l, rng, idx, &oparse),
    );
    let watchdogs = local.counters.get("watchdog_fired").copied().unwrap_or(0);
    let stores = local.counters.get("cstore_sent").copied().unwrap_or(0);
    let mut o = Outcome::new(local, rule);
    o.min_evaluations = 200;
    o.min_classes = 40;
    o.extra.insert("oparse_records".into(), json!(path.display().to_string()));
    if cfg.only_case.is_some() {
        // replay of a single scenario: no floors
    } else if stores < 50 {
        o.inconclusive = Some(format!("only {} C-STORE requests could be sent", stores));
    } else if watchdogs * 5 > n {
        o.inconclusive = Some(format!("{} scenarios hit a watchdog", watchdogs));
    }
    o
}
