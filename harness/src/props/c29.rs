//! C29 — requestor and acceptor agree on the association and respect PDU limits.
//!
//! Random `ClientAssociationOptions` x `ServerAssociationOptions` over loopback TCP through a
//! recording proxy (mon::net::Proxy) that parses the PDU framing of both directions. Oracles: an
//! own parser of the A-ASSOCIATE-RQ/AC bodies seen on the wire (context ids, results, announced
//! maximum lengths), the two association objects compared with each other and with the wire, and
//! the PDU-length fields seen by the proxy during a random message exchange compared with the
//! maximum the receiving side announced.
//!
//! Never hangs: every socket and every hand-shake channel has a timeout; a timeout makes the
//! scenario inconclusive (counted), never a violation.

use crate::mon::net::*;
use crate::report::*;
use crate::rng::Rng;
use dicom_ul::association::server::{AcceptAny, AcceptCalledAeTitle, AccessControl, DefaultNegotiation, Negotiation};
use dicom_ul::association::{ClientAssociation, ClientAssociationOptions, ServerAssociation, ServerAssociationOptions};
use dicom_ul::pdu::{PDataValue, PDataValueType, Pdu, PresentationContextResultReason, RequestorRoles};
use serde_json::{json, Value};
use std::collections::{BTreeMap, BTreeSet};
use std::io::{Read, Write};
use std::net::{SocketAddr, TcpStream};
use std::sync::mpsc::{channel, Receiver, RecvTimeoutError, Sender};
use std::time::Duration;

const MAXIMUM: u32 = 0xFFFF_FFF8;
const MIN: u32 = 1018;
const STEP_WAIT: Duration = Duration::from_secs(20);

const AS_POOL: [&str; 6] = [
    "1.2.840.10008.1.1",
    "1.2.840.10008.5.1.4.1.1.2",
    "1.2.840.10008.5.1.4.1.1.4",
    "1.2.840.10008.5.1.4.1.1.7",
    "1.2.840.10008.5.1.4.1.2.2.1",
    "1.2.840.10008.5.1.4.1.1.2\0",
];
const TS_POOL: [&str; 6] = [
    "1.2.840.10008.1.2",
    "1.2.840.10008.1.2.1",
    "1.2.840.10008.1.2.2",
    "1.2.840.10008.1.2.4.50",
    "1.2.3.4.5.6.7.8.9",
    "1.2.840.10008.1.2.1\0",
];

fn trim_uid(u: &str) -> &str {
    u.trim_end_matches(|c: char| c == '\0' || c == ' ')
}

// ---- configurations ----------------------------------------------------------------------------

#[derive(Clone, Debug)]
struct ClientCfg {
    contexts: Vec<(String, Vec<String>)>,
    max_pdu: u32,
    strict: bool,
    calling: String,
    called: Option<String>,
    roles: Vec<(String, bool, bool)>,
    ext: Vec<(String, Vec<u8>)>,
}

#[derive(Clone, Debug)]
struct ServerCfg {
    abstract_syntaxes: Vec<String>,
    transfer_syntaxes: Vec<String>,
    promiscuous: bool,
    max_pdu: u32,
    strict: bool,
    called_ae_only: bool,
    custom_negotiation: bool,
    ae_title: String,
}

fn gen_max(rng: &mut Rng) -> u32 {
    match rng.below(16) {
        0 | 1 => MIN,
        2 => MIN + 1,
        3..=5 => 32_762,
        6 => 4096,
        7 => 16_384,
        8 => 65_536,
        9 => 131_072,
        10 => MAXIMUM,
        11 => u32::MAX, // documented: silently truncated to the maximum
        12 => 0,
        13 => {
            if rng.bool() {
                *rng.pick(&[1u32, 512, 1017]) // below the library minimum: locally invalid
            } else {
                2048
            }
        }
        14 => 8192,
        _ => rng.range(MIN as i64, 70_000) as u32,
    }
}

fn gen_client(rng: &mut Rng) -> ClientCfg {
    let n = match rng.below(12) {
        0 => 0,
        1..=6 => rng.urange(1, 4),
        7..=9 => rng.urange(5, 40),
        10 => rng.urange(41, 127),
        _ => 128,
    };
    let contexts = (0..n)
        .map(|_| {
            let nt = rng.urange(1, 4);
            let ts = (0..nt).map(|_| rng.pick(&TS_POOL).to_string()).collect();
            (rng.pick(&AS_POOL).to_string(), ts)
        })
        .collect();
    let mut roles = vec![];
    let mut ext = vec![];
    for a in AS_POOL.iter().take(5) {
        if rng.chance(1, 6) {
            roles.push((a.to_string(), rng.bool(), rng.bool()));
        }
        if rng.chance(1, 8) {
            let k = rng.urange(0, 6);
            ext.push((a.to_string(), rng.bytes(k)));
        }
    }
    ClientCfg {
        contexts,
        max_pdu: gen_max(rng),
        strict: rng.chance(2, 3),
        // a per-case nonce in the calling AE title: a request that reaches this case's acceptor from
        // any other connection (a late connect of another case to a reused port) is recognisable
        calling: format!("{}-{:04x}", rng.pick(&["THIS-SCU", "SCU2", "A"]), rng.next_u32() & 0xFFFF),
        called: match rng.below(4) {
            0 => None,
            1 => Some("OTHER-SCP".to_string()),
            _ => Some("MAIN-SCP".to_string()),
        },
        roles,
        ext,
    }
}

fn gen_server(rng: &mut Rng) -> ServerCfg {
    let mut a = vec![];
    for x in AS_POOL.iter().take(5) {
        if rng.chance(3, 5) {
            a.push(x.to_string());
        }
    }
    let mut t = vec![];
    if rng.chance(1, 2) {
        for x in TS_POOL.iter() {
            if rng.chance(2, 5) {
                t.push(x.to_string());
            }
        }
    }
    ServerCfg {
        abstract_syntaxes: a,
        transfer_syntaxes: t,
        promiscuous: rng.chance(1, 4),
        max_pdu: gen_max(rng),
        strict: rng.chance(2, 3),
        called_ae_only: rng.chance(1, 4),
        custom_negotiation: rng.chance(1, 3),
        ae_title: "MAIN-SCP".to_string(),
    }
}

struct EchoNegotiation;

impl Negotiation for EchoNegotiation {
    fn extended_negotiation(&self, sop_class_uid: &str, input: &[u8]) -> Option<Vec<u8>> {
        if sop_class_uid.ends_with('2') {
            Some(input.to_vec())
        } else {
            None
        }
    }
    fn negotiate_roles(&self, _sop: &str, scu: bool, scp: bool) -> Option<RequestorRoles> {
        Some(RequestorRoles { scu, scp: scp && scu })
    }
}

// ---- own parser of A-ASSOCIATE-RQ / -AC bodies ---------------------------------------------------

#[derive(Debug, Default, Clone)]
struct AssocWire {
    /// RQ: (id, abstract syntax, transfer syntaxes); AC: (id, "", [transfer syntax]) + result
    contexts: Vec<(u8, String, Vec<String>, u8)>,
    max_len: Option<u32>,
    malformed: Option<&'static str>,
    /// calling AE title field (trimmed)
    calling: String,
}

fn parse_assoc_body(b: &[u8], is_ac: bool) -> AssocWire {
    let mut out = AssocWire::default();
    if b.len() < 68 {
        out.malformed = Some("fixed part shorter than 68 bytes");
        return out;
    }
    out.calling = String::from_utf8_lossy(&b[20..36]).trim_matches([' ', '\0']).to_string();
    let mut p = 68usize;
    while p + 4 <= b.len() {
        let it = b[p];
        let len = u16::from_be_bytes([b[p + 2], b[p + 3]]) as usize;
        let (s, e) = (p + 4, p + 4 + len);
        if e > b.len() {
            out.malformed = Some("item exceeds PDU");
            return out;
        }
        match it {
            0x20 | 0x21 => {
                if len < 4 {
                    out.malformed = Some("presentation context item shorter than 4");
                    return out;
                }
                let id = b[s];
                let result = b[s + 2];
                let mut asx = String::new();
                let mut tss = vec![];
                let mut q = s + 4;
                while q + 4 <= e {
                    let st = b[q];
                    let sl = u16::from_be_bytes([b[q + 2], b[q + 3]]) as usize;
                    if q + 4 + sl > e {
                        out.malformed = Some("sub-item exceeds item");
                        return out;
                    }
                    let txt = String::from_utf8_lossy(&b[q + 4..q + 4 + sl]).to_string();
                    match st {
                        0x30 => asx = txt,
                        0x40 => tss.push(txt),
                        _ => {}
                    }
                    q += 4 + sl;
                }
                if (it == 0x21) != is_ac {
                    out.malformed = Some("presentation context item type does not match the PDU type");
                }
                out.contexts.push((id, asx, tss, result));
            }
            0x50 => {
                let mut q = s;
                while q + 4 <= e {
                    let st = b[q];
                    let sl = u16::from_be_bytes([b[q + 2], b[q + 3]]) as usize;
                    if q + 4 + sl > e {
                        out.malformed = Some("user sub-item exceeds item");
                        return out;
                    }
                    if st == 0x51 && sl == 4 {
                        out.max_len = Some(u32::from_be_bytes([b[q + 4], b[q + 5], b[q + 6], b[q + 7]]));
                    }
                    q += 4 + sl;
                }
            }
            _ => {}
        }
        p = e;
    }
    if p != b.len() {
        out.malformed = Some("trailing bytes after the last item");
    }
    out
}

/// announced maximum as a bound on the PDU-length field (0 = no limit)
fn bound(announced: Option<u32>) -> u64 {
    match announced {
        None => 32_762,
        Some(0) => u64::MAX,
        Some(v) => v as u64,
    }
}

// ---- exchange script -----------------------------------------------------------------------------

#[derive(Clone, Debug)]
enum Msg {
    /// one P-DATA-TF PDU with a single PDV of `data` bytes through `send`
    Send { from_client: bool, data: usize },
    /// a P-DATA stream through `send_pdata` + `write_all` chunks + `finish`
    Stream { from_client: bool, chunks: Vec<usize> },
}

#[derive(Debug, Clone)]
enum Note {
    /// something was put on the wire and the receiver should read it
    Sent,
    /// nothing on the wire (send refused locally)
    NotSent,
    /// the sender stops the exchange here
    Stop,
}

#[derive(Debug, Default)]
struct SideLog {
    establish: Option<Result<(), String>>,
    establish_timeout: bool,
    accepted: Vec<(u8, String, String)>,
    local_max: u32,
    peer_max: u32,
    steps: Vec<Value>,
    violations: Vec<(String, String)>,
    inconclusive: Vec<String>,
    sent_ok: u64,
    refused_overlong: u64,
    received_ok: u64,
    released: Option<bool>,
}

fn err_class<E: std::error::Error + 'static>(e: &E) -> (String, bool) {
    // (variant name, is it a timeout?)
    let d = format!("{:?}", e);
    let name: String = d.chars().take_while(|c| c.is_alphanumeric()).collect();
    let mut src: Option<&(dyn std::error::Error + 'static)> = Some(e);
    let mut timeout = false;
    let mut inner = String::new();
    while let Some(s) = src {
        if let Some(io) = s.downcast_ref::<std::io::Error>() {
            if matches!(io.kind(), std::io::ErrorKind::WouldBlock | std::io::ErrorKind::TimedOut) {
                timeout = true;
            }
            inner = format!("io:{:?}", io.kind());
        } else {
            let dd = format!("{:?}", s);
            let n: String = dd.chars().take_while(|c| c.is_alphanumeric()).collect();
            if n != name && !n.is_empty() {
                inner = n;
            }
        }
        src = s.source();
    }
    (if inner.is_empty() { name } else { format!("{}/{}", name, inner) }, timeout)
}

/// The operations both association types offer (inherent methods, same names).
trait Peer {
    fn p_send(&mut self, pdu: &Pdu) -> Result<(), (String, bool)>;
    fn p_receive(&mut self) -> Result<Pdu, (String, bool)>;
    fn p_stream(&mut self, ctx: u8, payload: &[u8], chunks: &[usize]) -> Result<(), (String, bool)>;
    fn p_read_stream(&mut self) -> Result<Vec<u8>, (String, bool)>;
    fn sock(&mut self) -> &mut TcpStream;
}

macro_rules! impl_peer {
    ($t:ty) => {
        impl Peer for $t {
            fn p_send(&mut self, pdu: &Pdu) -> Result<(), (String, bool)> {
                self.send(pdu).map_err(|e| err_class(&e))
            }
            fn p_receive(&mut self) -> Result<Pdu, (String, bool)> {
                self.receive().map_err(|e| err_class(&e))
            }
            fn p_stream(&mut self, ctx: u8, payload: &[u8], chunks: &[usize]) -> Result<(), (String, bool)> {
                let mut w = self.send_pdata(ctx);
                let mut off = 0;
                for c in chunks {
                    if let Err(e) = w.write_all(&payload[off..off + c]) {
                        let t = matches!(e.kind(), std::io::ErrorKind::WouldBlock | std::io::ErrorKind::TimedOut);
                        return Err((format!("write_all/io:{:?}", e.kind()), t));
                    }
                    off += c;
                }
                w.finish().map_err(|e| {
                    let t = matches!(e.kind(), std::io::ErrorKind::WouldBlock | std::io::ErrorKind::TimedOut);
                    (format!("finish/io:{:?}", e.kind()), t)
                })
            }
            fn p_read_stream(&mut self) -> Result<Vec<u8>, (String, bool)> {
                let mut v = Vec::new();
                let mut r = self.receive_pdata();
                match r.read_to_end(&mut v) {
                    Ok(_) => Ok(v),
                    Err(e) => {
                        let t = matches!(e.kind(), std::io::ErrorKind::WouldBlock | std::io::ErrorKind::TimedOut);
                        Err((format!("read_to_end/io:{:?}", e.kind()), t))
                    }
                }
            }
            fn sock(&mut self) -> &mut TcpStream {
                self.inner_stream()
            }
        }
    };
}
impl_peer!(ClientAssociation<TcpStream>);
impl_peer!(ServerAssociation<TcpStream>);

fn payload_for(step: usize, n: usize) -> Vec<u8> {
    (0..n).map(|i| (i as u8).wrapping_mul(31).wrapping_add(step as u8)).collect()
}

/// Run the exchange script on one side. `peer_bound` = the maximum the *other* side announced on
/// the wire (what this side must respect when sending).
#[allow(clippy::too_many_arguments)]
fn exchange(
    me_client: bool,
    a: &mut dyn Peer,
    script: &[Msg],
    ctx: u8,
    peer_bound: u64,
    tx: &Sender<Note>,
    rx: &Receiver<Note>,
    log: &mut SideLog,
) {
    let who = if me_client { "requestor" } else { "acceptor" };
    for (i, m) in script.iter().enumerate() {
        let from_client = match m {
            Msg::Send { from_client, .. } | Msg::Stream { from_client, .. } => *from_client,
        };
        if from_client == me_client {
            // sender (stops if the receiving side has given up)
            if let Ok(Note::Stop) = rx.try_recv() {
                return;
            }
            match m {
                Msg::Send { data, .. } => {
                    let field = *data as u64 + 6; // PDV length(4) + ctx + control + data
                    let overlong = field > peer_bound;
                    let pdu = Pdu::PData {
                        data: vec![PDataValue { presentation_context_id: ctx, value_type: PDataValueType::Data, is_last: true, data: payload_for(i, *data) }],
                    };
                    let r = a.p_send(&pdu);
                    log.steps.push(json!({"step": i, "by": who, "op": "send", "pdu_length_field": field, "overlong": overlong, "result": format!("{:?}", r.as_ref().map_err(|e| &e.0))}));
                    match (&r, overlong) {
                        (Ok(()), true) => {
                            log.violations.push((
                                format!("exchange|{}|overlong-send-returned-ok", who),
                                format!("send of a P-DATA-TF PDU with PDU-length {} returned Ok although the peer announced a maximum of {}", field, peer_bound),
                            ));
                            let _ = tx.send(Note::Sent);
                        }
                        (Ok(()), false) => {
                            log.sent_ok += 1;
                            let _ = tx.send(Note::Sent);
                        }
                        (Err((e, _)), true) if e.starts_with("SendTooLongPdu") => {
                            log.refused_overlong += 1;
                            let _ = tx.send(Note::NotSent);
                        }
                        (Err((e, timeout)), _) => {
                            if *timeout {
                                log.inconclusive.push(format!("{} send timed out at step {}", who, i));
                            } else if e.starts_with("SendTooLongPdu") {
                                log.violations.push((
                                    format!("exchange|{}|legal-send-refused-as-too-long", who),
                                    format!("send of a PDU with PDU-length {} was refused as too long although the peer announced {}", field, peer_bound),
                                ));
                                let _ = tx.send(Note::NotSent);
                                continue;
                            } else {
                                log.violations.push((
                                    format!("exchange|{}|send-error|{}", who, e),
                                    format!("send of a PDU with PDU-length {} (peer maximum {}) failed: {}", field, peer_bound, e),
                                ));
                            }
                            let _ = tx.send(Note::Stop);
                            return;
                        }
                    }
                }
                Msg::Stream { chunks, .. } => {
                    let total: usize = chunks.iter().sum();
                    let payload = payload_for(i, total);
                    let r = a.p_stream(ctx, &payload, chunks);
                    log.steps.push(json!({"step": i, "by": who, "op": "send_pdata", "total": total, "chunks": chunks.len(), "result": format!("{:?}", r.as_ref().map_err(|e| &e.0))}));
                    match r {
                        Ok(()) => {
                            log.sent_ok += 1;
                            let _ = tx.send(Note::Sent);
                        }
                        Err((e, timeout)) => {
                            if timeout {
                                log.inconclusive.push(format!("{} send_pdata timed out at step {}", who, i));
                            } else {
                                log.violations.push((
                                    format!("exchange|{}|send_pdata-error|{}", who, e),
                                    format!("send_pdata of {} bytes in {} chunks failed: {}", total, chunks.len(), e),
                                ));
                            }
                            let _ = tx.send(Note::Stop);
                            return;
                        }
                    }
                }
            }
        } else {
            // receiver: wait for the sender's note
            let note = match rx.recv_timeout(STEP_WAIT) {
                Ok(n) => n,
                Err(RecvTimeoutError::Timeout) => {
                    log.inconclusive.push(format!("{} waited too long for the peer at step {}", who, i));
                    return;
                }
                Err(RecvTimeoutError::Disconnected) => return,
            };
            match note {
                Note::Stop => return,
                Note::NotSent => continue,
                Note::Sent => {}
            }
            match m {
                Msg::Send { data, .. } => match a.p_receive() {
                    Ok(Pdu::PData { data: d }) => {
                        let want = payload_for(i, *data);
                        if d.len() == 1 && d[0].data == want && d[0].presentation_context_id == ctx && d[0].is_last {
                            log.received_ok += 1;
                        } else {
                            log.violations.push((
                                format!("exchange|{}|received-pdu-differs", who),
                                format!("step {}: received P-DATA differs from what was sent ({} PDVs, first has {} bytes, sent {})", i, d.len(), d.first().map(|x| x.data.len()).unwrap_or(0), data),
                            ));
                            return;
                        }
                    }
                    Ok(other) => {
                        log.violations.push((
                            format!("exchange|{}|received-unexpected-pdu", who),
                            format!("step {}: received {} instead of the P-DATA-TF sent", i, other.short_description()).chars().take(200).collect(),
                        ));
                        return;
                    }
                    Err((e, timeout)) => {
                        if timeout {
                            log.inconclusive.push(format!("{} receive timed out at step {}", who, i));
                        } else {
                            log.violations.push((
                                format!("exchange|{}|receive-error|{}", who, e),
                                format!("step {}: receive of a P-DATA-TF PDU with PDU-length {} failed: {} (local maximum {})", i, data + 6, e, log.local_max),
                            ));
                        }
                        return;
                    }
                },
                Msg::Stream { chunks, .. } => {
                    let total: usize = chunks.iter().sum();
                    match a.p_read_stream() {
                        Ok(v) => {
                            if v == payload_for(i, total) {
                                log.received_ok += 1;
                            } else {
                                log.violations.push((
                                    format!("exchange|{}|received-stream-differs", who),
                                    format!("step {}: P-DATA stream of {} bytes arrived as {} bytes", i, total, v.len()),
                                ));
                                return;
                            }
                        }
                        Err((e, timeout)) => {
                            if timeout {
                                log.inconclusive.push(format!("{} receive_pdata timed out at step {}", who, i));
                            } else {
                                log.violations.push((
                                    format!("exchange|{}|receive_pdata-error|{}", who, e),
                                    format!("step {}: reading a P-DATA stream of {} bytes failed: {} (local maximum {})", i, total, e, log.local_max),
                                ));
                            }
                            return;
                        }
                    }
                }
            }
        }
    }
}

fn gen_script(rng: &mut Rng, bound_c2s: u64, bound_s2c: u64) -> Vec<Msg> {
    // bound_c2s: what the acceptor announced (limits requestor → acceptor), and vice versa
    let n = rng.urange(1, 30);
    let mut out = vec![];
    let mut budget: usize = 3_000_000; // bytes per scenario
    for _ in 0..n {
        let from_client = rng.bool();
        let b = if from_client { bound_c2s } else { bound_s2c };
        let near = b <= 300_000;
        if rng.chance(3, 5) {
            // PDU-length field = data + 6
            let data = if near {
                let b = b as usize;
                match rng.below(8) {
                    0 => b - 6,      // exactly the maximum
                    1 => b - 7,      // one below
                    2 => b - 5,      // one above: over-long
                    3 => b - 4,
                    4 => b,          // over-long by 6 (the header size)
                    5 => b + rng.urange(1, 2000),
                    6 => rng.usize(b - 5),
                    _ => rng.usize(64),
                }
            } else {
                match rng.below(4) {
                    0 => rng.usize(64),
                    1 => rng.urange(32_000, 34_000),
                    2 => rng.urange(0, 200_000),
                    _ => 1012,
                }
            };
            if data > budget {
                continue;
            }
            budget -= data;
            out.push(Msg::Send { from_client, data });
        } else {
            let true_cap = if b == u64::MAX { usize::MAX } else { (b - 6) as usize };
            let cap = if near { b as usize - 6 } else { 65_536 };
            let k = rng.usize(4);
            let d = *rng.pick(&[-2i64, -1, 0, 1, 2, 7]);
            let total = if rng.chance(1, 5) { rng.usize(3 * cap.min(100_000)) } else { ((k * cap) as i64 + d).max(0) as usize };
            let total = total.min(400_000);
            if total > budget {
                continue;
            }
            budget -= total;
            // chunk ends on / before / after PDU boundaries and random ones; a chunk that ends
            // exactly on a boundary with more data to follow triggers the C26 finding (WriteZero),
            // which is not what this property is about: such cuts are moved by one byte
            let mut cuts: BTreeSet<usize> = BTreeSet::new();
            for j in 1..=(total / cap.max(1)) {
                match rng.below(4) {
                    0 => {
                        cuts.insert(j * cap + 1);
                    }
                    1 => {
                        cuts.insert(j * cap - 1);
                    }
                    _ => {}
                }
            }
            for _ in 0..rng.usize(4) {
                if total > 1 {
                    cuts.insert(1 + rng.usize(total - 1));
                }
            }
            let mut chunks = vec![];
            let mut prev = 0;
            for c in cuts {
                let c = if c % true_cap == 0 { c + 1 } else { c };
                if c > prev && c < total {
                    chunks.push(c - prev);
                    prev = c;
                }
            }
            if total > prev || total == 0 {
                chunks.push(total - prev);
            }
            out.push(Msg::Stream { from_client, chunks });
        }
    }
    out
}

// ---- one scenario --------------------------------------------------------------------------------

struct ServerOut {
    log: SideLog,
}

#[allow(clippy::too_many_arguments)]
fn server_side<A: AccessControl, N: Negotiation>(
    opts: ServerAssociationOptions<'static, A, N>,
    lst: Listener,
    script_rx: Receiver<Option<(Vec<Msg>, u8, u64)>>,
    tx: Sender<Note>,
    rx: Receiver<Note>,
    est_tx: Sender<()>,
    done_rx: Receiver<()>,
) -> ServerOut {
    let mut log = SideLog::default();
    let sock = match lst.accept(Duration::from_secs(15)) {
        Ok(s) => s,
        Err(e) => {
            log.inconclusive.push(format!("acceptor accept: {}", e.kind()));
            let _ = est_tx.send(());
            return ServerOut { log };
        }
    };
    let r = opts.establish(sock);
    match r {
        Err(e) => {
            let (c, t) = err_class(&e);
            log.establish = Some(Err(c));
            log.establish_timeout = t;
            let _ = est_tx.send(());
            ServerOut { log }
        }
        Ok(mut assoc) => {
            // the library leaves Nagle's algorithm on; switching it off only removes 40 ms stalls
            let _ = assoc.sock().set_nodelay(true);
            log.establish = Some(Ok(()));
            log.local_max = assoc.acceptor_max_pdu_length();
            log.peer_max = assoc.requestor_max_pdu_length();
            log.accepted = assoc
                .presentation_contexts()
                .iter()
                .filter(|c| c.reason == PresentationContextResultReason::Acceptance)
                .map(|c| (c.id, trim_uid(&c.abstract_syntax).to_string(), trim_uid(&c.transfer_syntax).to_string()))
                .collect();
            let _ = est_tx.send(());
            // wait for the coordinator's decision (script or stop)
            if let Ok(Some((script, ctx, peer_bound))) = script_rx.recv_timeout(STEP_WAIT) {
                exchange(false, &mut assoc, &script, ctx, peer_bound, &tx, &rx, &mut log);
                // release initiated by the requestor
                if log.violations.is_empty() && log.inconclusive.is_empty() {
                    if let Ok(Note::Sent) = rx.recv_timeout(STEP_WAIT) {
                        match assoc.p_receive() {
                            Ok(Pdu::ReleaseRQ) => {
                                log.released = Some(assoc.p_send(&Pdu::ReleaseRP).is_ok());
                            }
                            _ => log.released = Some(false),
                        }
                    }
                }
            }
            // keep the socket open until the requestor has closed its end (the side that closes
            // second leaves no TIME_WAIT behind)
            let _ = done_rx.recv_timeout(Duration::from_secs(5));
            drop(assoc);
            ServerOut { log }
        }
    }
}

fn client_opts(c: &ClientCfg) -> ClientAssociationOptions<'static> {
    let mut o = ClientAssociationOptions::new()
        .calling_ae_title(c.calling.clone())
        .max_pdu_length(c.max_pdu)
        .strict(c.strict)
        .read_timeout(IO_TIMEOUT)
        .write_timeout(IO_TIMEOUT)
        .connection_timeout(IO_TIMEOUT);
    if let Some(cd) = &c.called {
        o = o.called_ae_title(cd.clone());
    }
    for (a, ts) in &c.contexts {
        o = o.with_presentation_context(a.clone(), ts.clone());
    }
    for (s, scu, scp) in &c.roles {
        o = o.with_role_selection(s.clone(), *scu, *scp);
    }
    for (s, d) in &c.ext {
        o = o.with_extended_negotiation(s.clone(), d.clone());
    }
    o
}

fn spawn_server(
    s: &ServerCfg,
    lst: Listener,
    script_rx: Receiver<Option<(Vec<Msg>, u8, u64)>>,
    tx: Sender<Note>,
    rx: Receiver<Note>,
    est_tx: Sender<()>,
    done_rx: Receiver<()>,
) -> std::thread::JoinHandle<ServerOut> {
    let s = s.clone();
    std::thread::spawn(move || {
        let mut o = ServerAssociationOptions::new()
            .ae_title(s.ae_title.clone())
            .promiscuous(s.promiscuous)
            .strict(s.strict)
            .max_pdu_length(s.max_pdu)
            .read_timeout(IO_TIMEOUT)
            .write_timeout(IO_TIMEOUT);
        for a in &s.abstract_syntaxes {
            o = o.with_abstract_syntax(a.clone());
        }
        for t in &s.transfer_syntaxes {
            o = o.with_transfer_syntax(t.clone());
        }
        match (s.called_ae_only, s.custom_negotiation) {
            (false, false) => server_side::<AcceptAny, DefaultNegotiation>(o, lst, script_rx, tx, rx, est_tx, done_rx),
            (true, false) => server_side::<AcceptCalledAeTitle, DefaultNegotiation>(o.accept_called_ae_title(), lst, script_rx, tx, rx, est_tx, done_rx),
            (false, true) => server_side(o.with_negotiation(EchoNegotiation), lst, script_rx, tx, rx, est_tx, done_rx),
            (true, true) => server_side(o.accept_called_ae_title().with_negotiation(EchoNegotiation), lst, script_rx, tx, rx, est_tx, done_rx),
        }
    })
}

fn max_class(v: u32) -> &'static str {
    match v {
        0 => "0",
        1..=1017 => "below-min",
        1018 => "min",
        1019 => "min+1",
        32_762 => "default",
        MAXIMUM => "maximum",
        v if v > MAXIMUM => "above-maximum",
        v if v >= 65_536 => "large",
        _ => "mid",
    }
}

fn scenario(l: &mut Local, rng: &mut Rng, cfg: &Cfg, idx: u64) {
    let c = gen_client(rng);
    let s = gen_server(rng);
    let replay = json!({
        "seed": cfg.seed, "stream": 1, "case": idx,
        "requestor": {"contexts": c.contexts.len(), "first_contexts": c.contexts.iter().take(4).collect::<Vec<_>>(), "max_pdu_length": c.max_pdu, "strict": c.strict,
                      "calling": c.calling, "called": c.called, "role_items": c.roles.len(), "extended_items": c.ext.len()},
        "acceptor": {"abstract_syntaxes": s.abstract_syntaxes, "transfer_syntaxes": s.transfer_syntaxes, "promiscuous": s.promiscuous,
                     "max_pdu_length": s.max_pdu, "strict": s.strict, "accept_called_ae_title": s.called_ae_only, "custom_negotiation": s.custom_negotiation},
    });
    l.eval();
    l.class(format!("cfg|rq-max:{}|ac-max:{}|strict{}{}", max_class(c.max_pdu), max_class(s.max_pdu), c.strict as u8, s.strict as u8));
    l.class(format!(
        "ctxs|{}|prom{}|tscfg{}|roles{}|ext{}",
        match c.contexts.len() { 0 => "0", 1 => "1", 2..=4 => "2-4", 5..=40 => "5-40", 41..=127 => "41-127", _ => "128" },
        s.promiscuous as u8, (!s.transfer_syntaxes.is_empty()) as u8, (!c.roles.is_empty()) as u8, (!c.ext.is_empty()) as u8
    ));

    // locally invalid configurations: refused by the library before any PDU semantics apply
    let c_invalid = c.contexts.is_empty() || (1..MIN).contains(&c.max_pdu);
    let s_invalid = (s.abstract_syntaxes.is_empty() && !s.promiscuous) || (1..MIN).contains(&s.max_pdu);

    if c.contexts.is_empty() {
        // refused before anything is sent (presentation contexts "represent intent")
        l.count("skipped_locally_invalid_configuration", 1);
        l.count("skipped:requestor-without-contexts", 1);
        let lst = match Listener::new() {
            Ok(x) => x,
            Err(_) => return,
        };
        match client_opts(&c).establish(lst.addr) {
            Err(e) if err_class(&e).0.starts_with("MissingAbstractSyntax") => {}
            other => l.violation(
                "rq|no-contexts-not-refused-locally",
                format!("a requestor without presentation contexts was not refused locally: {:?}", other.map(|_| "Ok").map_err(|e| err_class(&e).0)),
                replay.clone(),
            ),
        }
        return;
    }
    let lst = match Listener::new() {
        Ok(x) => x,
        Err(e) => {
            l.count("inconclusive_scenarios", 1);
            l.note(format!("listen failed: {}", e.kind()));
            return;
        }
    };
    let server_addr: SocketAddr = lst.addr;
    let proxy = match Proxy::start(server_addr, Duration::from_secs(120)) {
        Ok(p) => p,
        Err(e) => {
            l.count("inconclusive_scenarios", 1);
            l.note(format!("proxy failed: {}", e.kind()));
            return;
        }
    };
    let (c2s_tx, c2s_rx) = channel::<Note>();
    let (s2c_tx, s2c_rx) = channel::<Note>();
    let (script_tx, script_rx) = channel::<Option<(Vec<Msg>, u8, u64)>>();
    let (est_tx, est_rx) = channel::<()>();
    let (done_tx, done_rx) = channel::<()>();
    let server = spawn_server(&s, lst, script_rx, s2c_tx, c2s_rx, est_tx, done_rx);

    // requestor on this thread
    let mut clog = SideLog::default();
    let cres = client_opts(&c).establish(proxy.addr);
    let mut cassoc = match cres {
        Ok(mut a) => {
            let _ = a.sock().set_nodelay(true);
            clog.establish = Some(Ok(()));
            clog.local_max = a.requestor_max_pdu_length();
            clog.peer_max = a.acceptor_max_pdu_length();
            clog.accepted = a
                .presentation_contexts()
                .iter()
                .map(|c| (c.id, trim_uid(&c.abstract_syntax).to_string(), trim_uid(&c.transfer_syntax).to_string()))
                .collect();
            Some(a)
        }
        Err(e) => {
            let (cl, t) = err_class(&e);
            clog.establish = Some(Err(cl));
            clog.establish_timeout = t;
            None
        }
    };
    // wait until the acceptor has returned from establish as well
    let est_seen = est_rx.recv_timeout(Duration::from_secs(30)).is_ok();

    // what went over the wire so far (the requestor has returned, so its request has been written;
    // give the proxy a moment to have seen it even if the acceptor failed without reading)
    let snapshot = |pdus: &[SeenPdu]| {
        let rq = pdus.iter().find(|p| p.from_requestor && p.ptype == 0x01).map(|p| (parse_assoc_body(&p.body, false), p.len));
        let ac = pdus.iter().find(|p| !p.from_requestor && p.ptype == 0x02).map(|p| (parse_assoc_body(&p.body, true), p.len));
        let rj = pdus.iter().any(|p| !p.from_requestor && p.ptype == 0x03);
        (rq, ac, rj)
    };
    let (rq, ac, _) = {
        let t0 = std::time::Instant::now();
        loop {
            let snap = snapshot(&proxy.log.lock().unwrap().pdus);
            if snap.0.is_some() || t0.elapsed() > Duration::from_secs(3) {
                break snap;
            }
            std::thread::sleep(Duration::from_millis(1));
        }
    };

    let mut viol: Vec<(String, String)> = vec![];
    let mut inconclusive: Vec<String> = vec![];
    if !est_seen {
        inconclusive.push("acceptor did not report back in time".into());
    }
    if clog.establish_timeout {
        inconclusive.push("requestor establish timed out".into());
    }

    // (1) request: distinct odd context ids, one per configured context, announced maximum = configured
    let foreign = rq.as_ref().map(|(rqw, _)| rqw.malformed.is_none() && rqw.calling != c.calling).unwrap_or(false);
    if foreign {
        inconclusive.push("the request seen by the proxy does not carry this case's calling AE title (foreign connection)".into());
        l.count("foreign_connections", 1);
    }
    if let Some((rqw, _)) = rq.as_ref().filter(|_| !foreign) {
        l.count("requests_seen_on_wire", 1);
        if let Some(m) = rqw.malformed {
            viol.push(("rq|malformed".into(), format!("A-ASSOCIATE-RQ on the wire is malformed: {}", m)));
        }
        let ids: Vec<u8> = rqw.contexts.iter().map(|x| x.0).collect();
        let set: BTreeSet<u8> = ids.iter().cloned().collect();
        if set.len() != ids.len() {
            viol.push(("rq|duplicate-context-ids".into(), format!("presentation context ids are not distinct: {:?}", ids.iter().take(20).collect::<Vec<_>>())));
        }
        if ids.iter().any(|i| i % 2 == 0) {
            viol.push(("rq|even-context-id".into(), format!("an even presentation context id was proposed: {:?}", ids.iter().take(20).collect::<Vec<_>>())));
        }
        if ids.len() != c.contexts.len() {
            viol.push(("rq|context-count".into(), format!("{} contexts proposed on the wire, {} configured", ids.len(), c.contexts.len())));
        }
        if rqw.max_len != Some(c.max_pdu.min(MAXIMUM)) {
            viol.push(("rq|announced-max".into(), format!("MaxLength item {:?} on the wire, configured {}", rqw.max_len, c.max_pdu)));
        }
    } else {
        inconclusive.push("no request seen by the proxy".into());
    }

    let sjoin = |server: std::thread::JoinHandle<ServerOut>, script: Option<(Vec<Msg>, u8, u64)>| -> Option<ServerOut> {
        let _ = script_tx.send(script);
        server.join().ok()
    };

    if c_invalid || s_invalid {
        // skipped and counted; nothing else is judged
        l.count("skipped_locally_invalid_configuration", 1);
        l.count(&format!("skipped:{}", if c_invalid { "requestor" } else { "acceptor" }), 1);
        drop(cassoc.take());
        let _ = done_tx.send(());
        let _ = sjoin(server, None);
        let _ = proxy.finish();
        for (k, w) in viol {
            l.violation(k, w, replay.clone());
        }
        return;
    }

    // (2) establishment outcomes
    let c_ok = matches!(clog.establish, Some(Ok(())));
    // the acceptor's log arrives when its thread ends; decide the script first from the wire
    let accepted_on_wire: Vec<(u8, String, String)> = match (&rq, &ac) {
        (Some((rqw, _)), Some((acw, _))) => acw
            .contexts
            .iter()
            .filter(|x| x.3 == 0)
            .map(|x| {
                let asx = rqw.contexts.iter().find(|r| r.0 == x.0).map(|r| r.1.clone()).unwrap_or_default();
                (x.0, trim_uid(&asx).to_string(), trim_uid(x.2.first().map(|s| s.as_str()).unwrap_or("")).to_string())
            })
            .collect(),
        _ => vec![],
    };
    let bound_c2s = bound(ac.as_ref().and_then(|a| a.0.max_len)); // what the acceptor announced
    let bound_s2c = bound(rq.as_ref().and_then(|r| r.0.max_len)); // what the requestor announced
    let script = if c_ok && ac.is_some() && !accepted_on_wire.is_empty() {
        Some((gen_script(rng, bound_c2s, bound_s2c), accepted_on_wire[0].0, bound_s2c))
    } else {
        None
    };
    // hand the script to the acceptor and run our side
    let _ = script_tx.send(script.clone());
    if let (Some(a), Some((sc, ctx, _))) = (cassoc.as_mut(), &script) {
        exchange(true, a, sc, *ctx, bound_c2s, &c2s_tx, &s2c_rx, &mut clog);
    }
    // release
    if let Some(a) = cassoc.take() {
        if script.is_some() && clog.violations.is_empty() && clog.inconclusive.is_empty() {
            let _ = c2s_tx.send(Note::Sent);
            match a.release() {
                Ok(()) => clog.released = Some(true),
                Err(e) => {
                    let (cl, t) = err_class(&e);
                    if t {
                        clog.inconclusive.push("release timed out".into());
                    }
                    clog.released = Some(false);
                    clog.steps.push(json!({"release_error": cl}));
                }
            }
        } else {
            let _ = c2s_tx.send(Note::Stop);
            let _ = a.abort();
        }
    }
    let _ = done_tx.send(());
    let sout = server.join().ok();
    let plog = proxy.finish();
    let slog = match sout {
        Some(s) => s.log,
        None => {
            l.violation("harness|acceptor-thread-panicked", "the acceptor thread panicked", replay.clone());
            return;
        }
    };
    inconclusive.extend(clog.inconclusive.iter().cloned());
    inconclusive.extend(slog.inconclusive.iter().cloned());
    if slog.establish_timeout {
        inconclusive.push("acceptor establish timed out".into());
    }
    if !plog.errors.is_empty() {
        // forwarding errors are normal when a side closes early; only noted
        l.count("proxy_forward_errors", plog.errors.len() as u64);
    }

    let s_ok = matches!(slog.establish, Some(Ok(())));
    // final view of the association PDUs (an answer may have arrived after the requestor gave up)
    let (_, ac_final, rj) = snapshot(&plog.pdus);
    let ac = if ac.is_some() { ac } else { ac_final };
    let accepted_on_wire: Vec<(u8, String, String)> = if !accepted_on_wire.is_empty() {
        accepted_on_wire
    } else {
        match (&rq, &ac) {
            (Some((rqw, _)), Some((acw, _))) => acw
                .contexts
                .iter()
                .filter(|x| x.3 == 0)
                .map(|x| {
                    let asx = rqw.contexts.iter().find(|r| r.0 == x.0).map(|r| r.1.clone()).unwrap_or_default();
                    (x.0, trim_uid(&asx).to_string(), trim_uid(x.2.first().map(|s| s.as_str()).unwrap_or("")).to_string())
                })
                .collect(),
            _ => vec![],
        }
    };
    let rq_len = rq.as_ref().map(|r| r.1).unwrap_or(0);
    let ac_len = ac.as_ref().map(|a| a.1).unwrap_or(0);
    let est_class = format!(
        "requestor={}|acceptor={}",
        match &clog.establish { Some(Ok(())) => "ok".to_string(), Some(Err(e)) => e.clone(), None => "none".into() },
        match &slog.establish { Some(Ok(())) => "ok".to_string(), Some(Err(e)) => e.clone(), None => "none".into() }
    );
    l.class(format!("establish|{}", est_class));
    l.count("loopback_associations_attempted", 1);

    if inconclusive.is_empty() {
        let nothing_accepted = ac.is_some() && accepted_on_wire.is_empty();
        match (c_ok, s_ok) {
            (true, true) => {
                l.count("associations_established_both_sides", 1);
                // same accepted contexts (id, abstract syntax, transfer syntax)
                let cs: BTreeSet<_> = clog.accepted.iter().cloned().collect();
                let ss: BTreeSet<_> = slog.accepted.iter().cloned().collect();
                let ws: BTreeSet<_> = accepted_on_wire.iter().cloned().collect();
                l.count("contexts_accepted", cs.len() as u64);
                if cs != ss {
                    viol.push((
                        "agree|accepted-contexts-differ".into(),
                        format!("requestor sees {:?}, acceptor sees {:?}", cs.iter().take(6).collect::<Vec<_>>(), ss.iter().take(6).collect::<Vec<_>>()),
                    ));
                } else if cs != ws {
                    viol.push((
                        "agree|accepted-contexts-differ-from-wire".into(),
                        format!("association objects see {:?}, the A-ASSOCIATE-AC says {:?}", cs.iter().take(6).collect::<Vec<_>>(), ws.iter().take(6).collect::<Vec<_>>()),
                    ));
                }
                if cs.is_empty() {
                    viol.push(("agree|requestor-ok-with-nothing-accepted".into(), "the requestor reports success although no presentation context was accepted".into()));
                }
                // each other's maximum PDU lengths (0 on the wire = no limit = the library maximum)
                let norm = |v: u32| if v == 0 { MAXIMUM } else { v.min(MAXIMUM) };
                if clog.peer_max != norm(s.max_pdu.min(MAXIMUM)) || clog.peer_max != norm(slog.local_max) {
                    viol.push((
                        format!("agree|requestor-view-of-acceptor-max|acceptor-max={}", max_class(s.max_pdu)),
                        format!("requestor thinks the acceptor's maximum is {}, the acceptor was configured with {} (reports {})", clog.peer_max, s.max_pdu, slog.local_max),
                    ));
                }
                if slog.peer_max != norm(c.max_pdu.min(MAXIMUM)) || slog.peer_max != norm(clog.local_max) {
                    viol.push((
                        format!("agree|acceptor-view-of-requestor-max|requestor-max={}", max_class(c.max_pdu)),
                        format!("acceptor thinks the requestor's maximum is {}, the requestor was configured with {} (reports {})", slog.peer_max, c.max_pdu, clog.local_max),
                    ));
                }
            }
            (false, true) => {
                if nothing_accepted {
                    l.count("requestor_failed_nothing_accepted", 1);
                    if clog.establish != Some(Err("NoAcceptedPresentationContexts".into())) {
                        l.count("requestor_failed_nothing_accepted_other_error", 1);
                    }
                } else {
                    // acceptor believes the association is up, requestor failed
                    let why = if c.max_pdu == 0 {
                        "requestor-local-max=0".to_string()
                    } else if c.strict && ac_len > c.max_pdu {
                        "ac-longer-than-requestor-max|strict".to_string()
                    } else {
                        "other".to_string()
                    };
                    viol.push((
                        format!("establish|requestor-failed|acceptor-established|{}", why),
                        format!(
                            "the acceptor established the association ({} contexts accepted on the wire, A-ASSOCIATE-AC PDU-length {}) but the requestor failed with {:?} (requestor max_pdu_length {}, strict {})",
                            accepted_on_wire.len(), ac_len, clog.establish, c.max_pdu, c.strict
                        ),
                    ));
                }
            }
            (true, false) => {
                viol.push((
                    "establish|requestor-established|acceptor-failed".into(),
                    format!("the requestor reports an association but the acceptor failed with {:?}", slog.establish),
                ));
            }
            (false, false) => {
                if rj {
                    l.count("associations_rejected", 1);
                } else if s.max_pdu == 0 {
                    viol.push((
                        "establish|acceptor-local-max=0|acceptor-failed-without-answer".into(),
                        format!("acceptor configured with max_pdu_length(0) failed with {:?} without answering; requestor got {:?}", slog.establish, clog.establish),
                    ));
                } else if s.strict && rq_len > s.max_pdu {
                    // the acceptor applies its own P-DATA maximum to the A-ASSOCIATE-RQ (reported under C28)
                    l.count("acceptor_dropped_rq_longer_than_its_max_pdu_strict", 1);
                } else {
                    viol.push((
                        "establish|both-failed-without-rejection".into(),
                        format!("both sides failed without an A-ASSOCIATE-RJ: requestor {:?}, acceptor {:?} (RQ PDU-length {}, acceptor max {}, strict {})", clog.establish, slog.establish, rq_len, s.max_pdu, s.strict),
                    ));
                }
            }
        }
    }

    // (3) the exchange: nothing on the wire may exceed what the receiver announced
    if script.is_some() {
        let mut after_ac = false;
        let mut worst: BTreeMap<bool, (u32, u64)> = BTreeMap::new();
        for p in &plog.pdus {
            if p.ptype == 0x02 {
                after_ac = true;
                continue;
            }
            if !after_ac || p.ptype == 0x01 {
                continue;
            }
            let b = if p.from_requestor { bound_c2s } else { bound_s2c };
            l.count("pdus_checked_against_peer_maximum", 1);
            if p.ptype == 0x04 {
                l.count("pdata_pdus_on_wire", 1);
                if p.len as u64 == b {
                    l.count("pdata_pdus_exactly_at_peer_maximum", 1);
                }
            }
            if (p.len as u64) > b {
                let e = worst.entry(p.from_requestor).or_insert((0, b));
                if p.len > e.0 {
                    *e = (p.len, b);
                }
            }
        }
        for (from_req, (len, b)) in worst {
            viol.push((
                format!("exchange|{}|pdu-on-wire-exceeds-peer-maximum", if from_req { "requestor" } else { "acceptor" }),
                format!("a PDU with PDU-length {} went over the wire although the receiver announced a maximum of {}", len, b),
            ));
        }
        l.count("messages_sent_ok", clog.sent_ok + slog.sent_ok);
        l.count("messages_received_ok", clog.received_ok + slog.received_ok);
        l.count("overlong_sends_refused_locally", clog.refused_overlong + slog.refused_overlong);
        if clog.released == Some(true) && slog.released == Some(true) {
            l.count("associations_released", 1);
        }
        l.count("exchanges_run", 1);
    }
    viol.extend(clog.violations.iter().cloned());
    viol.extend(slog.violations.iter().cloned());

    if !inconclusive.is_empty() {
        l.count("inconclusive_scenarios", 1);
        l.note(format!("inconclusive scenario: {}", inconclusive[0]));
        // definitive wire observations are still reported
        viol.retain(|(k, _)| !foreign && (k.starts_with("rq|") || k.contains("pdu-on-wire-exceeds")));
    }
    let mut rp = replay.clone();
    rp["establish"] = json!(est_class);
    rp["wire"] = json!({
        "rq_pdu_length": rq_len, "ac_pdu_length": ac_len, "rejected": rj,
        "rq_announced_max": rq.as_ref().and_then(|r| r.0.max_len), "ac_announced_max": ac.as_ref().and_then(|a| a.0.max_len),
        "accepted_on_wire": accepted_on_wire.iter().take(6).collect::<Vec<_>>(),
        "pdus_seen": plog.pdus.len(),
    });
    rp["requestor_steps"] = json!(clog.steps.iter().rev().take(4).collect::<Vec<_>>());
    rp["acceptor_steps"] = json!(slog.steps.iter().rev().take(4).collect::<Vec<_>>());
    if l.want_sample() && c_ok && s_ok && idx % 37 == 0 {
        l.sample(json!({"case": idx, "requestor_max": c.max_pdu, "acceptor_max": s.max_pdu, "accepted": clog.accepted.iter().take(3).collect::<Vec<_>>(),
                        "script_len": script.as_ref().map(|s| s.0.len()), "pdus_on_wire": plog.pdus.len(), "sent_ok": clog.sent_ok + slog.sent_ok,
                        "overlong_refused": clog.refused_overlong + slog.refused_overlong}));
    }
    for (k, w) in viol {
        l.violation(k, w, rp.clone());
    }
}

pub fn run(cfg: &Cfg) -> Outcome {
    let n = cfg.n(5_000, 60_000);
    let local = run_parallel(
        cfg,
        1,
        RunLimits { cases: n, wall: Duration::from_secs(if cfg.thorough() { 800 } else { 50 }) },
        |l, rng, idx| scenario(l, rng, cfg, idx),
    );
    let mut o = Outcome::new(
        local,
        "random ClientAssociationOptions x ServerAssociationOptions (0-128 contexts over 6 abstract / 6 transfer syntaxes incl. unknown and NUL-padded UIDs, max PDU in {1018,1019,4096,16384,32762,65536,131072,maximum,>maximum,0,random,<1018}, strict on/off, AE access control, role-selection and extended-negotiation items with default or echoing negotiation) over loopback TCP through a recording proxy; checked: distinct odd context ids and announced maximum in the A-ASSOCIATE-RQ (own parser), accepted contexts (id, abstract syntax, transfer syntax) equal on both association objects and on the wire, peer/local maximum mirrored, requestor fails iff nothing accepted, then <=30 messages (send / send_pdata, both directions, sizes at/around the announced maxima): no PDU-length on the wire above the receiver's announced maximum, over-long send refused locally, legal ones delivered intact; locally invalid configurations (no contexts, maximum 1..1017) skipped and counted; timeouts make a scenario inconclusive",
    );
    if cfg.only_case.is_none() {
        o.min_evaluations = 300;
        o.min_classes = 40;
        let both = o.local.counters.get("associations_established_both_sides").copied().unwrap_or(0);
        let inc = o.local.counters.get("inconclusive_scenarios").copied().unwrap_or(0);
        if both < 100 {
            o.inconclusive = Some(format!("only {} associations were established on both sides (floor 100)", both));
        } else if inc * 5 > o.local.evaluations {
            o.inconclusive = Some(format!("{} of {} scenarios were inconclusive (timeouts)", inc, o.local.evaluations));
        }
    }
    o
}
