use crate::report::{Cfg, Outcome};

pub mod c01;

pub fn dispatch(cfg: &Cfg) -> Option<Outcome> {
    Some(match cfg.prop.as_str() {
        "C01" => c01::run(cfg),
        _ => return None,
    })
}
