use crate::report::{Cfg, Outcome};

pub mod c01;
pub mod c26;
pub mod c28;
pub mod c29;

pub fn dispatch(cfg: &Cfg) -> Option<Outcome> {
    Some(match cfg.prop.as_str() {
        "C01" => c01::run(cfg),
        "C26" => c26::run(cfg),
        "C28" => c28::run(cfg),
        "C29" => c29::run(cfg),
        _ => return None,
    })
}
