use crate::report::{Cfg, Outcome};

pub mod c01;
pub mod c02;
pub mod c03;
pub mod c04;
pub mod c05;
pub mod c06;
pub mod c07;
pub mod c08;
pub mod c09;
pub mod c10;
pub mod c13;
pub mod c23;
pub mod c31;
pub mod c34;
pub mod c26;
pub mod c28;
pub mod c29;
pub mod c25;
pub mod c27;
pub mod c36;
pub mod c11;
pub mod c12;
pub mod c14;
pub mod c15;
pub mod c16;
pub mod c16core;
pub mod c17;
pub mod c18;
pub mod c19;
pub mod c20;
pub mod c21;
pub mod c22;
pub mod c32;
pub mod c33;
pub mod c35;

pub fn dispatch(cfg: &Cfg) -> Option<Outcome> {
    Some(match cfg.prop.as_str() {
        "C01" => c01::run(cfg),
        "C02" => c02::run(cfg),
        "C03" => c03::run(cfg),
        "C04" => c04::run(cfg),
        "C05" => c05::run(cfg),
        "C06" => c06::run(cfg),
        "C07" => c07::run(cfg),
        "C08" => c08::run(cfg),
        "C09" => c09::run(cfg),
        "C10" => c10::run(cfg),
        "C13" => c13::run(cfg),
        "C23" | "C24" => c23::run(cfg),
        "C31" => c31::run(cfg),
        "C34" => c34::run(cfg),
        "C26" => c26::run(cfg),
        "C28" => c28::run(cfg),
        "C29" => c29::run(cfg),
        "C25" => c25::run(cfg),
        "C27" => c27::run(cfg),
        "C36" => c36::run(cfg),
        "C11" => c11::run(cfg),
        "C12" => c12::run(cfg),
        "C14" => c14::run(cfg),
        "C15" => c15::run(cfg),
        "C16" => c16::run(cfg),
        "C17" => c17::run(cfg),
        "C18" => c18::run(cfg),
        "C19" => c19::run(cfg),
        "C20" => c20::run(cfg),
        "C21" => c21::run(cfg),
        "C22" => c22::run(cfg),
        "C32" => c32::run(cfg),
        "C33" => c33::run(cfg),
        "C35" => c35::run(cfg),
        _ => return None,
    })
}
