use crate::report::{Cfg, Outcome};

pub mod c01;
pub mod c11;
pub mod c12;
pub mod c14;
pub mod c15;
pub mod c16;
pub mod c16core;
pub mod c17;

pub fn dispatch(cfg: &Cfg) -> Option<Outcome> {
    Some(match cfg.prop.as_str() {
        "C01" => c01::run(cfg),
        "C11" => c11::run(cfg),
        "C12" => c12::run(cfg),
        "C14" => c14::run(cfg),
        "C15" => c15::run(cfg),
        "C16" => c16::run(cfg),
        "C17" => c17::run(cfg),
        _ => return None,
    })
}
