use crate::report::{Cfg, Outcome};

pub mod c01;
pub mod c25;
pub mod c27;
pub mod c36;

pub fn dispatch(cfg: &Cfg) -> Option<Outcome> {
    Some(match cfg.prop.as_str() {
        "C01" => c01::run(cfg),
        "C25" => c25::run(cfg),
        "C27" => c27::run(cfg),
        "C36" => c36::run(cfg),
        _ => return None,
    })
}
