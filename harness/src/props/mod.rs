use crate::report::{Cfg, Outcome};

pub mod c01;
pub mod c18;
pub mod c19;
pub mod c20;
pub mod c21;
pub mod c22;

pub fn dispatch(cfg: &Cfg) -> Option<Outcome> {
    Some(match cfg.prop.as_str() {
        "C01" => c01::run(cfg),
        "C18" => c18::run(cfg),
        "C19" => c19::run(cfg),
        "C20" => c20::run(cfg),
        "C21" => c21::run(cfg),
        "C22" => c22::run(cfg),
        _ => return None,
    })
}
