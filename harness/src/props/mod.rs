use crate::report::{Cfg, Outcome};

pub mod c01;
pub mod c32;
pub mod c33;
pub mod c35;

pub fn dispatch(cfg: &Cfg) -> Option<Outcome> {
    Some(match cfg.prop.as_str() {
        "C01" => c01::run(cfg),
        "C32" => c32::run(cfg),
        "C33" => c33::run(cfg),
        "C35" => c35::run(cfg),
        _ => return None,
    })
}
