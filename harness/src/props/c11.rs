//! C11 — numeric value conversions are exact or fail; multi-valued conversions give one result
//! per stored item; extend_* / truncate histories agree with a list model.
//!
//! Oracles (all written here, nothing shared with dicom-core):
//! * integers: every stored item is mapped to an exact `i128` (integer variants) or parsed by an
//!   exact decimal parser after trimming spaces and NULs (text variants); the expected result for
//!   a target type is `Ok(v)` iff `min <= v <= max`, `Err` otherwise. Where the documentation
//!   leaves the outcome open the model holds a set (`-0` into an unsigned type, decimal/exponent
//!   notation of an integral number, float variants, white space other than space/NUL).
//! * floats: integer items → language-level `as` cast; text items → the result must be a nearest
//!   float of the exact decimal value (checked with a small big-integer routine).
//! * histories: a `Vec` model with the documented rules (text ⇒ appended as text, numbers ⇒ cast
//!   to the current numeric type, empty ⇒ takes the type of the appended numbers, tags/dates ⇒
//!   error and unchanged; truncate removes trailing items).

use crate::report::*;
use crate::rng::Rng;
use dicom_core::header::EmptyObject;
use dicom_core::value::{DicomDate, DicomDateTime, DicomTime, PrimitiveValue, Value, C};
use dicom_core::{DataElement, Tag, VR};
use num_traits::NumCast;
use serde_json::{json, Value as J};
use std::cmp::Ordering;
use std::str::FromStr;
use std::time::Duration;

type Val = Value<EmptyObject, Vec<u8>>;
type Elem = DataElement<EmptyObject, Vec<u8>>;

// ------------------------------------------------------------------------------------------
// minimal big unsigned integer (little-endian u32 limbs)

#[derive(Clone, Debug, PartialEq, Eq)]
struct Big(Vec<u32>);

impl Big {
    fn zero() -> Big {
        Big(vec![])
    }
    fn from_u64(v: u64) -> Big {
        let mut b = Big(vec![v as u32, (v >> 32) as u32]);
        b.norm();
        b
    }
    fn norm(&mut self) {
        while self.0.last() == Some(&0) {
            self.0.pop();
        }
    }
    fn is_zero(&self) -> bool {
        self.0.is_empty()
    }
    fn mul_small(&mut self, m: u32) {
        let mut carry = 0u64;
        for x in self.0.iter_mut() {
            let t = *x as u64 * m as u64 + carry;
            *x = t as u32;
            carry = t >> 32;
        }
        if carry > 0 {
            self.0.push(carry as u32);
        }
        self.norm();
    }
    fn add_small(&mut self, a: u32) {
        let mut carry = a as u64;
        for x in self.0.iter_mut() {
            if carry == 0 {
                break;
            }
            let t = *x as u64 + carry;
            *x = t as u32;
            carry = t >> 32;
        }
        if carry > 0 {
            self.0.push(carry as u32);
        }
    }
    fn from_digits(d: &[u8]) -> Big {
        let mut b = Big::zero();
        for &x in d {
            b.mul_small(10);
            b.add_small(x as u32);
        }
        b
    }
    fn mul_pow10(&mut self, n: u32) {
        for _ in 0..n {
            self.mul_small(10);
        }
    }
    fn shl(&mut self, bits: u32) {
        if self.is_zero() {
            return;
        }
        let limbs = (bits / 32) as usize;
        let r = bits % 32;
        if r > 0 {
            let mut carry = 0u32;
            for x in self.0.iter_mut() {
                let t = ((*x as u64) << r) | carry as u64;
                *x = t as u32;
                carry = (t >> 32) as u32;
            }
            if carry > 0 {
                self.0.push(carry);
            }
        }
        if limbs > 0 {
            let mut v = vec![0u32; limbs];
            v.extend_from_slice(&self.0);
            self.0 = v;
        }
    }
    fn cmp(&self, o: &Big) -> Ordering {
        if self.0.len() != o.0.len() {
            return self.0.len().cmp(&o.0.len());
        }
        for i in (0..self.0.len()).rev() {
            if self.0[i] != o.0[i] {
                return self.0[i].cmp(&o.0[i]);
            }
        }
        Ordering::Equal
    }
    /// |self - o|
    fn abs_diff(&self, o: &Big) -> Big {
        let (a, b) = if self.cmp(o) == Ordering::Less { (o, self) } else { (self, o) };
        let mut out = a.0.clone();
        let mut borrow = 0i64;
        for i in 0..out.len() {
            let bi = *b.0.get(i).unwrap_or(&0) as i64;
            let mut t = out[i] as i64 - bi - borrow;
            if t < 0 {
                t += 1 << 32;
                borrow = 1;
            } else {
                borrow = 0;
            }
            out[i] = t as u32;
        }
        let mut r = Big(out);
        r.norm();
        r
    }
}

// ------------------------------------------------------------------------------------------
// exact decimal parsing

/// sign, significant decimal digits (most significant first, may be empty = zero), power of ten
#[derive(Clone, Debug)]
struct Dec {
    neg: bool,
    digits: Vec<u8>,
    exp10: i64,
}

#[derive(Clone, Debug, PartialEq)]
enum Syntax {
    /// `[+-]?digits`
    Integer,
    /// decimal point and/or exponent
    Decimal,
    NotANumber,
}

fn trim_sp_nul(s: &str) -> &str {
    s.trim_matches(|c| c == ' ' || c == '\0')
}

/// Parse `[+-]?(d+(.d*)?|.d+)([eE][+-]?d+)?` exactly.
fn parse_decimal(t: &str) -> (Syntax, Option<Dec>) {
    let b = t.as_bytes();
    let mut i = 0;
    let mut neg = false;
    if i < b.len() && (b[i] == b'+' || b[i] == b'-') {
        neg = b[i] == b'-';
        i += 1;
    }
    let mut digits: Vec<u8> = Vec::new();
    let mut int_digits = 0;
    while i < b.len() && b[i].is_ascii_digit() {
        digits.push(b[i] - b'0');
        int_digits += 1;
        i += 1;
    }
    let mut frac_digits = 0i64;
    let mut has_point = false;
    if i < b.len() && b[i] == b'.' {
        has_point = true;
        i += 1;
        while i < b.len() && b[i].is_ascii_digit() {
            digits.push(b[i] - b'0');
            frac_digits += 1;
            i += 1;
        }
    }
    if int_digits == 0 && frac_digits == 0 {
        return (Syntax::NotANumber, None);
    }
    let mut exp: i64 = 0;
    let mut has_exp = false;
    if i < b.len() && (b[i] == b'e' || b[i] == b'E') {
        has_exp = true;
        i += 1;
        let mut eneg = false;
        if i < b.len() && (b[i] == b'+' || b[i] == b'-') {
            eneg = b[i] == b'-';
            i += 1;
        }
        let start = i;
        while i < b.len() && b[i].is_ascii_digit() {
            exp = (exp * 10 + (b[i] - b'0') as i64).min(1_000_000);
            i += 1;
        }
        if i == start {
            return (Syntax::NotANumber, None);
        }
        if eneg {
            exp = -exp;
        }
    }
    if i != b.len() {
        return (Syntax::NotANumber, None);
    }
    // normalise: drop leading zeros, then trailing zeros (adjusting the exponent)
    let mut exp10 = exp - frac_digits;
    let first = digits.iter().position(|&d| d != 0).unwrap_or(digits.len());
    digits.drain(..first);
    while digits.last() == Some(&0) {
        digits.pop();
        exp10 += 1;
    }
    if digits.is_empty() {
        exp10 = 0;
    }
    let syntax = if has_point || has_exp { Syntax::Decimal } else { Syntax::Integer };
    (syntax, Some(Dec { neg, digits, exp10 }))
}

/// Exact integer value of a decimal, if it is integral and fits an i128.
fn dec_to_i128(d: &Dec) -> Result<Option<i128>, ()> {
    // Err(()) = not integral; Ok(None) = integral but beyond i128
    if d.digits.is_empty() {
        return Ok(Some(0));
    }
    if d.exp10 < 0 {
        return Err(());
    }
    if d.digits.len() as i64 + d.exp10 > 39 {
        return Ok(None);
    }
    let mut v: i128 = 0;
    for &x in &d.digits {
        v = match v.checked_mul(10).and_then(|v| v.checked_add(x as i128)) {
            Some(v) => v,
            None => return Ok(None),
        };
    }
    for _ in 0..d.exp10 {
        v = match v.checked_mul(10) {
            Some(v) => v,
            None => return Ok(None),
        };
    }
    Ok(Some(if d.neg { -v } else { v }))
}

/// Is the finite float `k * 2^q` (sign handled by the caller) a nearest float of |d|?
/// Accepts both neighbours on ties and is lenient at binade boundaries (never stricter than IEEE).
fn nearest_ok(k: u64, q: i32, d: &Dec) -> bool {
    let e = d.exp10;
    let mut a = Big::from_u64(k);
    let mut bb = Big::from_digits(&d.digits);
    let mut u = Big::from_u64(1);
    if q > 0 {
        a.shl(q as u32);
        u.shl(q as u32);
    } else {
        bb.shl((-q) as u32);
    }
    if e < 0 {
        a.mul_pow10((-e) as u32);
        u.mul_pow10((-e) as u32);
    } else {
        bb.mul_pow10(e as u32);
    }
    let mut diff = a.abs_diff(&bb);
    diff.shl(1);
    diff.cmp(&u) != Ordering::Greater
}

fn decompose64(r: f64) -> (bool, u64, i32) {
    let bits = r.to_bits();
    let neg = bits >> 63 == 1;
    let exp = ((bits >> 52) & 0x7FF) as i32;
    let frac = bits & ((1u64 << 52) - 1);
    if exp == 0 {
        (neg, frac, -1074)
    } else {
        (neg, frac | (1u64 << 52), exp - 1075)
    }
}

fn decompose32(r: f32) -> (bool, u64, i32) {
    let bits = r.to_bits();
    let neg = bits >> 31 == 1;
    let exp = ((bits >> 23) & 0xFF) as i32;
    let frac = (bits & ((1u32 << 23) - 1)) as u64;
    if exp == 0 {
        (neg, frac, -149)
    } else {
        (neg, frac | (1u64 << 23), exp - 150)
    }
}

// ------------------------------------------------------------------------------------------
// abstract description of a stored value

#[derive(Clone, Debug)]
enum It {
    Int(i128),
    F32(f32),
    F64(f64),
    /// text item and its generator class
    Text(String, &'static str),
    /// tags, dates, times: no numeric meaning
    Opaque,
}

#[derive(Clone, Debug)]
struct Src {
    variant: &'static str,
    items: Vec<It>,
    pv: PrimitiveValue,
}

fn it_json(i: &It) -> J {
    match i {
        It::Int(v) => json!(v.to_string()),
        It::F32(v) => json!(format!("{:e} (bits {:#010x})", v, v.to_bits())),
        It::F64(v) => json!(format!("{:e} (bits {:#018x})", v, v.to_bits())),
        It::Text(s, c) => json!({"text": s, "class": c}),
        It::Opaque => json!("opaque"),
    }
}

fn src_json(s: &Src) -> J {
    json!({"variant": s.variant, "items": s.items.iter().map(it_json).collect::<Vec<_>>()})
}

const POOL: &[i128] = &[
    0, 1, -1, 2, 9, 10, 99, 100, 127, 128, 129, 255, 256, 257, -127, -128, -129, 32767, 32768, 65535, 65536, -32768, -32769,
    (1 << 24) - 1, 1 << 24, (1 << 24) + 1, (1 << 31) - 1, 1 << 31, (1 << 32) - 1, 1 << 32, -(1 << 31), -(1 << 31) - 1,
    (1 << 53) - 1, 1 << 53, (1 << 53) + 1, (1 << 63) - 1, 1 << 63, (1 << 64) - 1, 1 << 64, -(1 << 63), -(1 << 63) - 1,
    (1 << 64) + 1, 1 << 100, -(1 << 100), 4294967295, 4294967296, 18446744073709551615, 9223372036854775807,
];

fn gen_int_in(rng: &mut Rng, min: i128, max: i128) -> i128 {
    match rng.below(10) {
        0..=3 => {
            for _ in 0..6 {
                let v = *rng.pick(POOL);
                if v >= min && v <= max {
                    return v;
                }
            }
            if rng.bool() { min } else { max }
        }
        4 => min,
        5 => max,
        6 => (min + rng.below(4) as i128).min(max),
        7 => (max - rng.below(4) as i128).max(min),
        _ => {
            // random width
            let span = (max - min) as u128;
            let bits = 128 - span.leading_zeros();
            let w = 1 + rng.below(bits.max(1) as u64) as u32;
            let raw = ((rng.next_u64() as u128) << 64 | rng.next_u64() as u128) & ((1u128 << w.min(127)) - 1);
            let v = if min < 0 && rng.bool() { -(raw as i128) } else { raw as i128 };
            v.clamp(min, max)
        }
    }
}

fn pad(rng: &mut Rng, core: &str) -> (String, bool) {
    let mut s = String::new();
    let mut padded = false;
    let n1 = if rng.chance(1, 3) { rng.urange(1, 3) } else { 0 };
    for _ in 0..n1 {
        s.push(if rng.chance(3, 4) { ' ' } else { '\0' });
        padded = true;
    }
    s.push_str(core);
    let n2 = if rng.chance(1, 2) { rng.urange(1, 3) } else { 0 };
    for _ in 0..n2 {
        s.push(if rng.chance(2, 3) { ' ' } else { '\0' });
        padded = true;
    }
    (s, padded)
}

const NON_NUMERIC: &[&str] = &[
    "", "abc", "12a", "a12", "1 2", "--1", "+-1", "0x10", "1_000", "1,5", "١٢", "１２", "+", "-", ".", "e5", "1e", "1e+", "1.2.3",
    "1\\2", "12\\", "\\12", "5 .0", "1e 3", "٣", "½", "1٫5", "0b1", "1u8", "3f",
];

/// A text item: (text, class). Classes: int, int-padded, int-huge, neg-zero, decimal, decimal-padded,
/// non-numeric, ws-other.
fn gen_text_item(rng: &mut Rng) -> (String, &'static str) {
    match rng.below(20) {
        0..=8 => {
            let v = match rng.below(6) {
                0 => gen_int_in(rng, i8::MIN as i128 - 2, u8::MAX as i128 + 2),
                1 => gen_int_in(rng, i16::MIN as i128 - 2, u16::MAX as i128 + 2),
                2 => gen_int_in(rng, i32::MIN as i128 - 2, u32::MAX as i128 + 2),
                3 => gen_int_in(rng, i64::MIN as i128 - 2, u64::MAX as i128 + 2),
                _ => gen_int_in(rng, -(1i128 << 70), 1i128 << 70),
            };
            let mut core = String::new();
            if v < 0 {
                core.push('-');
            } else if rng.chance(1, 8) {
                core.push('+');
            }
            if rng.chance(1, 8) {
                for _ in 0..rng.urange(1, 4) {
                    core.push('0');
                }
            }
            core.push_str(&v.unsigned_abs().to_string());
            let (s, padded) = pad(rng, &core);
            (s, if padded { "int-padded" } else { "int" })
        }
        9 => {
            // beyond 128 bits
            let n = rng.urange(39, 60);
            let mut core = String::new();
            if rng.bool() {
                core.push('-');
            }
            core.push((b'1' + rng.below(9) as u8) as char);
            for _ in 1..n {
                core.push((b'0' + rng.below(10) as u8) as char);
            }
            let (s, _) = pad(rng, &core);
            (s, "int-huge")
        }
        10 => {
            let core = *rng.pick(&["-0", "-00", "-000", "-0000000000"]);
            let (s, _) = pad(rng, core);
            (s, "neg-zero")
        }
        11..=15 => {
            // decimal / exponent notation, magnitude kept inside 1e-30 .. 1e30
            let nd = rng.urange(1, 18);
            let mut digits = String::new();
            for i in 0..nd {
                let d = if i == 0 { 1 + rng.below(9) } else { rng.below(10) };
                digits.push((b'0' + d as u8) as char);
            }
            if rng.chance(1, 6) {
                // make it integral-looking: trailing zeros
                let keep = rng.urange(1, nd);
                digits = digits[..keep].to_string() + &"0".repeat(nd - keep);
            }
            let point = rng.urange(0, nd); // digits before the point
            let mut core = String::new();
            match rng.below(6) {
                0 => core.push('-'),
                1 => core.push('+'),
                _ => {}
            }
            let style = rng.below(6);
            core.push_str(&digits[..point]);
            if point < nd || style == 0 {
                if point == 0 && rng.bool() {
                    core.push('0');
                }
                core.push('.');
                core.push_str(&digits[point..]);
            } else if style == 1 {
                core.push_str(".0");
            }
            if rng.chance(1, 3) {
                let e = rng.range(-12, 12);
                core.push(if rng.bool() { 'e' } else { 'E' });
                if e >= 0 && rng.bool() {
                    core.push('+');
                }
                core.push_str(&e.to_string());
            }
            if !core.contains('.') && !core.contains('e') && !core.contains('E') {
                core.push_str(".0");
            }
            let (s, padded) = pad(rng, &core);
            (s, if padded { "decimal-padded" } else { "decimal" })
        }
        16 => {
            // dyadic fraction: exactly representable
            let k = rng.below(11) as u32;
            let n = rng.below(1 << 20) as i128;
            let num = n * 5i128.pow(k);
            let mut t = num.to_string();
            if k > 0 {
                while t.len() <= k as usize {
                    t.insert(0, '0');
                }
                t.insert(t.len() - k as usize, '.');
            } else {
                t.push_str(".0");
            }
            if rng.bool() {
                t.insert(0, '-');
            }
            let (s, padded) = pad(rng, &t);
            (s, if padded { "decimal-padded" } else { "decimal" })
        }
        17..=18 => {
            let core = *rng.pick(NON_NUMERIC);
            let (s, _) = pad(rng, core);
            (s, "non-numeric")
        }
        _ => {
            // white space other than space/NUL around a valid integer
            let v = gen_int_in(rng, -70000, 70000);
            let ws = *rng.pick(&["\t", "\n", "\r\n", "\u{00A0}", "\u{3000}", "\u{000B}"]);
            let s = if rng.bool() { format!("{}{}", v, ws) } else { format!("{}{}", ws, v) };
            (s, "ws-other")
        }
    }
}

fn gen_multiplicity(rng: &mut Rng) -> usize {
    match rng.below(10) {
        0..=1 => 0,
        2..=5 => 1,
        6..=7 => 2,
        8 => 3,
        _ => rng.urange(4, 6),
    }
}

const VARIANTS: [&str; 16] = [
    "Empty", "Strs", "Str", "Tags", "U8", "I16", "U16", "I32", "U32", "I64", "U64", "F32", "F64", "Date", "DateTime", "Time",
];

fn gen_f64(rng: &mut Rng) -> f64 {
    match rng.below(12) {
        0 => 0.0,
        1 => -0.0,
        2 => f64::NAN,
        3 => f64::INFINITY,
        4 => f64::NEG_INFINITY,
        5 => *rng.pick(&[f64::MAX, f64::MIN, f64::MIN_POSITIVE, 5e-324, 1e300, -1e300, 3.5e38, -3.5e38, 3.4028235e38, 1e39]),
        6 => gen_int_in(rng, -(1i128 << 70), 1i128 << 70) as f64,
        7 => (rng.range(-100000, 100000) as f64) / 8.0,
        8 => f64::from_bits(rng.next_u64()),
        _ => (rng.f64() - 0.5) * 10f64.powi(rng.range(-10, 20) as i32),
    }
}

fn gen_f32(rng: &mut Rng) -> f32 {
    match rng.below(10) {
        0 => 0.0,
        1 => -0.0,
        2 => f32::NAN,
        3 => f32::INFINITY,
        4 => f32::NEG_INFINITY,
        5 => *rng.pick(&[f32::MAX, f32::MIN, f32::MIN_POSITIVE, 1e-45, 16777216.0, 16777217.0, 4294967296.0, 65535.5]),
        6 => gen_int_in(rng, -(1i128 << 40), 1i128 << 40) as f32,
        7 => f32::from_bits(rng.next_u32()),
        _ => ((rng.f64() - 0.5) * 10f64.powi(rng.range(-6, 12) as i32)) as f32,
    }
}

fn gen_src(rng: &mut Rng, variant: &'static str) -> Src {
    let n = gen_multiplicity(rng);
    macro_rules! ints {
        ($t:ty, $v:ident) => {{
            let vals: Vec<$t> = (0..n).map(|_| gen_int_in(rng, <$t>::MIN as i128, <$t>::MAX as i128) as $t).collect();
            Src {
                variant,
                items: vals.iter().map(|v| It::Int(*v as i128)).collect(),
                pv: PrimitiveValue::$v(vals.into_iter().collect::<C<$t>>()),
            }
        }};
    }
    match variant {
        "Empty" => Src { variant, items: vec![], pv: PrimitiveValue::Empty },
        "Strs" => {
            let its: Vec<(String, &'static str)> = (0..n).map(|_| gen_text_item(rng)).collect();
            Src {
                variant,
                items: its.iter().map(|(s, c)| It::Text(s.clone(), c)).collect(),
                pv: PrimitiveValue::Strs(its.into_iter().map(|(s, _)| s).collect()),
            }
        }
        "Str" => {
            let (s, c) = gen_text_item(rng);
            Src { variant, items: vec![It::Text(s.clone(), c)], pv: PrimitiveValue::Str(s) }
        }
        "Tags" => Src {
            variant,
            items: (0..n).map(|_| It::Opaque).collect(),
            pv: PrimitiveValue::Tags((0..n).map(|_| Tag(rng.next_u32() as u16, rng.next_u32() as u16)).collect()),
        },
        "U8" => ints!(u8, U8),
        "I16" => ints!(i16, I16),
        "U16" => ints!(u16, U16),
        "I32" => ints!(i32, I32),
        "U32" => ints!(u32, U32),
        "I64" => ints!(i64, I64),
        "U64" => ints!(u64, U64),
        "F32" => {
            let vals: Vec<f32> = (0..n).map(|_| gen_f32(rng)).collect();
            Src {
                variant,
                items: vals.iter().map(|v| It::F32(*v)).collect(),
                pv: PrimitiveValue::F32(vals.into_iter().collect()),
            }
        }
        "F64" => {
            let vals: Vec<f64> = (0..n).map(|_| gen_f64(rng)).collect();
            Src {
                variant,
                items: vals.iter().map(|v| It::F64(*v)).collect(),
                pv: PrimitiveValue::F64(vals.into_iter().collect()),
            }
        }
        "Date" => Src {
            variant,
            items: (0..n).map(|_| It::Opaque).collect(),
            pv: PrimitiveValue::Date(
                (0..n)
                    .map(|_| DicomDate::from_ymd(rng.range(1900, 2100) as u16, rng.range(1, 12) as u8, rng.range(1, 28) as u8).unwrap())
                    .collect(),
            ),
        },
        "DateTime" => Src {
            variant,
            items: (0..n).map(|_| It::Opaque).collect(),
            pv: PrimitiveValue::DateTime(
                (0..n)
                    .map(|_| DicomDateTime::from_date(DicomDate::from_ym(rng.range(1900, 2100) as u16, rng.range(1, 12) as u8).unwrap()))
                    .collect(),
            ),
        },
        _ => Src {
            variant: "Time",
            items: (0..n).map(|_| It::Opaque).collect(),
            pv: PrimitiveValue::Time((0..n).map(|_| DicomTime::from_hm(rng.range(0, 23) as u8, rng.range(0, 59) as u8).unwrap()).collect()),
        },
    }
}

// ------------------------------------------------------------------------------------------
// integer oracle

/// Expected outcome set for one item and one target range.
#[derive(Clone, Debug)]
struct ExpInt {
    ok: Option<i128>,
    err_allowed: bool,
    class: &'static str,
}

fn expect_int(it: &It, min: i128, max: i128) -> ExpInt {
    let fits = |v: i128| v >= min && v <= max;
    match it {
        It::Int(v) => {
            if fits(*v) {
                ExpInt { ok: Some(*v), err_allowed: false, class: "int" }
            } else {
                ExpInt { ok: None, err_allowed: true, class: "int-out-of-range" }
            }
        }
        // "does not enable the conversion of floating point numbers to integers": Err documented;
        // an exact value would still satisfy the property, a truncated one never does
        It::F32(f) => float_item_int(*f as f64, fits),
        It::F64(f) => float_item_int(*f, fits),
        It::Opaque => ExpInt { ok: None, err_allowed: true, class: "opaque" },
        It::Text(s, class) => {
            if *class == "ws-other" {
                // function doc: "stripped of leading/trailing whitespace"; property: spaces and NULs
                let t = s.trim_matches(|c: char| c.is_whitespace() || c == '\0');
                let v = parse_decimal(t).1.and_then(|d| dec_to_i128(&d).ok().flatten());
                return ExpInt { ok: v.filter(|v| fits(*v)), err_allowed: true, class: "ws-other" };
            }
            let t = trim_sp_nul(s);
            match parse_decimal(t) {
                (Syntax::Integer, Some(d)) => match dec_to_i128(&d) {
                    Ok(Some(v)) if fits(v) => {
                        if v == 0 && d.neg && min == 0 {
                            // "-0" into an unsigned type: left open
                            ExpInt { ok: Some(0), err_allowed: true, class: "neg-zero-unsigned" }
                        } else {
                            ExpInt { ok: Some(v), err_allowed: false, class }
                        }
                    }
                    _ => ExpInt { ok: None, err_allowed: true, class: "text-out-of-range" },
                },
                (Syntax::Decimal, Some(d)) => match dec_to_i128(&d) {
                    Ok(Some(v)) if fits(v) => ExpInt { ok: Some(v), err_allowed: true, class: "decimal-integral" },
                    _ => ExpInt { ok: None, err_allowed: true, class: "decimal-non-integral" },
                },
                _ => ExpInt { ok: None, err_allowed: true, class: "non-numeric" },
            }
        }
    }
}

fn float_item_int(f: f64, fits: impl Fn(i128) -> bool) -> ExpInt {
    if f.is_finite() && f.fract() == 0.0 && f.abs() < 1e30 {
        let v = f as i128;
        if fits(v) {
            return ExpInt { ok: Some(v), err_allowed: true, class: "float-integral" };
        }
    }
    ExpInt { ok: None, err_allowed: true, class: "float" }
}

fn mclass(n: usize) -> &'static str {
    match n {
        0 => "m0",
        1 => "m1",
        2 => "m2",
        _ => "mN",
    }
}

fn check_ints<T>(l: &mut Local, src: &Src, val: &Val, elem: &Elem, tname: &'static str, min: i128, max: i128, replay: &J)
where
    T: NumCast + FromStr<Err = std::num::ParseIntError> + Copy + TryInto<i128> + PartialEq + std::fmt::Debug,
{
    let to_i = |t: T| -> i128 { t.try_into().ok().expect("target value fits i128") };
    let exps: Vec<ExpInt> = src.items.iter().map(|it| expect_int(it, min, max)).collect();
    let supported = !matches!(src.variant, "Tags" | "Date" | "DateTime" | "Time" | "F32" | "F64");
    let n = src.items.len();

    // ---- single ----
    l.eval();
    let single = src.pv.to_int::<T>();
    if n == 0 {
        if let Ok(v) = &single {
            l.violation(
                format!("to_int|empty|{}|{}|ok", src.variant, tname),
                format!("to_int::<{}>() of an empty {} value returned Ok({:?})", tname, src.variant, v),
                replay.clone(),
            );
        }
    } else {
        let e = &exps[0];
        l.class(format!("to_int|{}|{}|{}|{}", src.variant, mclass(n), e.class, tname));
        match &single {
            Ok(v) => {
                let v = to_i(*v);
                match e.ok {
                    Some(x) if x == v => {}
                    Some(x) => l.violation(
                        format!("to_int|{}|{}|{}|wrong-value", src.variant, e.class, tname),
                        format!("to_int::<{}>() = {} but the stored number is {}", tname, v, x),
                        with(replay, json!({"entry": "to_int", "target": tname, "expected": format!("Ok({})", x), "observed": format!("Ok({})", v)})),
                    ),
                    None => l.violation(
                        format!("to_int|{}|{}|{}|ok-but-not-representable", src.variant, e.class, tname),
                        format!("to_int::<{}>() = {} but item {} is not representable / not an integer", tname, v, it_json(&src.items[0])),
                        with(replay, json!({"entry": "to_int", "target": tname, "expected": "Err(_)", "observed": format!("Ok({})", v)})),
                    ),
                }
            }
            Err(err) => {
                if !e.err_allowed {
                    l.violation(
                        format!("to_int|{}|{}|{}|error", src.variant, e.class, tname),
                        format!("to_int::<{}>() failed ({}) but item {} is exactly representable", tname, err, it_json(&src.items[0])),
                        with(replay, json!({"entry": "to_int", "target": tname, "expected": format!("Ok({})", e.ok.unwrap()), "observed": "Err"})),
                    );
                }
            }
        }
    }

    // ---- multi ----
    l.eval();
    let multi = src.pv.to_multi_int::<T>();
    let worst = exps.iter().map(|e| e.class).find(|c| *c != "int").unwrap_or("int");
    l.class(format!("to_multi_int|{}|{}|{}|{}", src.variant, mclass(n), worst, tname));
    match &multi {
        Ok(list) => {
            if list.len() != n {
                l.violation(
                    format!("to_multi_int|{}|{}|length", src.variant, mclass(n)),
                    format!("to_multi_int::<{}>() returned {} results for {} stored items", tname, list.len(), n),
                    with(replay, json!({"entry": "to_multi_int", "target": tname, "expected_len": n, "observed_len": list.len()})),
                );
            } else {
                for (i, (v, e)) in list.iter().zip(&exps).enumerate() {
                    let v = to_i(*v);
                    if e.ok != Some(v) {
                        l.violation(
                            format!("to_multi_int|{}|{}|{}|{}", src.variant, e.class, tname, if e.ok.is_some() { "wrong-value" } else { "ok-but-not-representable" }),
                            format!("to_multi_int::<{}>()[{}] = {} but item is {} (expected {:?})", tname, i, v, it_json(&src.items[i]), e.ok),
                            with(replay, json!({"entry": "to_multi_int", "target": tname, "index": i, "observed": v.to_string()})),
                        );
                        break;
                    }
                }
            }
        }
        Err(err) => {
            let may_fail = exps.iter().any(|e| e.err_allowed) || (!supported);
            if !may_fail {
                if n == 0 {
                    l.violation(
                        format!("to_multi_int|empty|{}", src.variant),
                        format!(
                            "to_multi_int::<{}>() of an empty {} value failed ({}); a value with no items must convert to an empty list",
                            tname, src.variant, err
                        ),
                        with(replay, json!({"entry": "to_multi_int", "target": tname, "expected": "Ok([])", "observed": format!("Err({})", err)})),
                    );
                } else {
                    l.violation(
                        format!("to_multi_int|{}|{}|error", src.variant, tname),
                        format!("to_multi_int::<{}>() failed ({}) although every item is representable", tname, err),
                        with(replay, json!({"entry": "to_multi_int", "target": tname, "observed": format!("Err({})", err)})),
                    );
                }
            }
        }
    }
    // single = first of multi
    if n > 0 {
        if let (Ok(s), Ok(m)) = (&single, &multi) {
            if m.first() != Some(s) {
                l.violation(
                    format!("to_int|{}|{}|not-first-of-multi", src.variant, tname),
                    format!("to_int = {:?} but to_multi_int[0] = {:?}", s, m.first()),
                    replay.clone(),
                );
            }
        }
    }
    // wrappers must agree with the primitive value
    l.eval();
    let vs = val.to_int::<T>();
    let vm = val.to_multi_int::<T>();
    let es = elem.to_int::<T>();
    let em = elem.to_multi_int::<T>();
    let same1 = |a: &Result<T, _>, b: &Result<T, dicom_core::value::ConvertValueError>| match (a, b) {
        (Ok(x), Ok(y)) => x == y,
        (Err(_), Err(_)) => true,
        _ => false,
    };
    let samen = |a: &Result<Vec<T>, _>, b: &Result<Vec<T>, dicom_core::value::ConvertValueError>| match (a, b) {
        (Ok(x), Ok(y)) => x == y,
        (Err(_), Err(_)) => true,
        _ => false,
    };
    if !same1(&vs, &single) || !same1(&es, &single) {
        l.violation(
            format!("wrapper|to_int|{}|disagrees-with-primitive", tname),
            format!("Value/DataElement::to_int::<{}> = {:?}/{:?} but PrimitiveValue gives {:?}", tname, vs.ok(), es.ok(), single.as_ref().ok()),
            replay.clone(),
        );
    }
    if !samen(&vm, &multi) || !samen(&em, &multi) {
        l.violation(
            format!("wrapper|to_multi_int|{}|disagrees-with-primitive", tname),
            format!("Value/DataElement::to_multi_int::<{}> = {:?}/{:?} but PrimitiveValue gives {:?}", tname, vm.ok(), em.ok(), multi.as_ref().ok()),
            replay.clone(),
        );
    }
}

fn with(replay: &J, extra: J) -> J {
    let mut r = replay.clone();
    if let (Some(o), Some(e)) = (r.as_object_mut(), extra.as_object()) {
        for (k, v) in e {
            o.insert(k.clone(), v.clone());
        }
    }
    r
}

// ------------------------------------------------------------------------------------------
// float oracle

#[derive(Clone, Debug)]
enum ExpF {
    /// exactly these bits (NaN: any NaN)
    Exact64(f64),
    Exact32(f32),
    /// nearest float of this decimal
    Nearest(Dec),
    /// Ok(exact) or Err
    ExactOrErr32(f32),
    MustErr,
    /// no constraint on the value (special spellings, other white space)
    Open,
}

fn special_float_text(t: &str) -> bool {
    let u = t.trim_start_matches(['+', '-']).to_ascii_lowercase();
    u == "inf" || u == "infinity" || u == "nan"
}

fn expect_float(it: &It, want32: bool) -> (ExpF, &'static str) {
    match it {
        It::Int(v) => {
            // all stored integer types fit i64/u64; the cast from the exact integer rounds to nearest
            if want32 {
                let f = if *v >= 0 { (*v as u64) as f32 } else { (*v as i64) as f32 };
                (ExpF::Exact32(f), "int")
            } else {
                let f = if *v >= 0 { (*v as u64) as f64 } else { (*v as i64) as f64 };
                (ExpF::Exact64(f), "int")
            }
        }
        It::F32(f) => {
            if want32 {
                (ExpF::Exact32(*f), "f32")
            } else {
                (ExpF::Exact64(*f as f64), "f32")
            }
        }
        It::F64(f) => {
            if want32 {
                let c = *f as f32;
                if f.is_finite() && c.is_infinite() {
                    // "An error is returned if any of the numbers cannot be represented by an f32"
                    (ExpF::ExactOrErr32(c), "f64-overflowing-f32")
                } else {
                    (ExpF::Exact32(c), "f64")
                }
            } else {
                (ExpF::Exact64(*f), "f64")
            }
        }
        It::Opaque => (ExpF::MustErr, "opaque"),
        It::Text(s, class) => {
            if *class == "ws-other" {
                return (ExpF::Open, "ws-other");
            }
            let t = trim_sp_nul(s);
            if special_float_text(t) {
                return (ExpF::Open, "special");
            }
            match parse_decimal(t) {
                (_, Some(d)) => {
                    // keep to magnitudes where neither f32 nor f64 over/underflow
                    let mag = d.digits.len() as i64 + d.exp10;
                    if d.digits.is_empty() || (mag > -30 && mag < 30) {
                        (ExpF::Nearest(d), class)
                    } else {
                        (ExpF::Open, "extreme-magnitude")
                    }
                }
                _ => (ExpF::MustErr, "non-numeric"),
            }
        }
    }
}

fn float_matches(e: &ExpF, got: Result<f64, ()>, got_is_32: Option<f32>) -> Result<(), String> {
    match (e, got) {
        (ExpF::Open, _) => Ok(()),
        (ExpF::MustErr, Err(())) => Ok(()),
        (ExpF::MustErr, Ok(v)) => Err(format!("Ok({:e}) but an error is required", v)),
        (ExpF::Exact64(x), Ok(v)) => {
            if (x.is_nan() && v.is_nan()) || x.to_bits() == v.to_bits() {
                Ok(())
            } else {
                Err(format!("Ok({:e}) bits {:#x}, expected {:e} bits {:#x}", v, v.to_bits(), x, x.to_bits()))
            }
        }
        (ExpF::Exact32(x), Ok(_)) | (ExpF::ExactOrErr32(x), Ok(_)) => {
            let v = got_is_32.unwrap();
            if (x.is_nan() && v.is_nan()) || x.to_bits() == v.to_bits() {
                Ok(())
            } else {
                Err(format!("Ok({:e}) bits {:#x}, expected {:e} bits {:#x}", v, v.to_bits(), x, x.to_bits()))
            }
        }
        (ExpF::ExactOrErr32(_), Err(())) => Ok(()),
        (ExpF::Exact64(_), Err(())) | (ExpF::Exact32(_), Err(())) => Err("Err but a value is required".into()),
        (ExpF::Nearest(_), Err(())) => Err("Err but the text is a valid decimal number".into()),
        (ExpF::Nearest(d), Ok(v)) => {
            let (neg, k, q) = match got_is_32 {
                Some(f) => {
                    if !f.is_finite() {
                        return Err(format!("Ok({}) for a finite decimal", f));
                    }
                    decompose32(f)
                }
                None => {
                    if !v.is_finite() {
                        return Err(format!("Ok({}) for a finite decimal", v));
                    }
                    decompose64(v)
                }
            };
            if d.digits.is_empty() {
                return if k == 0 { Ok(()) } else { Err(format!("Ok({:e}) for a zero", v)) };
            }
            if neg != d.neg {
                return Err(format!("Ok({:e}) has the wrong sign", v));
            }
            if nearest_ok(k, q, d) {
                Ok(())
            } else {
                Err(format!("Ok({:e}) is not a nearest float of the decimal text", v))
            }
        }
    }
}

fn check_floats(l: &mut Local, src: &Src, val: &Val, elem: &Elem, replay: &J) {
    let n = src.items.len();
    let supported = !matches!(src.variant, "Tags" | "Date" | "DateTime" | "Time");
    for want32 in [true, false] {
        let name = if want32 { "float32" } else { "float64" };
        let exps: Vec<(ExpF, &'static str)> = src.items.iter().map(|it| expect_float(it, want32)).collect();
        // single
        l.eval();
        let (single, single32): (Result<f64, String>, Option<f32>) = if want32 {
            match src.pv.to_float32() {
                Ok(v) => (Ok(v as f64), Some(v)),
                Err(e) => (Err(e.to_string()), None),
            }
        } else {
            (src.pv.to_float64().map_err(|e| e.to_string()), None)
        };
        if n == 0 {
            if single.is_ok() {
                l.violation(
                    format!("to_{}|empty|{}|ok", name, src.variant),
                    format!("to_{}() of an empty {} value returned {:?}", name, src.variant, single),
                    replay.clone(),
                );
            }
        } else {
            l.class(format!("to_{}|{}|{}|{}", name, src.variant, mclass(n), exps[0].1));
            if let Err(m) = float_matches(&exps[0].0, single.clone().map_err(|_| ()), single32) {
                l.violation(
                    format!("to_{}|{}|{}", name, src.variant, exps[0].1),
                    format!("to_{}() of item {}: {}", name, it_json(&src.items[0]), m),
                    with(replay, json!({"entry": format!("to_{}", name)})),
                );
            }
        }
        // multi
        l.eval();
        let (multi, multi32): (Result<Vec<f64>, String>, Option<Vec<f32>>) = if want32 {
            match src.pv.to_multi_float32() {
                Ok(v) => (Ok(v.iter().map(|x| *x as f64).collect()), Some(v)),
                Err(e) => (Err(e.to_string()), None),
            }
        } else {
            (src.pv.to_multi_float64().map_err(|e| e.to_string()), None)
        };
        let worst = exps.iter().map(|e| e.1).find(|c| !matches!(*c, "int" | "f32" | "f64")).unwrap_or("plain");
        l.class(format!("to_multi_{}|{}|{}|{}", name, src.variant, mclass(n), worst));
        match &multi {
            Ok(list) => {
                if list.len() != n {
                    l.violation(
                        format!("to_multi_{}|{}|{}|length", name, src.variant, mclass(n)),
                        format!("to_multi_{}() returned {} results for {} stored items", name, list.len(), n),
                        with(replay, json!({"entry": format!("to_multi_{}", name), "expected_len": n, "observed_len": list.len()})),
                    );
                } else {
                    for i in 0..n {
                        let g32 = multi32.as_ref().map(|v| v[i]);
                        if let Err(m) = float_matches(&exps[i].0, Ok(list[i]), g32) {
                            l.violation(
                                format!("to_multi_{}|{}|{}", name, src.variant, exps[i].1),
                                format!("to_multi_{}()[{}] of item {}: {}", name, i, it_json(&src.items[i]), m),
                                with(replay, json!({"entry": format!("to_multi_{}", name), "index": i})),
                            );
                            break;
                        }
                    }
                }
            }
            Err(err) => {
                let may_fail = !supported
                    || exps.iter().any(|(e, _)| matches!(e, ExpF::MustErr | ExpF::Open | ExpF::ExactOrErr32(_)));
                if !may_fail {
                    if n == 0 {
                        l.violation(
                            format!("to_multi_{}|empty|{}", name, src.variant),
                            format!(
                                "to_multi_{}() of an empty {} value failed ({}); a value with no items must convert to an empty list",
                                name, src.variant, err
                            ),
                            with(replay, json!({"entry": format!("to_multi_{}", name), "expected": "Ok([])", "observed": format!("Err({})", err)})),
                        );
                    } else {
                        l.violation(
                            format!("to_multi_{}|{}|error", name, src.variant),
                            format!("to_multi_{}() failed ({}) although every item converts", name, err),
                            with(replay, json!({"entry": format!("to_multi_{}", name)})),
                        );
                    }
                }
            }
        }
        if n > 0 {
            if let (Ok(s), Ok(m)) = (&single, &multi) {
                let same = m.first().map(|x| (x.is_nan() && s.is_nan()) || x.to_bits() == s.to_bits()).unwrap_or(false);
                if !same {
                    l.violation(
                        format!("to_{}|{}|not-first-of-multi", name, src.variant),
                        format!("to_{} = {:?} but to_multi_{}[0] = {:?}", name, s, name, m.first()),
                        replay.clone(),
                    );
                }
            }
        }
        // wrappers
        l.eval();
        let bits = |r: &Result<Vec<f64>, String>| r.as_ref().ok().map(|v| v.iter().map(|x| if x.is_nan() { u64::MAX } else { x.to_bits() }).collect::<Vec<_>>());
        let (vm, em): (Result<Vec<f64>, String>, Result<Vec<f64>, String>) = if want32 {
            (
                val.to_multi_float32().map(|v| v.iter().map(|x| *x as f64).collect()).map_err(|e| e.to_string()),
                elem.to_multi_float32().map(|v| v.iter().map(|x| *x as f64).collect()).map_err(|e| e.to_string()),
            )
        } else {
            (val.to_multi_float64().map_err(|e| e.to_string()), elem.to_multi_float64().map_err(|e| e.to_string()))
        };
        if bits(&vm) != bits(&multi) || bits(&em) != bits(&multi) {
            l.violation(
                format!("wrapper|to_multi_{}|disagrees-with-primitive", name),
                format!("Value/DataElement::to_multi_{} = {:?}/{:?} but PrimitiveValue gives {:?}", name, vm, em, multi),
                replay.clone(),
            );
        }
        let (vs, es): (Result<f64, String>, Result<f64, String>) = if want32 {
            (val.to_float32().map(|x| x as f64).map_err(|e| e.to_string()), elem.to_float32().map(|x| x as f64).map_err(|e| e.to_string()))
        } else {
            (val.to_float64().map_err(|e| e.to_string()), elem.to_float64().map_err(|e| e.to_string()))
        };
        let b1 = |r: &Result<f64, String>| r.as_ref().ok().map(|x| if x.is_nan() { u64::MAX } else { x.to_bits() });
        if b1(&vs) != b1(&single) || b1(&es) != b1(&single) {
            l.violation(
                format!("wrapper|to_{}|disagrees-with-primitive", name),
                format!("Value/DataElement::to_{} = {:?}/{:?} but PrimitiveValue gives {:?}", name, vs, es, single),
                replay.clone(),
            );
        }
    }
}

// ------------------------------------------------------------------------------------------
// histories

#[derive(Clone, Copy, Debug, PartialEq)]
enum Kind {
    Empty,
    Text,
    U8,
    I16,
    U16,
    I32,
    U32,
    I64,
    U64,
    F32,
    F64,
    Tags,
    Date,
    DateTime,
    Time,
}

#[derive(Clone, Debug, PartialEq)]
enum MI {
    S(String),
    /// float appended to text: must parse back to these bits
    SF32(u32),
    SF64(u64),
    I(i128),
    F32(u32),
    F64(u64),
    /// opaque item identified by its debug text
    O(String),
}

#[derive(Clone, Debug)]
struct Model {
    kind: Kind,
    /// true when the text value is the single-string variant (affects nothing but reporting)
    items: Vec<MI>,
}

fn observe(pv: &PrimitiveValue) -> Model {
    use PrimitiveValue as P;
    macro_rules! ints {
        ($k:ident, $c:expr) => {
            Model { kind: Kind::$k, items: $c.iter().map(|v| MI::I(*v as i128)).collect() }
        };
    }
    match pv {
        P::Empty => Model { kind: Kind::Empty, items: vec![] },
        P::Str(s) => Model { kind: Kind::Text, items: vec![MI::S(s.clone())] },
        P::Strs(c) => Model { kind: Kind::Text, items: c.iter().map(|s| MI::S(s.clone())).collect() },
        P::U8(c) => ints!(U8, c),
        P::I16(c) => ints!(I16, c),
        P::U16(c) => ints!(U16, c),
        P::I32(c) => ints!(I32, c),
        P::U32(c) => ints!(U32, c),
        P::I64(c) => ints!(I64, c),
        P::U64(c) => ints!(U64, c),
        P::F32(c) => Model { kind: Kind::F32, items: c.iter().map(|v| MI::F32(v.to_bits())).collect() },
        P::F64(c) => Model { kind: Kind::F64, items: c.iter().map(|v| MI::F64(v.to_bits())).collect() },
        P::Tags(c) => Model { kind: Kind::Tags, items: c.iter().map(|v| MI::O(format!("{:?}", v))).collect() },
        P::Date(c) => Model { kind: Kind::Date, items: c.iter().map(|v| MI::O(format!("{:?}", v))).collect() },
        P::DateTime(c) => Model { kind: Kind::DateTime, items: c.iter().map(|v| MI::O(format!("{:?}", v))).collect() },
        P::Time(c) => Model { kind: Kind::Time, items: c.iter().map(|v| MI::O(format!("{:?}", v))).collect() },
    }
}

fn int_range(k: Kind) -> Option<(u32, bool)> {
    Some(match k {
        Kind::U8 => (8, false),
        Kind::I16 => (16, true),
        Kind::U16 => (16, false),
        Kind::I32 => (32, true),
        Kind::U32 => (32, false),
        Kind::I64 => (64, true),
        Kind::U64 => (64, false),
        _ => return None,
    })
}

/// integer → integer cast: two's complement wrap-around
fn wrap(v: i128, bits: u32, signed: bool) -> i128 {
    let m = 1i128 << bits;
    let mut r = v.rem_euclid(m);
    if signed && r >= m / 2 {
        r -= m;
    }
    r
}

/// float → integer cast: NaN → 0, truncation toward zero, saturation
fn sat(f: f64, bits: u32, signed: bool) -> i128 {
    let (min, max) = if signed { (-(1i128 << (bits - 1)), (1i128 << (bits - 1)) - 1) } else { (0, (1i128 << bits) - 1) };
    if f.is_nan() {
        return 0;
    }
    if f >= 1e30 {
        return max;
    }
    if f <= -1e30 {
        return min;
    }
    (f.trunc() as i128).clamp(min, max)
}

#[derive(Clone, Debug)]
enum Num {
    I(i128),
    F32(f32),
    F64(f64),
}

/// documented effect of appending `num` to a value of kind `k`
fn cast_into(k: Kind, num: &Num) -> MI {
    if let Some((bits, signed)) = int_range(k) {
        return MI::I(match num {
            Num::I(v) => wrap(*v, bits, signed),
            Num::F32(f) => sat(*f as f64, bits, signed),
            Num::F64(f) => sat(*f, bits, signed),
        });
    }
    match k {
        Kind::F32 => MI::F32(match num {
            Num::I(v) => (*v as i64) as f32,
            Num::F32(f) => *f,
            Num::F64(f) => *f as f32,
        }
        .to_bits()),
        Kind::F64 => MI::F64(match num {
            Num::I(v) => (*v as i64) as f64,
            Num::F32(f) => *f as f64,
            Num::F64(f) => *f,
        }
        .to_bits()),
        Kind::Text => match num {
            Num::I(v) => MI::S(v.to_string()),
            Num::F32(f) => MI::SF32(f.to_bits()),
            Num::F64(f) => MI::SF64(f.to_bits()),
        },
        _ => unreachable!(),
    }
}

fn mi_matches(model: &MI, actual: &MI) -> bool {
    match (model, actual) {
        (MI::SF32(b), MI::S(s)) => match s.parse::<f32>() {
            Ok(v) => (v.is_nan() && f32::from_bits(*b).is_nan()) || v.to_bits() == *b,
            Err(_) => false,
        },
        (MI::SF64(b), MI::S(s)) => match s.parse::<f64>() {
            Ok(v) => (v.is_nan() && f64::from_bits(*b).is_nan()) || v.to_bits() == *b,
            Err(_) => false,
        },
        (MI::F32(a), MI::F32(b)) => a == b || (f32::from_bits(*a).is_nan() && f32::from_bits(*b).is_nan()),
        (MI::F64(a), MI::F64(b)) => a == b || (f64::from_bits(*a).is_nan() && f64::from_bits(*b).is_nan()),
        (a, b) => a == b,
    }
}

fn kind_name(k: Kind) -> String {
    format!("{:?}", k)
}

fn model_json(m: &Model) -> J {
    json!({"kind": kind_name(m.kind), "items": m.items.iter().map(|i| format!("{:?}", i)).collect::<Vec<_>>()})
}

fn history(l: &mut Local, rng: &mut Rng, cfg: &Cfg, idx: u64) {
    let start_variant = *rng.pick(&VARIANTS);
    let src = gen_src(rng, start_variant);
    let mut pv = src.pv.clone();
    let mut model = observe(&pv);
    let steps = rng.urange(1, 30);
    let mut trace: Vec<J> = vec![json!({"start": src_json(&src)})];
    for step in 0..steps {
        let op = rng.below(9);
        let before = observe(&pv);
        let count = match rng.below(6) {
            0 => 0,
            1..=3 => 1,
            4 => 2,
            _ => 3,
        };
        let (opname, desc, result_ok, expected): (&'static str, J, bool, Result<Model, ()>);
        macro_rules! ext_num {
            ($name:literal, $method:ident, $t:ty, $gen:expr, $num:expr, $newkind:ident) => {{
                let nums: Vec<$t> = (0..count).map(|_| $gen).collect();
                let r = pv.$method(nums.iter().copied());
                let exp = match model.kind {
                    Kind::Tags | Kind::Date | Kind::DateTime | Kind::Time => Err(()),
                    Kind::Empty => Ok(Model { kind: Kind::$newkind, items: nums.iter().map(|n| cast_into(Kind::$newkind, &$num(*n))).collect() }),
                    k => {
                        let mut m = model.clone();
                        m.items.extend(nums.iter().map(|n| cast_into(k, &$num(*n))));
                        Ok(m)
                    }
                };
                opname = $name;
                desc = json!({"op": $name, "numbers": nums.iter().map(|n| format!("{:?}", n)).collect::<Vec<_>>()});
                result_ok = r.is_ok();
                expected = exp;
            }};
        }
        match op {
            0 => {
                let strs: Vec<String> = (0..count).map(|_| gen_text_item(rng).0.replace('\\', "/")).collect();
                let r = pv.extend_str(strs.iter().cloned());
                let exp = match model.kind {
                    Kind::Empty | Kind::Text => {
                        let mut m = Model { kind: Kind::Text, items: model.items.clone() };
                        m.items.extend(strs.iter().map(|s| MI::S(s.clone())));
                        Ok(m)
                    }
                    _ => Err(()),
                };
                opname = "extend_str";
                desc = json!({"op": "extend_str", "strings": strs});
                result_ok = r.is_ok();
                expected = exp;
            }
            1 => ext_num!("extend_u16", extend_u16, u16, gen_int_in(rng, 0, 65535) as u16, |n: u16| Num::I(n as i128), U16),
            2 => ext_num!("extend_i16", extend_i16, i16, gen_int_in(rng, -32768, 32767) as i16, |n: i16| Num::I(n as i128), I16),
            3 => ext_num!("extend_i32", extend_i32, i32, gen_int_in(rng, i32::MIN as i128, i32::MAX as i128) as i32, |n: i32| Num::I(n as i128), I32),
            4 => ext_num!("extend_u32", extend_u32, u32, gen_int_in(rng, 0, u32::MAX as i128) as u32, |n: u32| Num::I(n as i128), U32),
            5 => ext_num!("extend_f32", extend_f32, f32, gen_f32(rng), |n: f32| Num::F32(n), F32),
            6 => ext_num!("extend_f64", extend_f64, f64, gen_f64(rng), |n: f64| Num::F64(n), F64),
            _ => {
                let len = model.items.len();
                let limit = match rng.below(6) {
                    0 => 0,
                    1 => len,
                    2 => len + 1 + rng.usize(3),
                    3 => len.saturating_sub(1),
                    _ => rng.usize(len + 1),
                };
                // half of the time through the Value wrapper
                let via_value = rng.bool();
                if via_value {
                    let mut v: Val = Value::Primitive(pv.clone());
                    v.truncate(limit);
                    pv = v.into_primitive().expect("still primitive");
                } else {
                    pv.truncate(limit);
                }
                let mut m = model.clone();
                m.items.truncate(limit);
                opname = "truncate";
                desc = json!({"op": "truncate", "limit": limit, "via": if via_value { "Value::truncate" } else { "PrimitiveValue::truncate" }});
                result_ok = true;
                expected = Ok(m);
            }
        }
        trace.push(desc.clone());
        l.eval();
        l.class(format!("history|{}|on={}|{}", opname, kind_name(before.kind), if before.items.is_empty() { "empty" } else { "non-empty" }));
        let after = observe(&pv);
        let replay = json!({"seed": cfg.seed, "stream": 112, "case": idx, "step": step, "trace": trace,
            "before": model_json(&before), "after": model_json(&after)});
        match expected {
            Err(()) => {
                if result_ok {
                    l.violation(
                        format!("{}|on={}|ok-but-incompatible", opname, kind_name(before.kind)),
                        format!("{} succeeded on a {} value; the documentation requires an error", opname, kind_name(before.kind)),
                        replay,
                    );
                    return;
                }
                if after.kind != before.kind || after.items != before.items {
                    l.violation(
                        format!("{}|on={}|failed-but-modified", opname, kind_name(before.kind)),
                        format!("{} failed on a {} value but changed it", opname, kind_name(before.kind)),
                        replay,
                    );
                    return;
                }
            }
            Ok(m) => {
                if !result_ok {
                    l.violation(
                        format!("{}|on={}|error", opname, kind_name(before.kind)),
                        format!("{} failed on a {} value; the documentation allows it", opname, kind_name(before.kind)),
                        replay,
                    );
                    return;
                }
                // kinds: an empty value may stay `Empty` or take the (empty) typed variant
                let kind_ok = after.kind == m.kind || (m.items.is_empty() && after.items.is_empty() && (after.kind == Kind::Empty || m.kind == Kind::Empty));
                let items_ok = after.items.len() == m.items.len() && m.items.iter().zip(&after.items).all(|(a, b)| mi_matches(a, b));
                if !kind_ok || !items_ok {
                    let what = if !kind_ok {
                        "variant"
                    } else if after.items.len() != m.items.len() {
                        "length"
                    } else {
                        "items"
                    };
                    let single_str = matches!(src.pv, PrimitiveValue::Str(_)) && matches!(pv, PrimitiveValue::Str(_));
                    let limit0 = desc.get("limit").and_then(|x| x.as_u64()) == Some(0);
                    let key = if opname == "truncate" {
                        format!(
                            "truncate|{}|{}{}",
                            if single_str { "Str".to_string() } else { kind_name(before.kind) },
                            what,
                            if limit0 { "|limit=0" } else { "" }
                        )
                    } else {
                        format!("{}|on={}|{}", opname, kind_name(before.kind), what)
                    };
                    let mut r = replay;
                    r["expected"] = model_json(&m);
                    l.violation(
                        key,
                        format!(
                            "after {} the value is {} with {} items {:?}; the list model gives {} with {} items {:?}",
                            desc, kind_name(after.kind), after.items.len(), after.items.iter().take(6).collect::<Vec<_>>(),
                            kind_name(m.kind), m.items.len(), m.items.iter().take(6).collect::<Vec<_>>()
                        ),
                        r,
                    );
                    return;
                }
                if pv.multiplicity() as usize != m.items.len() {
                    l.violation(
                        format!("multiplicity|after-{}|{}", opname, kind_name(after.kind)),
                        format!("multiplicity() = {} but the value has {} items", pv.multiplicity(), m.items.len()),
                        replay,
                    );
                    return;
                }
            }
        }
        // continue from what the implementation holds (kinds of empty values may differ)
        model = after;
    }
    l.count("histories", 1);
}

// ------------------------------------------------------------------------------------------

pub fn run(cfg: &Cfg) -> Outcome {
    let mut total = Local::new();

    // fixed matrix: every variant × empty / one item, all targets (independent of the seed)
    let mut fx = Local::new();
    {
        let mut rng = Rng::derive(cfg.seed, 110, 0);
        for variant in VARIANTS {
            for round in 0..40 {
                let mut src = gen_src(&mut rng, variant);
                if round == 0 && !matches!(variant, "Str" | "Empty") {
                    // force the empty value of this variant
                    src = loop {
                        let s = gen_src(&mut rng, variant);
                        if s.items.is_empty() {
                            break s;
                        }
                    };
                }
                one_conversion_case(&mut fx, &src, &json!({"seed": cfg.seed, "stream": 110, "case": 0, "fixed": true}));
            }
        }
    }
    total.merge(fx);

    let n_conv = cfg.n(100_000, 1_500_000);
    let a = run_parallel(
        cfg,
        111,
        RunLimits {
            cases: n_conv,
            wall: Duration::from_secs(if cfg.thorough() { 900 } else { 120 }),
        },
        |l: &mut Local, rng: &mut Rng, idx: u64| {
            let variant = VARIANTS[(idx % 16) as usize];
            let src = gen_src(rng, variant);
            let replay = json!({"seed": cfg.seed, "stream": 111, "case": idx, "value": src_json(&src)});
            if l.want_sample() && idx % 4099 == 5 {
                l.sample(replay.clone());
            }
            one_conversion_case(l, &src, &replay);
        },
    );
    total.merge(a);

    let n_hist = cfg.n(50_000, 1_500_000);
    let b = run_parallel(
        cfg,
        112,
        RunLimits {
            cases: n_hist,
            wall: Duration::from_secs(if cfg.thorough() { 900 } else { 120 }),
        },
        |l: &mut Local, rng: &mut Rng, idx: u64| history(l, rng, cfg, idx),
    );
    total.merge(b);

    let mut o = Outcome::new(
        total,
        "conversions: 16 PrimitiveValue variants × multiplicity 0/1/2/3-6 × contents (type extremes, out-of-range numbers, integer text with sign/leading zeros/space+NUL padding, >128-bit digit strings, -0, decimal/exponent notation, dyadic fractions, non-numeric text, other white space) × to_int/to_multi_int::<u8,i8,u16,i16,u32,i32,u64,i64,usize,isize> and to_(multi_)float32/64, also through Value and DataElement; oracle = i128 / exact decimal parser / nearest-float check; histories: ≤30 steps of extend_str/u16/i16/i32/u32/f32/f64 and truncate (PrimitiveValue and Value) from every variant vs a Vec model with the documented cast rules; class = (entry point, variant, multiplicity class, item class, target)",
    );
    o.min_evaluations = 500_000;
    o.min_classes = 500;
    o
}

fn one_conversion_case(l: &mut Local, src: &Src, replay: &J) {
    let replay = if replay.get("value").is_some() { replay.clone() } else { with(replay, json!({"value": src_json(src)})) };
    let val: Val = Value::Primitive(src.pv.clone());
    let elem: Elem = DataElement::new(Tag(0x0009, 0x1001), VR::UN, src.pv.clone());
    macro_rules! targets {
        ($($t:ty),*) => { $( check_ints::<$t>(l, src, &val, &elem, stringify!($t), <$t>::MIN as i128, <$t>::MAX as i128, &replay); )* };
    }
    targets!(u8, i8, u16, i16, u32, i32, u64, i64, usize, isize);
    check_floats(l, src, &val, &elem, &replay);
    l.count(&format!("values_{}", src.variant), 1);
    if src.items.is_empty() {
        l.count("empty_values", 1);
    }
}
