//! C26 — P-DATA fragmentation and reassembly preserve the message under any schedule.
//!
//! Writers (`PDataWriter`, `AsyncPDataWriter`, built through the cfg(dicom_rs_verif) constructors)
//! run over scripted transports (`mon::transport`) that record every byte; the reader
//! (`PDataReader::new`, public) runs over scripted sources. The oracle is an own PDU parser plus
//! the clauses of the property statement; nothing of dicom-ul is used to decide a verdict.
//!
//! Legs (stream ids): 1 = exhaustive small schedules on scaled-down writers (every witness is
//! re-executed at M = 1018 before it counts), 2 = random large cases at real maximum lengths
//! (writers + reader on the produced stream), 3 = reader segmentation enumeration.

use crate::mon::transport::*;
use crate::report::*;
use crate::rng::Rng;
use bytes::BytesMut;
use dicom_ul::association::{AsyncPDataWriter, PDataReader, PDataWriter};
use serde_json::{json, Value};
use std::collections::BTreeSet;
use std::future::Future;
use std::io::{Read, Write};
use std::pin::Pin;
use std::sync::atomic::{AtomicU64, Ordering};
use std::sync::{Mutex, OnceLock};
use std::task::{Context, Poll};
use std::time::{Duration, Instant};
use tokio::io::{AsyncRead, AsyncWrite, ReadBuf};

const REAL_MIN: u32 = 1018;

fn rt() -> &'static tokio::runtime::Runtime {
    static RT: OnceLock<tokio::runtime::Runtime> = OnceLock::new();
    RT.get_or_init(|| {
        tokio::runtime::Builder::new_multi_thread()
            .worker_threads(1)
            .enable_all()
            .build()
            .expect("tokio runtime")
    })
}

// ---------------------------------------------------------------------------------------------
// Oracle: own PS3.8 §9.3.5 parser and the clauses of the statement
// ---------------------------------------------------------------------------------------------

#[derive(Debug)]
pub struct PduRec {
    pub ptype: u8,
    pub reserved: u8,
    pub len: u32,
    /// (context id, message control header, data start, data end) per PDV
    pub pdvs: Vec<(u8, u8, usize, usize)>,
    pub pdv_error: Option<&'static str>,
}

/// Split a byte stream into PDUs; P-DATA-TF PDUs are split into their PDV items.
pub fn parse_stream(b: &[u8]) -> Result<Vec<PduRec>, &'static str> {
    let mut out = Vec::new();
    let mut off = 0usize;
    while off < b.len() {
        if b.len() - off < 6 {
            return Err("truncated-pdu-header");
        }
        let len = u32::from_be_bytes([b[off + 2], b[off + 3], b[off + 4], b[off + 5]]);
        let body = off + 6;
        let end = body.checked_add(len as usize).ok_or("length-overflow")?;
        if end > b.len() {
            return Err("truncated-pdu-body");
        }
        let mut rec = PduRec { ptype: b[off], reserved: b[off + 1], len, pdvs: vec![], pdv_error: None };
        if rec.ptype == 0x04 {
            let mut p = body;
            while p < end {
                if end - p < 4 {
                    rec.pdv_error = Some("truncated-pdv-length");
                    break;
                }
                let il = u32::from_be_bytes([b[p], b[p + 1], b[p + 2], b[p + 3]]) as usize;
                if il < 2 {
                    rec.pdv_error = Some("pdv-length-below-2");
                    break;
                }
                if p + 4 + il > end {
                    rec.pdv_error = Some("pdv-exceeds-pdu");
                    break;
                }
                rec.pdvs.push((b[p + 4], b[p + 5], p + 6, p + 4 + il));
                p += 4 + il;
            }
        }
        out.push(rec);
        off = end;
    }
    Ok(out)
}

/// Decide the writer clauses of the statement on a recorded stream.
/// Returns the first failing clause as (key fragment, description).
pub fn check_stream(rec: &[u8], m: u32, ctx: u8, payload: &[u8]) -> Option<(String, String)> {
    let pdus = match parse_stream(rec) {
        Ok(p) => p,
        Err(e) => return Some((format!("not-pdu-sequence:{}", e), format!("recorded bytes are not a sequence of PDUs ({})", e))),
    };
    if pdus.is_empty() {
        return Some(("no-pdu".into(), "nothing was emitted (no final PDV marked last)".into()));
    }
    let n = pdus.len();
    let mut cat: Vec<u8> = Vec::with_capacity(payload.len());
    for (i, p) in pdus.iter().enumerate() {
        if p.ptype != 0x04 {
            return Some(("pdu-type".into(), format!("PDU #{} has type {:#04x}, expected P-DATA-TF (0x04)", i, p.ptype)));
        }
        if p.reserved != 0 {
            return Some(("reserved-byte".into(), format!("PDU #{} reserved byte is {:#04x}", i, p.reserved)));
        }
        if p.len > m {
            return Some(("pdu-length-exceeds-max".into(), format!("PDU #{} of {} has PDU-length {} > maximum {}", i, n, p.len, m)));
        }
        if let Some(e) = p.pdv_error {
            return Some((format!("pdv-structure:{}", e), format!("PDU #{}: {}", i, e)));
        }
        if p.pdvs.len() != 1 {
            return Some(("pdv-count".into(), format!("PDU #{} carries {} PDVs, expected exactly one", i, p.pdvs.len())));
        }
        let (c, ctrl, s, e) = p.pdvs[0];
        if c != ctx {
            return Some(("context-id".into(), format!("PDU #{} PDV has presentation context id {}, expected {}", i, c, ctx)));
        }
        if ctrl & 0x01 != 0 {
            return Some(("control-header:command-bit".into(), format!("PDU #{} message control header {:#04x} has the command bit set", i, ctrl)));
        }
        if ctrl & 0xFC != 0 {
            return Some(("control-header:reserved-bits".into(), format!("PDU #{} message control header {:#04x} has reserved bits set", i, ctrl)));
        }
        let last = ctrl & 0x02 != 0;
        if last && i + 1 != n {
            return Some(("last-flag:on-non-final".into(), format!("PDU #{} of {} is marked last", i, n)));
        }
        if !last && i + 1 == n {
            return Some(("last-flag:missing-on-final".into(), format!("final PDU #{} is not marked last", i)));
        }
        cat.extend_from_slice(&rec[s..e]);
    }
    if cat != payload {
        let kind = if cat.len() < payload.len() && payload.starts_with(&cat) {
            "truncated"
        } else if cat.len() > payload.len() && cat.starts_with(payload) {
            "extended"
        } else {
            "content"
        };
        return Some((
            format!("payload:{}", kind),
            format!("concatenated PDV payload has {} bytes, input {} bytes ({})", cat.len(), payload.len(), kind),
        ));
    }
    None
}

/// Reference stream in the shape the writers are specified to produce: one PDV per PDU, every
/// non-final fragment non-empty, final one marked last. `frags` are payload fragment sizes.
pub fn encode_stream(payload: &[u8], frags: &[usize], ctx: u8) -> Vec<u8> {
    let mut out = Vec::new();
    let mut off = 0;
    for (i, &f) in frags.iter().enumerate() {
        let last = i + 1 == frags.len();
        out.push(0x04);
        out.push(0x00);
        out.extend_from_slice(&((f + 6) as u32).to_be_bytes());
        out.extend_from_slice(&((f + 2) as u32).to_be_bytes());
        out.push(ctx);
        out.push(if last { 0x02 } else { 0x00 });
        out.extend_from_slice(&payload[off..off + f]);
        off += f;
    }
    assert_eq!(off, payload.len());
    out
}

pub fn pattern(n: usize, salt: u8) -> Vec<u8> {
    (0..n).map(|i| ((i * 7 + 3) as u8) ^ salt).collect()
}

// ---------------------------------------------------------------------------------------------
// Executions
// ---------------------------------------------------------------------------------------------

#[derive(Debug, Default, Clone)]
struct WRun {
    /// (chunk index, payload bytes handed over before that chunk, error kind)
    write_err: Option<(usize, usize, String)>,
    finish_err: Option<String>,
    rec: Vec<u8>,
    steps_used: usize,
    failures: u64,
    failed_at: Option<usize>,
    panic: Option<String>,
    // async only
    lost_wakeup: Option<String>,
    stuck: bool,
    /// (in write phase?, recorded length, script position) of every Pending seen
    pendings: Vec<(bool, usize, usize)>,
    over_report: bool,
    cancelled: bool,
}

fn run_sync(payload: &[u8], chunks: &[usize], m: u32, ctx: u8, script: &Script) -> WRun {
    let sink = Sink::new(script.clone());
    let s2 = sink.clone();
    let r = guarded(move || {
        let mut w = PDataWriter::verif_new(s2, ctx, m);
        let mut off = 0usize;
        let mut werr = None;
        for (i, &c) in chunks.iter().enumerate() {
            if let Err(e) = w.write_all(&payload[off..off + c]) {
                werr = Some((i, off, format!("{:?}", e.kind())));
                break;
            }
            off += c;
        }
        let f = w.finish().err().map(|e| format!("{:?}", e.kind()));
        (werr, f)
    });
    let st = sink.0.borrow();
    let mut out = WRun {
        rec: st.rec.clone(),
        steps_used: st.pos,
        failures: st.failures,
        failed_at: st.failed_at,
        ..Default::default()
    };
    match r {
        Ok((w, f)) => {
            out.write_err = w;
            out.finish_err = f;
        }
        Err(p) => out.panic = Some(p),
    }
    out
}

fn run_async(payload: &[u8], chunks: &[usize], m: u32, ctx: u8, script: &Script, cancel: bool) -> WRun {
    let _g = rt().enter();
    let sink = Sink::new(script.clone());
    let s2 = sink.clone();
    let budget: u64 = 64 + 4 * (script.steps.len() as u64) + (payload.len() as u64) * 2;
    let r = guarded(move || {
        let (_cnt, waker) = counting_waker();
        let mut cx = Context::from_waker(&waker);
        let mut out = WRun::default();
        let mut w = AsyncPDataWriter::verif_new(s2.clone(), ctx, m);
        let mut off = 0usize;
        let mut polls = 0u64;
        'chunks: for (i, &c) in chunks.iter().enumerate() {
            let chunk = &payload[off..off + c];
            let mut done = 0usize;
            while done < chunk.len() {
                s2.clear_poll_flag();
                polls += 1;
                match Pin::new(&mut w).poll_write(&mut cx, &chunk[done..]) {
                    Poll::Ready(Ok(0)) => {
                        // what tokio's and futures' write_all do
                        out.write_err = Some((i, off, "WriteZero".into()));
                        break 'chunks;
                    }
                    Poll::Ready(Ok(n)) => {
                        if n > chunk.len() - done {
                            out.over_report = true;
                            break 'chunks;
                        }
                        done += n;
                    }
                    Poll::Ready(Err(e)) => {
                        out.write_err = Some((i, off, format!("{:?}", e.kind())));
                        break 'chunks;
                    }
                    Poll::Pending => {
                        let st = s2.0.borrow();
                        out.pendings.push((true, st.rec.len(), st.pos.saturating_sub(1)));
                        let told = st.pending_in_poll;
                        drop(st);
                        if !told {
                            out.lost_wakeup = Some(format!(
                                "poll_write returned Pending in chunk {} although the transport did not return Pending in that poll",
                                i
                            ));
                            break 'chunks;
                        }
                        if cancel {
                            out.cancelled = true;
                            break 'chunks;
                        }
                        if polls > budget {
                            out.stuck = true;
                            break 'chunks;
                        }
                    }
                }
            }
            off += c;
        }
        if out.lost_wakeup.is_some() || out.stuck {
            // make sure the destructor cannot block
            s2.0.borrow_mut().script = None;
            drop(w);
            return out;
        }
        let fut = w.finish();
        let mut fut = std::pin::pin!(fut);
        loop {
            s2.clear_poll_flag();
            polls += 1;
            match fut.as_mut().poll(&mut cx) {
                Poll::Ready(r) => {
                    out.finish_err = r.err().map(|e| format!("{:?}", e.kind()));
                    break;
                }
                Poll::Pending => {
                    let st = s2.0.borrow();
                    out.pendings.push((false, st.rec.len(), st.pos.saturating_sub(1)));
                    let told = st.pending_in_poll;
                    drop(st);
                    if !told {
                        out.lost_wakeup = Some(
                            "finish returned Pending although the transport did not return Pending in that poll".into(),
                        );
                        s2.0.borrow_mut().script = None;
                        break;
                    }
                    if polls > budget {
                        out.stuck = true;
                        s2.0.borrow_mut().script = None;
                        break;
                    }
                }
            }
        }
        out
    });
    let st = sink.0.borrow();
    let mut out = match r {
        Ok(o) => o,
        Err(p) => WRun { panic: Some(p), ..Default::default() },
    };
    out.rec = st.rec.clone();
    out.steps_used = st.pos;
    out.failures = st.failures;
    out.failed_at = st.failed_at;
    out
}

// ---------------------------------------------------------------------------------------------
// Verdicts for one writer execution (keys contain no sizes so that a scaled-down witness and its
// re-execution at the real minimum share the key)
// ---------------------------------------------------------------------------------------------

#[derive(Clone, Copy, PartialEq, Debug)]
enum Kind {
    Sync,
    Async,
}

impl Kind {
    fn name(self) -> &'static str {
        match self {
            Kind::Sync => "sync",
            Kind::Async => "async",
        }
    }
}

fn judge(
    kind: Kind,
    run: &WRun,
    payload: &[u8],
    m: u32,
    ctx: u8,
    script: &Script,
    baseline: Option<&[u8]>,
) -> Vec<(String, String)> {
    let k = kind.name();
    let cap = (m - 6) as usize;
    let mut v = Vec::new();
    if let Some(p) = &run.panic {
        v.push((format!("{}|panic|{}", k, panic_loc(p)), format!("writer panicked: {}", p)));
        return v;
    }
    if let Some(lw) = &run.lost_wakeup {
        v.push((format!("{}|lost-wakeup", k), lw.clone()));
        return v;
    }
    if run.over_report {
        v.push((format!("{}|write-returned-more-than-offered", k), "poll_write reported more bytes than offered".into()));
        return v;
    }
    if run.stuck {
        return v; // counted by the caller as inconclusive
    }
    let injected = run.failures > 0;
    if run.cancelled {
        // documented: finishing after a cancelled (pending) write must fail, the stream is corrupt
        if run.finish_err.is_none() {
            v.push((
                format!("{}|cancelled-write|finish-ok", k),
                "finish() returned Ok after a write that was abandoned while Pending mid-PDU".into(),
            ));
        }
        return v;
    }
    if !injected {
        if let Some((i, before, kind_s)) = &run.write_err {
            let ctxs = if *before > 0 && before % cap == 0 { "after-exact-fill" } else { "other" };
            v.push((
                format!("{}|write-error|{}|{}", k, kind_s, ctxs),
                format!(
                    "write_all of chunk #{} failed with {} on a healthy transport after {} payload bytes had been accepted (capacity per PDU {}); the remaining payload is lost{}",
                    i,
                    kind_s,
                    before,
                    cap,
                    match check_stream(&run.rec, m, ctx, payload) {
                        Some((c, _)) => format!("; stream left behind: {}", c),
                        None => String::new(),
                    }
                ),
            ));
            return v;
        }
        if let Some(e) = &run.finish_err {
            v.push((format!("{}|finish-error|{}", k, e), format!("finish failed with {} on a healthy transport", e)));
            return v;
        }
        if let Some((c, d)) = check_stream(&run.rec, m, ctx, payload) {
            v.push((format!("{}|stream|{}", k, c), d));
            return v;
        }
        if let Some(b) = baseline {
            if b != &run.rec[..] {
                v.push((
                    format!("{}|bytes-depend-on-transport-schedule", k),
                    format!(
                        "bytes emitted under script {} differ from the bytes emitted over an always-ready transport ({} vs {} bytes)",
                        script.text(),
                        run.rec.len(),
                        b.len()
                    ),
                ));
            }
        }
    } else {
        // a transport failure was injected: it has to surface, and what was emitted before it has
        // to be a prefix of the failure-free stream
        if run.write_err.is_none() && run.finish_err.is_none() {
            v.push((
                format!("{}|transport-error-swallowed", k),
                "the transport failed but write_all and finish both returned Ok".into(),
            ));
        }
        if let (Some(b), Some(at)) = (baseline, run.failed_at) {
            if at > b.len() || run.rec[..at.min(run.rec.len())] != b[..at.min(b.len())] {
                v.push((
                    format!("{}|bytes-before-failure-not-a-prefix", k),
                    "bytes emitted before the injected failure are not a prefix of the failure-free stream".into(),
                ));
            }
        }
    }
    v
}

fn chunk_offsets_class(chunks: &[usize], cap: usize) -> String {
    // relation of the chunk ends to PDU payload boundaries
    let mut on = false;
    let mut before = false;
    let mut after = false;
    let mut acc = 0usize;
    let total: usize = chunks.iter().sum();
    for (i, c) in chunks.iter().enumerate() {
        acc += c;
        if i + 1 == chunks.len() {
            break;
        }
        if acc > 0 && acc % cap == 0 {
            on = true;
        }
        if (acc + 1) % cap == 0 {
            before = true;
        }
        if acc > 1 && (acc - 1) % cap == 0 {
            after = true;
        }
    }
    format!(
        "n{}|on{}|b{}|a{}|end{}|pdus{}",
        chunks.len().min(5),
        on as u8,
        before as u8,
        after as u8,
        if total == 0 { "empty" } else if total % cap == 0 { "on" } else if total % cap == 1 { "+1" } else if (total + 1) % cap == 0 { "-1" } else { "mid" },
        (total / cap).min(4)
    )
}

/// Scale a chunking from a scaled-down capacity to a real one, preserving which chunk ends fall
/// exactly on / just before / just after a PDU payload boundary.
fn scale_chunks(chunks: &[usize], cap_small: usize, cap_big: usize) -> Vec<usize> {
    let map = |p: usize| -> usize {
        let q = p / cap_small;
        let r = p % cap_small;
        let r2 = if r <= cap_small / 2 { r } else { cap_big - (cap_small - r) };
        q * cap_big + r2
    };
    let mut out = Vec::new();
    let mut acc = 0usize;
    let mut prev = 0usize;
    for c in chunks {
        acc += c;
        let m = map(acc);
        out.push(m - prev);
        prev = m;
    }
    out
}

fn script_json(s: &Script) -> Value {
    json!(s.text())
}

struct Shared {
    /// distinct (bytes of the PDU already written when the transport went Pending, script position)
    writing_states: Mutex<BTreeSet<(u32, usize, usize)>>,
    /// recorded streams handed to the independent Python oracle (oracles/pdata_stream.py)
    dump: Mutex<Vec<String>>,
}

const DUMP_CAP: usize = 4000;

/// Hand a failure-free execution over to the Python oracle (small cases only).
fn dump_for_python(sh: &Shared, kind: Kind, run: &WRun, payload: &[u8], m: u32, ctx: u8, verdict: &[(String, String)]) {
    if payload.len() > 6000 || run.rec.len() > 8000 || run.failures > 0 || run.panic.is_some() || run.cancelled {
        return;
    }
    let mut g = sh.dump.lock().unwrap();
    if g.len() >= DUMP_CAP {
        return;
    }
    let clause = verdict.first().map(|(k, _)| k.clone());
    g.push(
        json!({
            "writer": kind.name(), "max": m, "ctx": ctx, "payload_hex": hex(payload), "stream_hex": hex(&run.rec),
            "write_error": run.write_err.as_ref().map(|e| e.2.clone()), "finish_error": run.finish_err,
            "rust_verdict": clause,
        })
        .to_string(),
    );
}

/// Run one writer case and return its violations.
fn exec_case(
    kind: Kind,
    payload: &[u8],
    chunks: &[usize],
    m: u32,
    ctx: u8,
    script: &Script,
    baseline: Option<&[u8]>,
    cancel: bool,
) -> (WRun, Vec<(String, String)>) {
    let run = match kind {
        Kind::Sync => run_sync(payload, chunks, m, ctx, script),
        Kind::Async => run_async(payload, chunks, m, ctx, script, cancel),
    };
    let v = judge(kind, &run, payload, m, ctx, script, baseline);
    (run, v)
}

/// A scaled-down witness counts only if the same clause fails at the real minimum.
fn confirm_at_real(kind: Kind, key: &str, chunks: &[usize], cap_small: usize, ctx: u8, script: &Script, cancel: bool) -> (bool, Value) {
    let cap_big = (REAL_MIN - 6) as usize;
    let big = scale_chunks(chunks, cap_small, cap_big);
    let total: usize = big.iter().sum();
    let payload = pattern(total, 0x5a);
    let base = if kind == Kind::Async {
        Some(run_async(&payload, &big, REAL_MIN, ctx, &Script::all(), false).rec)
    } else if !script.healthy() {
        Some(run_sync(&payload, &big, REAL_MIN, ctx, &Script::all()).rec)
    } else {
        None
    };
    let (run, v) = exec_case(kind, &payload, &big, REAL_MIN, ctx, script, base.as_deref(), cancel);
    let hit = v.iter().find(|(k, _)| k == key);
    let doc = json!({
        "M": REAL_MIN, "chunks": big, "payload_len": total, "script": script_json(script),
        "reproduced": hit.is_some(),
        "what": hit.map(|(_, w)| w.clone()),
        "other_keys": v.iter().map(|(k, _)| k.clone()).collect::<Vec<_>>(),
        "emitted_bytes": run.rec.len(),
    });
    (hit.is_some(), doc)
}

fn report_case(
    l: &mut Local,
    _sh: &Shared,
    kind: Kind,
    viols: Vec<(String, String)>,
    chunks: &[usize],
    m: u32,
    ctx: u8,
    script: &Script,
    cancel: bool,
    replay_base: &Value,
) {
    let cap = (m - 6) as usize;
    for (key, what) in viols {
        let mut rp = replay_base.clone();
        rp["writer"] = json!(kind.name());
        rp["M"] = json!(m);
        rp["ctx"] = json!(ctx);
        rp["chunks"] = json!(chunks);
        rp["script"] = script_json(script);
        rp["cancel"] = json!(cancel);
        if m < REAL_MIN {
            // scaled-down writer: the witness counts only if it reproduces at the library minimum
            l.count("tiny_witnesses", 1);
            let (ok, doc) = confirm_at_real(kind, &key, chunks, cap, ctx, script, cancel);
            rp["confirmed_at_1018"] = doc;
            if ok {
                l.count("tiny_witnesses_confirmed_at_1018", 1);
                l.violation(key, format!("[M={} and M=1018] {}", m, what), rp);
            } else {
                l.count("tiny_witnesses_not_reproduced_at_1018", 1);
                l.note(format!("scaled-down-only effect (not counted): {} at M={}", key, m));
            }
        } else {
            l.violation(key, what, rp);
        }
    }
}

// ---------------------------------------------------------------------------------------------
// Leg 1: exhaustive small schedules
// ---------------------------------------------------------------------------------------------

fn compositions(total: usize, max_parts: usize, f: &mut dyn FnMut(&[usize])) {
    fn rec(left: usize, parts: &mut Vec<usize>, max_parts: usize, f: &mut dyn FnMut(&[usize])) {
        if left == 0 {
            f(parts);
            return;
        }
        if parts.len() == max_parts {
            return;
        }
        let last_slot = parts.len() + 1 == max_parts;
        for c in 1..=left {
            if last_slot && c != left {
                continue;
            }
            parts.push(c);
            rec(left - c, parts, max_parts, f);
            parts.pop();
        }
    }
    if total == 0 {
        f(&[]);
        return;
    }
    let mut parts = Vec::new();
    rec(total, &mut parts, max_parts, f);
}

const ALPHABET: [Step; 4] = [Step::One, Step::Half, Step::All, Step::NotReady];

struct Dfs<'a> {
    l: &'a mut Local,
    sh: &'a Shared,
    payload: &'a [u8],
    chunks: &'a [usize],
    m: u32,
    ctx: u8,
    depth: usize,
    max_not_ready: usize,
    replay: &'a Value,
    baseline: Option<Vec<u8>>,
    runs: u64,
    root_failed: bool,
}

impl Dfs<'_> {
    fn observe(&mut self, kind: Kind, run: &WRun, script: &Script) {
        self.runs += 1;
        self.l.eval();
        if run.stuck {
            self.l.count("inconclusive_poll_budget", 1);
        }
        if kind == Kind::Async {
            let total = (self.m + 6) as usize;
            let mut ws = Vec::new();
            for (in_write, at, pos) in &run.pendings {
                if *in_write {
                    ws.push((self.m, at % total, *pos));
                    self.l.class(format!("async|M{}|Writing@{}|step{}", self.m, at % total, pos));
                } else {
                    self.l.class(format!("async|M{}|finish-pending@{}|step{}", self.m, at % total, pos));
                }
            }
            if !ws.is_empty() {
                let mut g = self.sh.writing_states.lock().unwrap();
                g.extend(ws);
            }
        }
        if self.l.want_sample() && script.steps.len() >= 3 && run.steps_used >= 3 && !run.rec.is_empty() && run.write_err.is_none() {
            self.l.sample(json!({
                "leg": "exhaustive", "writer": kind.name(), "M": self.m, "chunks": self.chunks,
                "script": script.text(), "emitted_hex": hex_short(&run.rec, 96),
                "transport_calls": run.steps_used, "pendings": run.pendings.len(),
            }));
        }
    }

    /// Enumerate all transport scripts of at most `depth` steps up to behavioural equivalence:
    /// a prefix is extended only if the execution actually consumed more steps than it has.
    fn explore(&mut self, kind: Kind, prefix: &mut Vec<Step>, not_ready: usize, known_used: Option<usize>) {
        let used = match known_used {
            Some(u) => u,
            None => {
                let script = Script::new(prefix.clone());
                let (run, v) = exec_case(kind, self.payload, self.chunks, self.m, self.ctx, &script, self.baseline.as_deref(), false);
                self.observe(kind, &run, &script);
                if kind == Kind::Async && self.baseline.is_none() && prefix.is_empty() {
                    self.baseline = Some(run.rec.clone());
                }
                let failed = !v.is_empty();
                report_case(self.l, self.sh, kind, v, self.chunks, self.m, self.ctx, &script, false, self.replay);
                if failed {
                    // the execution stopped early; longer scripts with this prefix add nothing
                    if prefix.is_empty() {
                        self.root_failed = true;
                    }
                    return;
                }
                // cancellation clause: abandon the write at the first Pending
                if kind == Kind::Async && not_ready == 1 && prefix.last() == Some(&Step::NotReady) && run.pendings.iter().any(|p| p.0) {
                    let (crun, cv) = exec_case(kind, self.payload, self.chunks, self.m, self.ctx, &script, None, true);
                    self.observe(kind, &crun, &script);
                    self.l.count("cancelled_write_cases", 1);
                    report_case(self.l, self.sh, kind, cv, self.chunks, self.m, self.ctx, &script, true, self.replay);
                }
                run.steps_used
            }
        };
        if used <= prefix.len() || prefix.len() >= self.depth {
            return;
        }
        for s in ALPHABET {
            if s == Step::NotReady && not_ready >= self.max_not_ready {
                continue;
            }
            prefix.push(s);
            let nr = not_ready + (s == Step::NotReady) as usize;
            if s == Step::All {
                // prefix+[All] followed by the All tail behaves exactly like prefix
                self.explore(kind, prefix, nr, Some(used));
            } else {
                self.explore(kind, prefix, nr, None);
            }
            prefix.pop();
        }
    }

    fn failures(&mut self, kind: Kind, base_steps: usize) {
        // a failing transport call at every position of the always-ready and the byte-wise schedule
        let base = match kind {
            Kind::Sync => run_sync(self.payload, self.chunks, self.m, self.ctx, &Script::all()).rec,
            Kind::Async => self.baseline.clone().unwrap_or_default(),
        };
        for k in 0..=base_steps.min(self.depth) {
            for lead in [Step::All, Step::One] {
                let mut steps = vec![lead; k];
                steps.push(Step::Fail);
                let script = Script::new(steps);
                let (run, v) = exec_case(kind, self.payload, self.chunks, self.m, self.ctx, &script, Some(&base), false);
                self.observe(kind, &run, &script);
                if run.failures > 0 {
                    self.l.count("failure_injections", 1);
                }
                report_case(self.l, self.sh, kind, v, self.chunks, self.m, self.ctx, &script, false, self.replay);
            }
        }
    }
}

fn leg_exhaustive(cfg: &Cfg, sh: &Shared) -> Local {
    // (M, max chunks, script depth); capacity per PDU = M - 6
    let plan: Vec<(u32, usize, usize)> = if cfg.thorough() {
        let mut p: Vec<(u32, usize, usize)> = vec![(12, 4, 6), (13, 4, 6), (14, 4, 6), (15, 4, 6), (16, 4, 5)];
        for m in 17..=24 {
            p.push((m, 3, 5));
        }
        p
    } else {
        vec![(12, 4, 6), (13, 4, 5), (14, 3, 5), (18, 3, 4), (24, 2, 4)]
    };
    let mut items: Vec<(u32, usize, usize, usize)> = Vec::new();
    for (m, parts, depth) in &plan {
        let cap = (*m - 6) as usize;
        for len in 0..=(3 * cap + 2) {
            items.push((*m, *parts, *depth, len));
        }
    }
    // heavy items first
    items.sort_by_key(|it| std::cmp::Reverse((it.3 as u64).pow(it.1 as u32 - 1) * 4u64.pow(it.2 as u32)));
    let wall = Duration::from_secs(if cfg.thorough() { 700 } else { 100 });
    let start = Instant::now();
    let next = AtomicU64::new(0);
    let merged = Mutex::new(Local::new());
    let (lo, hi) = match cfg.only_case {
        Some(i) => (i as usize, (i as usize + 1).min(items.len())),
        None => (0, items.len()),
    };
    next.store(lo as u64, Ordering::SeqCst);
    let threads = if cfg.only_case.is_some() { 1 } else { cfg.threads.max(1) };
    std::thread::scope(|s| {
        for _ in 0..threads {
            s.spawn(|| {
                let mut l = Local::new();
                loop {
                    let i = next.fetch_add(1, Ordering::Relaxed) as usize;
                    if i >= hi {
                        break;
                    }
                    if start.elapsed() > wall {
                        l.note(format!("wall budget of {:?} reached in the exhaustive leg; remaining items skipped", wall));
                        l.count("exhaustive_items_skipped", 1);
                        continue;
                    }
                    let (m, parts, depth, len) = items[i];
                    let cap = (m - 6) as usize;
                    let payload = pattern(len, m as u8);
                    let replay = json!({"seed": cfg.seed, "stream": 1, "leg": "exhaustive", "case": i, "payload_len": len});
                    let r = guarded(|| {
                        let mut ll = Local::new();
                        let mut n_comp = 0u64;
                        compositions(len, parts, &mut |chunks: &[usize]| {
                            n_comp += 1;
                            let ctx = (1 + 2 * ((len + chunks.len()) % 128)) as u8;
                            let cls = chunk_offsets_class(chunks, cap);
                            ll.class(format!("chunks|M{}|{}", m, cls));
                            for kind in [Kind::Sync, Kind::Async] {
                                let mut d = Dfs {
                                    l: &mut ll,
                                    sh,
                                    payload: &payload,
                                    chunks,
                                    m,
                                    ctx,
                                    depth,
                                    max_not_ready: 2,
                                    replay: &replay,
                                    baseline: None,
                                    runs: 0,
                                    root_failed: false,
                                };
                                let mut prefix = Vec::new();
                                d.explore(kind, &mut prefix, 0, None);
                                let base_steps = match kind {
                                    Kind::Sync => 1 + len / cap,
                                    Kind::Async => 1 + len / cap,
                                };
                                if !d.root_failed {
                                    d.failures(kind, base_steps);
                                }
                                let runs = d.runs;
                                ll.count(&format!("schedules_{}", kind.name()), runs);
                            }
                        });
                        ll.count("chunkings", n_comp);
                        ll
                    });
                    match r {
                        Ok(ll) => l.merge(ll),
                        Err(p) => l.violation(
                            format!("harness-panic|{}", panic_loc(&p)),
                            format!("panic outside the guarded writer calls in item {}: {}", i, p),
                            replay.clone(),
                        ),
                    }
                    l.count("exhaustive_items_done", 1);
                }
                merged.lock().unwrap().merge(l);
            });
        }
    });
    let mut l = merged.into_inner().unwrap();
    l.count("exhaustive_items_total", (hi - lo) as u64);
    l
}

// ---------------------------------------------------------------------------------------------
// Reader executions
// ---------------------------------------------------------------------------------------------

#[derive(Debug, Default)]
struct RRun {
    out: Vec<u8>,
    err: Option<String>,
    remainder: Vec<u8>,
    unread: Vec<u8>,
    reread_nonzero: bool,
    lost_wakeup: bool,
    stuck: bool,
    /// the reader handed out more bytes than the whole stream holds (stopped there)
    overrun: bool,
    panic: Option<String>,
    delivered: Vec<usize>,
}

fn run_reader_sync(stream: &[u8], pre: usize, m: u32, script: &Script, user_buf: usize) -> RRun {
    let src = Source::new(stream[pre..].to_vec(), script.clone());
    let s2 = src.clone();
    let mut shared = BytesMut::with_capacity(64);
    shared.extend_from_slice(&stream[..pre]);
    let r = guarded(|| {
        let mut out = RRun::default();
        {
            let mut rd = PDataReader::new(s2, m, &mut shared);
            let mut tmp = vec![0u8; user_buf];
            let mut spins = 0u64;
            loop {
                match rd.read(&mut tmp) {
                    Ok(0) => break,
                    Ok(n) => {
                        out.out.extend_from_slice(&tmp[..n]);
                        if out.out.len() > stream.len() {
                            out.overrun = true;
                            break;
                        }
                    }
                    Err(e) if e.kind() == std::io::ErrorKind::Interrupted => {
                        spins += 1;
                        if spins > 1_000_000 {
                            out.stuck = true;
                            break;
                        }
                    }
                    Err(e) => {
                        out.err = Some(format!("{:?}: {}", e.kind(), e));
                        break;
                    }
                }
            }
            if out.err.is_none() && !out.stuck && !out.overrun {
                // the end is stable and does not eat into what follows
                match rd.read(&mut tmp) {
                    Ok(0) => {}
                    _ => out.reread_nonzero = true,
                }
            }
        }
        out
    });
    let mut out = match r {
        Ok(o) => o,
        Err(p) => RRun { panic: Some(p), ..Default::default() },
    };
    out.remainder = shared.to_vec();
    out.unread = src.unread();
    out.delivered = src.0.borrow().delivered.clone();
    out
}

fn run_reader_async(stream: &[u8], pre: usize, m: u32, script: &Script, user_buf: usize) -> RRun {
    let src = Source::new(stream[pre..].to_vec(), script.clone());
    let s2 = src.clone();
    let mut shared = BytesMut::with_capacity(64);
    shared.extend_from_slice(&stream[..pre]);
    let budget = 64 + 2 * (script.steps.len() as u64) + 4 * stream.len() as u64;
    let r = guarded(|| {
        let (_c, waker) = counting_waker();
        let mut cx = Context::from_waker(&waker);
        let mut out = RRun::default();
        {
            let mut rd = PDataReader::new(s2.clone(), m, &mut shared);
            let mut tmp = vec![0u8; user_buf];
            let mut polls = 0u64;
            let mut ended = false;
            loop {
                let mut rb = ReadBuf::new(&mut tmp);
                s2.clear_poll_flag();
                polls += 1;
                match Pin::new(&mut rd).poll_read(&mut cx, &mut rb) {
                    Poll::Ready(Ok(())) => {
                        let n = rb.filled().len();
                        if ended {
                            if n != 0 {
                                out.reread_nonzero = true;
                            }
                            break;
                        }
                        if n == 0 {
                            ended = true; // poll once more: the end must be stable
                            continue;
                        }
                        out.out.extend_from_slice(rb.filled());
                        if out.out.len() > stream.len() {
                            out.overrun = true;
                            break;
                        }
                    }
                    Poll::Ready(Err(e)) => {
                        out.err = Some(format!("{:?}: {}", e.kind(), e));
                        break;
                    }
                    Poll::Pending => {
                        if !s2.pending_in_poll() {
                            out.lost_wakeup = true;
                            break;
                        }
                        if polls > budget {
                            out.stuck = true;
                            break;
                        }
                    }
                }
            }
        }
        out
    });
    let mut out = match r {
        Ok(o) => o,
        Err(p) => RRun { panic: Some(p), ..Default::default() },
    };
    out.remainder = shared.to_vec();
    out.unread = src.unread();
    out.delivered = src.0.borrow().delivered.clone();
    out
}

fn judge_reader(api: &str, run: &RRun, payload: &[u8], following: &[u8]) -> Option<(String, String)> {
    if let Some(p) = &run.panic {
        return Some((format!("reader-{}|panic|{}", api, panic_loc(p)), format!("reader panicked: {}", p)));
    }
    if run.overrun {
        return Some((format!("reader-{}|overrun", api), format!("the reader handed out {} bytes and was still going, more than the {} payload bytes the stream carries", run.out.len(), payload.len())));
    }
    if run.lost_wakeup {
        return Some((format!("reader-{}|lost-wakeup", api), "poll_read returned Pending although the source did not return Pending in that poll".into()));
    }
    if run.stuck {
        return None;
    }
    if let Some(e) = &run.err {
        let kind: String = e.chars().take_while(|c| c.is_alphanumeric()).collect();
        return Some((format!("reader-{}|error|{}", api, kind), format!("reading a well-formed P-DATA stream failed: {}", e)));
    }
    if run.out != payload {
        let kind = if run.out.len() < payload.len() && payload.starts_with(&run.out) {
            "truncated"
        } else if run.out.len() > payload.len() && run.out.starts_with(payload) {
            "extended"
        } else {
            "content"
        };
        return Some((
            format!("reader-{}|payload:{}", api, kind),
            format!("reader returned {} bytes, payload has {} bytes ({})", run.out.len(), payload.len(), kind),
        ));
    }
    let mut rest = run.remainder.clone();
    rest.extend_from_slice(&run.unread);
    if rest != following {
        let kind = if rest.len() < following.len() { "bytes-of-next-pdu-consumed" } else if rest.len() > following.len() { "bytes-left-over" } else { "content" };
        return Some((
            format!("reader-{}|following-bytes:{}", api, kind),
            format!(
                "after the last fragment the shared buffer holds {} bytes and the source {} unread bytes, together {} — expected exactly the {} bytes that follow the P-DATA stream",
                run.remainder.len(), run.unread.len(), hex_short(&rest, 40), following.len()
            ),
        ));
    }
    if run.reread_nonzero {
        return Some((format!("reader-{}|read-after-end", api), "a read after the end of the P-DATA stream did not return 0 bytes".into()));
    }
    None
}

#[allow(clippy::too_many_arguments)]
fn reader_case(
    l: &mut Local,
    stream: &[u8],
    payload: &[u8],
    following: &[u8],
    pre: usize,
    m: u32,
    script: &Script,
    user_buf: usize,
    both: bool,
    replay: &Value,
    origin: &str,
) {
    for api in ["sync", "async"] {
        if api == "async" && !both {
            continue;
        }
        let run = if api == "sync" {
            run_reader_sync(stream, pre, m, script, user_buf)
        } else {
            run_reader_async(stream, pre, m, script, user_buf)
        };
        l.eval();
        if run.stuck {
            l.count("inconclusive_poll_budget", 1);
        }
        l.count(&format!("reader_{}_runs", api), 1);
        if let Some((key, what)) = judge_reader(api, &run, payload, following) {
            let mut rp = replay.clone();
            rp["reader"] = json!(api);
            rp["origin"] = json!(origin);
            rp["stream_hex"] = json!(hex_short(stream, 2048));
            rp["stream_len"] = json!(stream.len());
            rp["preloaded_in_shared_buffer"] = json!(pre);
            rp["source_script"] = json!(script.text());
            rp["delivered_sizes"] = json!(run.delivered.iter().take(64).collect::<Vec<_>>());
            rp["user_buffer"] = json!(user_buf);
            rp["reader_max_pdu"] = json!(m);
            rp["expected_payload_len"] = json!(payload.len());
            rp["expected_following_hex"] = json!(hex_short(following, 64));
            rp["observed_payload_len"] = json!(run.out.len());
            rp["observed_remainder_hex"] = json!(hex_short(&run.remainder, 64));
            l.violation(key, what, rp);
        }
    }
}

fn release_rq() -> Vec<u8> {
    vec![0x05, 0x00, 0x00, 0x00, 0x00, 0x04, 0x00, 0x00, 0x00, 0x00]
}

// ---------------------------------------------------------------------------------------------
// Leg 3: reader segmentation enumeration on reference streams
// ---------------------------------------------------------------------------------------------

fn leg_reader(cfg: &Cfg) -> Local {
    // item list: (fragment sizes, following bytes, mode)
    #[derive(Clone)]
    struct Item {
        frags: Vec<usize>,
        following: Vec<u8>,
        mode: u8, // 0 = all 2^(n-1) segmentations, 1 = all single+double cuts, 2 = single cuts + boundary double cuts
    }
    let rel = release_rq();
    let next_pdata = encode_stream(&[9, 8, 7], &[3], 5);
    let mut items: Vec<Item> = Vec::new();
    for p in 0..=2usize {
        for f in 0..=(2 - p) {
            items.push(Item { frags: vec![p], following: rel[..f].to_vec(), mode: 0 });
        }
    }
    for p in [0usize, 1, 3, 4] {
        for fol in [vec![], rel.clone(), rel[..5].to_vec(), rel[..6].to_vec(), rel[..7].to_vec(), next_pdata.clone()] {
            items.push(Item { frags: vec![p], following: fol, mode: 1 });
        }
    }
    for fr in [vec![1usize, 1], vec![2, 0], vec![3, 2, 1]] {
        for fol in [vec![], rel.clone(), next_pdata[..8].to_vec()] {
            items.push(Item { frags: fr.clone(), following: fol, mode: 1 });
        }
    }
    let cap = (REAL_MIN - 6) as usize;
    let big: Vec<Vec<usize>> = if cfg.thorough() {
        vec![vec![cap, 0], vec![cap, 1], vec![cap, cap], vec![cap, cap, 5], vec![cap, cap, cap, cap - 1]]
    } else {
        vec![vec![cap, 1], vec![cap, cap, 5]]
    };
    for fr in big {
        for fol in [vec![], rel.clone(), next_pdata.clone()] {
            items.push(Item { frags: fr.clone(), following: fol, mode: 2 });
        }
    }
    let n_items = items.len() as u64;
    let items = &items;
    let mut l = run_parallel(
        cfg,
        3,
        RunLimits { cases: n_items, wall: Duration::from_secs(if cfg.thorough() { 400 } else { 60 }) },
        |l: &mut Local, _rng: &mut Rng, idx: u64| {
            let _g = rt().enter();
            let it = &items[idx as usize];
            let total: usize = it.frags.iter().sum();
            let payload = pattern(total, 0x33);
            let ctx = (1 + 2 * (idx % 128)) as u8;
            let mut stream = encode_stream(&payload, &it.frags, ctx);
            let pdata_len = stream.len();
            stream.extend_from_slice(&it.following);
            let n = stream.len();
            let replay = json!({"seed": cfg.seed, "stream": 3, "leg": "reader", "case": idx, "frags": it.frags});
            let ms = [REAL_MIN, 32762, 0xFFFF_FFF8u32];
            let m = ms[(idx % 3) as usize];
            l.class(format!("reader|mode{}|pdus{}|following{}", it.mode, it.frags.len(), it.following.len()));
            // header boundaries of the stream (PDU starts, PDV data starts)
            let mut marks: Vec<usize> = vec![];
            let mut off = 0;
            for f in &it.frags {
                marks.extend([off, off + 6, off + 10, off + 12]);
                off += 12 + f;
            }
            marks.push(pdata_len);
            marks.push(n);
            match it.mode {
                0 => {
                    // every segmentation; the first segment is alternately pre-loaded into the shared buffer
                    for mask in 0u32..(1u32 << (n.max(1) - 1)) {
                        let cuts: Vec<usize> = (1..n).filter(|i| mask >> (i - 1) & 1 == 1).collect();
                        for preload in [false, true] {
                            let (pre, cuts2): (usize, Vec<usize>) = if preload {
                                match cuts.first() {
                                    Some(&c) => (c, cuts[1..].iter().map(|x| x - c).collect()),
                                    None => continue,
                                }
                            } else {
                                (0, cuts.clone())
                            };
                            let script = script_from_cuts(&cuts2, n - pre);
                            reader_case(l, &stream, &payload, &it.following, pre, m, &script, [1usize, 3, 4096][(mask % 3) as usize], mask % 4 == 0, &replay, "reference");
                            l.count("reader_segmentations", 1);
                        }
                    }
                }
                1 | 2 => {
                    let all: Vec<usize> = (1..n).collect();
                    let near: Vec<usize> = {
                        let mut s = BTreeSet::new();
                        for &mk in &marks {
                            for d in -2i64..=2 {
                                let p = mk as i64 + d;
                                if p >= 1 && (p as usize) < n {
                                    s.insert(p as usize);
                                }
                            }
                        }
                        s.into_iter().collect()
                    };
                    // single cuts, with and without pre-loading, sync and async (+ a Pending at the cut)
                    for &c in &all {
                        for pre in [0usize, c] {
                            let script = if pre == 0 {
                                Script::new(vec![Step::Upto(c), Step::NotReady])
                            } else {
                                Script::new(vec![Step::NotReady])
                            };
                            let ub = if it.mode == 2 { 4096 } else { [1usize, 3, 4096][c % 3] };
                            reader_case(l, &stream, &payload, &it.following, pre, m, &script, ub, it.mode == 1 || near.contains(&c), &replay, "reference");
                            l.count("reader_segmentations", 1);
                        }
                    }
                    let dbl: &Vec<usize> = if it.mode == 1 { &all } else { &near };
                    for (i, &a) in dbl.iter().enumerate() {
                        for &b in &dbl[i + 1..] {
                            let script = script_from_cuts(&[a, b], n);
                            reader_case(l, &stream, &payload, &it.following, 0, m, &script, 4096, (a + b) % 3 == 0, &replay, "reference");
                            l.count("reader_segmentations", 1);
                        }
                    }
                    // byte-wise, halves, and whole-stream delivery
                    for script in [Script::cyclic(vec![Step::One]), Script::cyclic(vec![Step::Half, Step::NotReady]), Script::all(), Script::cyclic(vec![Step::Upto(7), Step::One, Step::NotReady])] {
                        reader_case(l, &stream, &payload, &it.following, 0, m, &script, 4096, true, &replay, "reference");
                        l.count("reader_segmentations", 1);
                    }
                }
                _ => unreachable!(),
            }
            if l.want_sample() && it.mode == 1 && idx % 5 == 0 {
                l.sample(json!({"leg": "reader", "frags": it.frags, "stream_hex": hex_short(&stream, 64), "following_len": it.following.len()}));
            }
        },
    );
    l.count("reader_items", n_items);
    l
}

// ---------------------------------------------------------------------------------------------
// Leg 2: random large cases at real maximum lengths
// ---------------------------------------------------------------------------------------------

const REAL_MS: [u32; 6] = [1018, 1019, 4096, 16384, 32762, 131072];

fn gen_chunks(rng: &mut Rng, total: usize, cap: usize) -> Vec<usize> {
    // cut positions: exactly on / one before / one after PDU payload boundaries, plus random ones
    let mut cuts: BTreeSet<usize> = BTreeSet::new();
    let style = rng.below(6);
    let nb = total / cap;
    match style {
        0 => {} // single chunk
        1 => {
            for k in 1..=nb {
                if rng.chance(2, 3) {
                    let d = *rng.pick(&[-1i64, 0, 0, 1]);
                    cuts.insert(((k * cap) as i64 + d) as usize);
                }
            }
        }
        2 => {
            for k in 1..=nb {
                cuts.insert(k * cap);
            }
        }
        3 => {
            // tiny chunks around one boundary
            if nb > 0 {
                let k = 1 + rng.usize(nb);
                for d in 0..6usize {
                    cuts.insert((k * cap + d).saturating_sub(3));
                }
            }
        }
        4 => {
            for _ in 0..rng.urange(1, 8) {
                if total > 1 {
                    cuts.insert(1 + rng.usize(total - 1));
                }
            }
        }
        _ => {
            // mixture
            for k in 1..=nb {
                match rng.below(4) {
                    0 => {
                        cuts.insert(k * cap);
                    }
                    1 => {
                        cuts.insert(k * cap - 1);
                    }
                    2 => {
                        cuts.insert(k * cap + 1);
                    }
                    _ => {}
                }
            }
            for _ in 0..rng.usize(4) {
                if total > 1 {
                    cuts.insert(1 + rng.usize(total - 1));
                }
            }
        }
    }
    let mut out = Vec::new();
    let mut prev = 0usize;
    for c in cuts {
        if c > prev && c < total {
            out.push(c - prev);
            prev = c;
        }
    }
    if total > prev {
        out.push(total - prev);
    }
    out
}

fn gen_script(rng: &mut Rng, m: u32, allow_fail: bool) -> Script {
    let n = rng.usize(10);
    let mut steps = Vec::new();
    for _ in 0..n {
        steps.push(match rng.below(10) {
            0 | 1 => Step::One,
            2 | 3 => Step::Half,
            4 => Step::All,
            5 => Step::Upto(rng.urange(1, 12)),
            6 => Step::Upto(rng.urange(1, (m as usize).min(70_000))),
            7 => Step::Upto((m as usize + 6).saturating_sub(rng.urange(0, 2))),
            _ => Step::NotReady,
        });
    }
    if allow_fail && rng.chance(1, 12) {
        let at = rng.usize(steps.len() + 1);
        steps.insert(at, Step::Fail);
        return Script::new(steps);
    }
    if rng.chance(1, 4) && steps.iter().any(|s| !matches!(s, Step::NotReady | Step::One | Step::Upto(1..=64))) {
        Script::cyclic(steps)
    } else {
        Script::new(steps)
    }
}

fn leg_random(cfg: &Cfg, sh: &Shared) -> Local {
    let n = cfg.n(6_000, 150_000);
    run_parallel(
        cfg,
        2,
        RunLimits { cases: n, wall: Duration::from_secs(if cfg.thorough() { 500 } else { 60 }) },
        |l: &mut Local, rng: &mut Rng, idx: u64| {
            let _g = rt().enter();
            let m = *rng.pick(&REAL_MS);
            let cap = (m - 6) as usize;
            let kmax = if m >= 100_000 { 3 } else { 5 };
            let k = rng.usize(kmax + 1);
            let d = *rng.pick(&[-2i64, -1, 0, 0, 1, 2]);
            let total = if rng.chance(1, 8) {
                rng.usize(cap * 2 + 3)
            } else {
                ((k * cap) as i64 + d).max(0) as usize
            };
            let payload = rng.bytes(total);
            let chunks = gen_chunks(rng, total, cap);
            let ctx = (1 + 2 * rng.below(128)) as u8;
            let script = gen_script(rng, m, true);
            let replay = json!({"seed": cfg.seed, "stream": 2, "leg": "random", "case": idx, "payload_len": total});
            let cls = chunk_offsets_class(&chunks, cap);
            l.class(format!("rand|M{}|{}", m, cls));
            // always-ready executions
            let (sb, v) = exec_case(Kind::Sync, &payload, &chunks, m, ctx, &Script::all(), None, false);
            if idx % 2 == 0 {
                dump_for_python(sh, Kind::Sync, &sb, &payload, m, ctx, &v);
            }
            l.eval();
            let sync_ok = v.is_empty();
            report_case(l, sh, Kind::Sync, v, &chunks, m, ctx, &Script::all(), false, &replay);
            let (ab, v) = exec_case(Kind::Async, &payload, &chunks, m, ctx, &Script::all(), None, false);
            l.eval();
            let async_ok = v.is_empty();
            report_case(l, sh, Kind::Async, v, &chunks, m, ctx, &Script::all(), false, &replay);
            if sync_ok && async_ok {
                if sb.rec == ab.rec {
                    l.count("sync_equals_async_streams", 1);
                } else {
                    l.count("sync_differs_from_async_streams", 1);
                    l.note("sync and async writers fragment differently (both streams valid; not a violation of the statement)");
                }
            }
            // scripted executions
            if sync_ok {
                let sscript = if script.cyclic && script.steps.iter().all(|s| *s == Step::NotReady) { Script::all() } else { script.clone() };
                let (run, v) = exec_case(Kind::Sync, &payload, &chunks, m, ctx, &sscript, Some(&sb.rec), false);
                l.eval();
                l.count("random_sync_scripted", 1);
                if run.failures > 0 {
                    l.count("failure_injections", 1);
                }
                report_case(l, sh, Kind::Sync, v, &chunks, m, ctx, &sscript, false, &replay);
            }
            if async_ok {
                let (run, v) = exec_case(Kind::Async, &payload, &chunks, m, ctx, &script, Some(&ab.rec), false);
                if idx % 2 == 1 {
                    dump_for_python(sh, Kind::Async, &run, &payload, m, ctx, &v);
                }
                l.eval();
                l.count("random_async_scripted", 1);
                if run.stuck {
                    l.count("inconclusive_poll_budget", 1);
                }
                if run.failures > 0 {
                    l.count("failure_injections", 1);
                }
                for (in_write, at, _) in &run.pendings {
                    if *in_write {
                        let p = at % (m as usize + 6);
                        let b = if p == 0 { "0" } else if p < 12 { "header" } else if p + 1 == m as usize + 6 { "last-byte" } else { "body" };
                        l.class(format!("rand-async|M{}|Writing@{}", m, b));
                        l.count("writing_state_reached", 1);
                    }
                }
                report_case(l, sh, Kind::Async, v, &chunks, m, ctx, &script, false, &replay);
                // second, independent script: bytes must not depend on it either
                let script2 = gen_script(rng, m, false);
                let (_run, v) = exec_case(Kind::Async, &payload, &chunks, m, ctx, &script2, Some(&ab.rec), false);
                l.eval();
                report_case(l, sh, Kind::Async, v, &chunks, m, ctx, &script2, false, &replay);
            }
            // reader on what the writer really produced (only if it is a valid stream for the payload)
            let produced = if sync_ok { Some(&sb.rec) } else if async_ok { Some(&ab.rec) } else { None };
            let (stream_base, origin): (Vec<u8>, &str) = match produced {
                Some(p) => (p.clone(), "writer-output"),
                None => {
                    // the writer failed on this chunking (see violations): use the reference stream so
                    // that the reader is still exercised on this payload
                    let mut frags = vec![cap; total / cap];
                    if total % cap != 0 || total == 0 {
                        frags.push(total % cap);
                    }
                    (encode_stream(&payload, &frags, ctx), "reference")
                }
            };
            let following: Vec<u8> = match rng.below(4) {
                0 => vec![],
                1 => release_rq(),
                2 => release_rq()[..rng.urange(1, 9)].to_vec(),
                _ => encode_stream(&rng.bytes(20), &[20], ctx),
            };
            let mut stream = stream_base;
            stream.extend_from_slice(&following);
            let n = stream.len();
            let ncuts = rng.usize(7);
            let mut cuts: Vec<usize> = (0..ncuts)
                .map(|_| {
                    if rng.bool() || total < cap {
                        1 + rng.usize(n.max(2) - 1)
                    } else {
                        // near a PDU boundary of the stream
                        let kk = 1 + rng.usize((total / cap).max(1));
                        (kk * (cap + 12)).saturating_sub(rng.usize(14)).clamp(1, n - 1)
                    }
                })
                .collect();
            cuts.sort();
            cuts.dedup();
            let pre = if rng.chance(1, 3) && !cuts.is_empty() { cuts[0] } else { 0 };
            let cuts2: Vec<usize> = cuts.iter().filter(|c| **c > pre).map(|c| c - pre).collect();
            let mut rscript = script_from_cuts(&cuts2, n - pre);
            if rng.chance(1, 2) && !rscript.steps.is_empty() {
                let at = rng.usize(rscript.steps.len() + 1);
                rscript.steps.insert(at, Step::NotReady);
            }
            if rng.chance(1, 6) {
                rscript = Script::cyclic(vec![Step::Upto(rng.urange(1, 2000)), Step::NotReady]);
            }
            let rm = *rng.pick(&[m, REAL_MIN, 32762, 0xFFFF_FFF8]);
            let ub = *rng.pick(&[1usize, 2, 100, 4096, 70_000]);
            let ub = if n > 40_000 && ub < 100 { 4096 } else { ub };
            l.class(format!("rand-reader|{}|pdus{}|following{}|pre{}", origin, (total / cap).min(4), following.len().min(11), (pre > 0) as u8));
            reader_case(l, &stream, &payload, &following, pre, rm, &rscript, ub, true, &replay, origin);
            if l.want_sample() && idx % 211 == 0 {
                l.sample(json!({
                    "leg": "random", "case": idx, "M": m, "payload_len": total, "chunks": chunks.iter().take(12).collect::<Vec<_>>(),
                    "script": script.text(), "pdus_emitted": parse_stream(&ab.rec).map(|p| p.len()).unwrap_or(0),
                }));
            }
        },
    )
}

// ---------------------------------------------------------------------------------------------
// Leg 0: a handful of canonical chunkings at every real maximum length (runs first so that the
// witness stored under a key is the smallest one)
// ---------------------------------------------------------------------------------------------

fn leg_canonical(cfg: &Cfg, sh: &Shared) -> Local {
    let mut l = Local::new();
    let _g = rt().enter();
    for (mi, &m) in REAL_MS.iter().enumerate() {
        let cap = (m - 6) as usize;
        let shapes: Vec<Vec<usize>> = vec![
            vec![],
            vec![1],
            vec![cap],
            vec![cap, 1],
            vec![cap - 1, 1],
            vec![cap - 1, 1, 1],
            vec![cap - 1, 2],
            vec![cap + 1],
            vec![cap + 1, cap - 1],
            vec![cap + 1, cap - 1, 1],
            vec![2 * cap],
            vec![2 * cap, 1],
            vec![2 * cap + 1],
            vec![1, cap - 1, cap],
            vec![3 * cap + 2],
        ];
        for (si, chunks) in shapes.iter().enumerate() {
            if let Some(c) = cfg.only_case {
                if c != (mi * 100 + si) as u64 {
                    continue;
                }
            }
            let total: usize = chunks.iter().sum();
            let payload = pattern(total, 0x11);
            let replay = json!({"seed": cfg.seed, "stream": 0, "leg": "canonical", "case": mi * 100 + si, "payload_len": total});
            l.class(format!("canon|M{}|{}", m, chunk_offsets_class(chunks, cap)));
            for kind in [Kind::Sync, Kind::Async] {
                let base = match kind {
                    Kind::Async => Some(run_async(&payload, chunks, m, 1, &Script::all(), false).rec),
                    Kind::Sync => None,
                };
                for script in [Script::all(), Script::cyclic(vec![Step::Half, Step::NotReady]), Script::new(vec![Step::One, Step::NotReady, Step::One, Step::NotReady])] {
                    let (run, v) = exec_case(kind, &payload, chunks, m, 1, &script, base.as_deref(), false);
                    dump_for_python(sh, kind, &run, &payload, m, 1, &v);
                    l.eval();
                    l.count("canonical_cases", 1);
                    report_case(&mut l, sh, kind, v, chunks, m, 1, &script, false, &replay);
                }
            }
        }
    }
    l
}

pub fn run(cfg: &Cfg) -> Outcome {
    let sh = Shared {
        writing_states: Mutex::new(BTreeSet::new()),
        dump: Mutex::new(Vec::new()),
    };
    let leg = cfg.opt("--leg");
    let want = |name: &str| leg.as_deref().map(|l| l == name).unwrap_or(true);
    let mut total = Local::new();
    let mut exhaustive_done = false;
    if want("canonical") && (cfg.only_case.is_none() || leg.is_some()) {
        total.merge(leg_canonical(cfg, &sh));
    }
    if want("exhaustive") {
        let l = leg_exhaustive(cfg, &sh);
        exhaustive_done = l.counters.get("exhaustive_items_skipped").copied().unwrap_or(0) == 0;
        total.merge(l);
    }
    if want("random") {
        total.merge(leg_random(cfg, &sh));
    }
    if want("reader") {
        total.merge(leg_reader(cfg));
    }
    {
        let d = sh.dump.lock().unwrap();
        if !d.is_empty() && cfg.only_case.is_none() {
            let path = format!("{}/streams.jsonl", cfg.out);
            if std::fs::write(&path, d.join("\n") + "\n").is_ok() {
                total.count("streams_written_for_python_oracle", d.len() as u64);
            }
        }
    }
    let ws = sh.writing_states.lock().unwrap();
    total.count("distinct_writing_states_reached", ws.len() as u64);
    let mut o = Outcome::new(
        total,
        "P-DATA writers over scripted transports (partial writes, Pending+self-wake / Interrupted, failures), every recorded byte parsed by an own PS3.8 parser: PDU-length <= max, one PDV per PDU with the given context id, data bit, last only on the final PDV, payload concatenation = input; async bytes independent of the transport script; Pending without a transport Pending = lost wake-up. Leg 1: exhaustive chunkings (<=4 chunks, payload 0..3*cap+2) x all scripts up to 6 steps over {1 byte, half, all, not-ready(<=2)} modulo unused suffixes, on scaled-down writers (M=12..24), every witness re-executed at M=1018 with the chunk pattern scaled; leg 2: random cases at M in {1018,1019,4096,16384,32762,131072} with payloads k*(M-6)+-{0,1,2} and chunk ends on/before/after PDU boundaries, plus the reader on the produced stream; leg 3: PDataReader (sync+async) over every segmentation of small reference streams and all single / boundary double cuts of full-size ones, with following bytes of a next PDU",
    );
    o.exhaustive = false; // leg 1 is exhaustive within its stated bound only
    o.extra.insert("leg1_bound_fully_enumerated".into(), json!(exhaustive_done));
    o.extra.insert(
        "writing_states_sample".into(),
        json!(ws.iter().take(24).map(|(m, p, s)| format!("M{}:pos{}:step{}", m, p, s)).collect::<Vec<_>>()),
    );
    if cfg.only_case.is_none() && leg.is_none() {
        o.min_evaluations = 100_000;
        o.min_classes = 150;
    }
    o
}
