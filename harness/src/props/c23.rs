//! C23 — DICOM JSON serialisation round-trips (up to the documented normalisations) and the
//! deserialiser never panics on any JSON text. With `--annexf` the same workload exports every
//! serialised document (plus the expected little-endian bytes of binary values) for the
//! independent Annex F validator (C24).

use crate::gen::ds::{gen_dataset, DsOpts};
use crate::gen::tree::*;
use crate::refenc;
use crate::report::*;
use crate::rng::Rng;
use dicom_core::header::Header;
use dicom_core::value::{PrimitiveValue, Value};
use dicom_core::VR;
use dicom_object::InMemDicomObject;
use serde_json::{json, Map, Value as J};
use std::io::Write;
use std::sync::Mutex;
use std::time::Duration;

fn is_binary(vr: VR) -> bool {
    matches!(vr, VR::OB | VR::OD | VR::OF | VR::OL | VR::OV | VR::OW | VR::UN)
}

fn text_of(p: &PrimitiveValue) -> Option<Vec<String>> {
    match p {
        PrimitiveValue::Strs(v) => Some(v.iter().map(|s| s.trim_end_matches([' ', '\0']).to_string()).collect()),
        PrimitiveValue::Str(s) => Some(vec![s.trim_end_matches([' ', '\0']).to_string()]),
        PrimitiveValue::Empty => Some(vec![]),
        _ => None,
    }
}

fn num_eq_text(a: &str, b: &str) -> bool {
    if a == b {
        return true;
    }
    match (a.trim().parse::<f64>(), b.trim().parse::<f64>()) {
        (Ok(x), Ok(y)) => x == y || (x.is_nan() && y.is_nan()),
        _ => false,
    }
}

/// compare expected element with what came back from JSON; Err(kind, detail)
fn cmp_elem(e: &GElem, a: &dicom_object::mem::InMemElement, path: &str) -> Result<(), (String, String)> {
    let p = format!("{}({:04X},{:04X})", path, e.tag.0, e.tag.1);
    let fail = |k: &str, d: String| Err((format!("{}|vr={}|shape={}", k, e.vr, e.val.shape()), format!("{}: {}", p, d)));
    if a.vr() != e.vr {
        return fail("vr", format!("VR {} became {}", e.vr, a.vr()));
    }
    match (&e.val, a.value()) {
        (GVal::Seq(s), Value::Sequence(seq)) => {
            if s.items.len() != seq.items().len() {
                return fail("items", format!("{} items became {}", s.items.len(), seq.items().len()));
            }
            for (i, (gi, ai)) in s.items.iter().zip(seq.items().iter()).enumerate() {
                cmp_ds(&gi.elems, ai, &format!("{}[{}].", p, i))?;
            }
            Ok(())
        }
        // an empty sequence may come back as an empty value
        (GVal::Seq(s), Value::Primitive(pv)) if s.items.is_empty() && pv.multiplicity() == 0 => Ok(()),
        (GVal::Seq(_), _) => fail("kind", "sequence became something else".into()),
        (_, Value::Primitive(pv)) => {
            let m = e.val.multiplicity();
            if m == 0 {
                return if pv.multiplicity() == 0 || text_of(pv) == Some(vec![String::new()]) { Ok(()) } else { fail("value", format!("empty value became {:?}", pv)) };
            }
            if is_binary(e.vr) {
                // documented: binary values come back as bytes (little endian)
                let want = refenc::elem_value_bytes(e, false);
                let got: Option<Vec<u8>> = match pv { PrimitiveValue::U8(v) => Some(v.to_vec()), _ => None };
                return match got {
                    Some(g) if g == want || (want.len() % 2 == 1 && g.len() == want.len() + 1 && g[..want.len()] == want[..]) => Ok(()),
                    other => fail("value", format!("binary value {} became {:?}", hex_short(&want, 32), other.map(|g| hex_short(&g, 32)))),
                };
            }
            match &e.val {
                GVal::Strs(_) | GVal::Str(_) | GVal::Date(_) | GVal::Time(_) | GVal::DateTime(_) => {
                    let want: Vec<String> = match &e.val {
                        GVal::Strs(v) => v.iter().map(|s| s.trim_end_matches(' ').to_string()).collect(),
                        GVal::Str(s) => vec![s.trim_end_matches(' ').to_string()],
                        GVal::Date(v) => v.iter().map(|d| d.text()).collect(),
                        GVal::Time(v) => v.iter().map(|d| d.text()).collect(),
                        GVal::DateTime(v) => v.iter().map(|d| d.text()).collect(),
                        _ => unreachable!(),
                    };
                    let got = text_of(pv);
                    let ok = match &got {
                        Some(g) => {
                            if matches!(e.vr, VR::IS | VR::DS) { g.len() == want.len() && g.iter().zip(want.iter()).all(|(a, b)| num_eq_text(a, b)) } else { g == &want }
                        }
                        None => false,
                    };
                    if ok { Ok(()) } else { fail("value", format!("text {:?} became {:?}", want, pv).chars().take(300).collect()) }
                }
                GVal::Tags(v) => match pv {
                    PrimitiveValue::Tags(t) if t.iter().map(|x| (x.0, x.1)).collect::<Vec<_>>() == *v => Ok(()),
                    other => fail("value", format!("tags {:?} became {:?}", v, other)),
                },
                GVal::I32(v) if e.vr == VR::IS => {
                    let got = text_of(pv);
                    match got { Some(g) if g.len() == v.len() && g.iter().zip(v.iter()).all(|(a, b)| num_eq_text(a, &b.to_string())) => Ok(()), _ => fail("value", format!("IS {:?} became {:?}", v, pv)) }
                }
                GVal::F64(v) if e.vr == VR::DS => {
                    let got = text_of(pv);
                    match got { Some(g) if g.len() == v.len() && g.iter().zip(v.iter()).all(|(a, b)| a.trim().parse::<f64>().ok() == Some(*b)) => Ok(()), _ => fail("value", format!("DS {:?} became {:?}", v, pv)) }
                }
                _ => {
                    // numeric VRs: same numbers, variant of the VR
                    let want = crate::cmp::norm_expected(e);
                    let got = crate::cmp::norm_actual(pv);
                    if want == got { Ok(()) } else { fail("value", format!("{:?} became {:?}", want, got).chars().take(300).collect()) }
                }
            }
        }
        (_, _) => fail("kind", "primitive value became a sequence".into()),
    }
}

fn cmp_ds(exp: &[GElem], act: &InMemDicomObject, path: &str) -> Result<(), (String, String)> {
    let et: Vec<(u16, u16)> = exp.iter().map(|e| e.tag).collect();
    let at: Vec<(u16, u16)> = act.iter().map(|e| (e.tag().0, e.tag().1)).collect();
    if et != at {
        return Err(("tags".into(), format!("{}: tags {:04X?} became {:04X?}", path, et, at).chars().take(300).collect()));
    }
    for (e, a) in exp.iter().zip(act.iter()) {
        cmp_elem(e, a, path)?;
    }
    Ok(())
}

fn binary_expect(ds: &[GElem], path: &str, out: &mut Map<String, J>) {
    for e in ds {
        let p = format!("{}{:04X}{:04X}", path, e.tag.0, e.tag.1);
        match &e.val {
            GVal::Seq(s) => {
                for (i, it) in s.items.iter().enumerate() {
                    binary_expect(&it.elems, &format!("{}[{}].", p, i), out);
                }
            }
            GVal::Pix { .. } => {}
            v if is_binary(e.vr) && v.multiplicity() > 0 => {
                out.insert(p, json!(hex(&refenc::elem_value_bytes(e, false))));
            }
            _ => {}
        }
    }
}

/// An element object written as text with its members in a random order (a parsed JSON value
/// would always list them alphabetically) and possibly conflicting value members.
pub fn member_order_doc(rng: &mut Rng) -> String {
            // element objects written as text: the members in every order (a parsed JSON value would
            // always list them alphabetically), with conflicting value members
            let vr = *rng.pick(&["OB", "OW", "US", "OF", "UN", "LO", "FD", "AT"]);
            let value = match vr { "LO" => "[\"x\"]", "AT" => "[\"00100010\"]", _ => "[1,2]" };
            let mut members = vec![format!("\"vr\":\"{}\"", vr)];
            let pool = [format!("\"Value\":{}", value), "\"InlineBinary\":\"AQIDBA==\"".to_string(), "\"BulkDataURI\":\"http://x/y\"".to_string()];
            for m in pool.iter() { if rng.chance(2, 3) { members.push(m.clone()); } }
            rng.shuffle(&mut members);
            let tag = *rng.pick(&["00420011", "7FE00010", "00281201", "00100010", "00091001"]);
            format!("{{\"{}\":{{{}}}}}", tag, members.join(","))
}

fn mutate_json(rng: &mut Rng, doc: &str) -> String {
    let mut v: J = serde_json::from_str(doc).unwrap_or(json!({}));
    let keys: Vec<String> = v.as_object().map(|o| o.keys().cloned().collect()).unwrap_or_default();
    let pick_key = |rng: &mut Rng| -> Option<String> { if keys.is_empty() { None } else { Some(rng.pick(&keys).clone()) } };
    match rng.usize(15) {
        14 => return member_order_doc(rng),
        0 => { if let Some(k) = pick_key(rng) { v[&k]["InlineBinary"] = json!("AQI="); } }
        1 => { if let Some(k) = pick_key(rng) { v[&k]["Value"] = json!([1, 2]); v[&k]["InlineBinary"] = json!("AQI="); } }
        2 => { if let Some(k) = pick_key(rng) { v[&k]["BulkDataURI"] = json!("http://x/y"); } }
        3 => { if let Some(k) = pick_key(rng) { v[&k]["vr"] = json!(*rng.pick(&["SQ", "UN", "XX", "", "ob", "AT", "PN", "FL", "OW"])); } }
        4 => { if let Some(k) = pick_key(rng) { v[&k]["Value"] = rng.pick(&[json!(null), json!("x"), json!({}), json!([null]), json!([[1]]), json!([{"a": 1}]), json!([1.0e300]), json!([18446744073709551616u128 as f64]), json!([-1]), json!([true])]).clone(); } }
        5 => { if let Some(k) = pick_key(rng) { if let Some(o) = v.as_object_mut() { let e = o.remove(&k).unwrap(); let nk = rng.pick(&["0008", "000é000", "ZZZZZZZZ", "(0008,0010)", "0008,0010", "00080010 ", "", "00ü80010", "0008001", "000800100"]).to_string(); o.insert(nk, e); } } }
        6 => { let mut d = json!({"00100010": {"vr": "PN", "Value": [{"Alphabetic": "x"}]}}); for _ in 0..rng.urange(1, 120) { d = json!({"00081140": {"vr": "SQ", "Value": [d]}}); } v = d; }
        7 => { if let Some(k) = pick_key(rng) { v[&k] = rng.pick(&[json!(null), json!([]), json!("s"), json!(5), json!({"Value": [1]}), json!({"vr": 5}), json!({"vr": "US", "vr2": 1}), json!({"vr": "US", "Value": ["NaN"]}), json!({"vr": "FL", "Value": ["nan", "Infinity"]}), json!({"vr": "PN", "Value": [{"Alphabetic": 5}]}), json!({"vr": "PN", "Value": ["x"]}), json!({"vr": "AT", "Value": ["zz"]}), json!({"vr": "AT", "Value": ["000é000"]}), json!({"vr": "OB", "InlineBinary": "@@@"}), json!({"vr": "OB", "InlineBinary": 5})]).clone(); } }
        8 => return doc.chars().take(rng.usize(doc.len() + 1)).collect(),
        9 => { let mut b: Vec<char> = doc.chars().collect(); if !b.is_empty() { let i = rng.usize(b.len()); b[i] = *rng.pick(&['{', '}', '[', ']', '"', ',', ':', 'é', '\u{0}', '9', 'e']); } return b.into_iter().collect(); }
        10 => return rng.pick(&["", "null", "[]", "5", "\"x\"", "{", "{\"a\"", "{\"00080010\":", "{\"00080010\":{}}", "{\"00080010\":{\"vr\":\"SQ\",\"Value\":[5]}}", "{\"00080010\":{\"vr\":\"SQ\",\"Value\":{}}}"]).to_string(),
        11 => { if let Some(k) = pick_key(rng) { let e = v[&k].clone(); v[&k] = json!({"vr": "SQ", "Value": [{ k.clone(): e }]}); } }
        12 => { if let Some(k) = pick_key(rng) { v[&k]["vr"] = json!("UN"); v[&k]["Value"] = json!(["x"]); } }
        _ => { let n = rng.urange(1, 30); let b = rng.bytes(n); return String::from_utf8_lossy(&b).to_string(); }
    }
    v.to_string()
}

pub fn run(cfg: &Cfg) -> Outcome {
    let annexf = cfg.has_flag("--annexf");
    let n = cfg.n(10_000, 300_000);
    let export = if annexf { Some(Mutex::new(std::io::BufWriter::new(std::fs::File::create(format!("{}/json.jsonl", cfg.out)).expect("export")))) } else { None };
    let local = run_parallel(
        cfg,
        23,
        RunLimits { cases: n, wall: Duration::from_secs(if cfg.thorough() { 1200 } else { 120 }) },
        |l: &mut Local, rng: &mut Rng, idx: u64| {
            let mut opts = DsOpts::default();
            opts.encapsulated = false;
            opts.big = rng.chance(1, 20);
            let ds = gen_dataset(rng, &opts);
            let obj = to_object(&ds);
            let replay = json!({"seed": cfg.seed, "stream": 23, "case": idx, "dataset": ds_json(&ds)});
            l.eval();
            walk(&ds, 0, &mut |e, d| l.class(format!("{}|{}|m{}|d{}", e.vr, e.val.shape(), e.val.multiplicity().min(2), d.min(3))));
            let text = match guarded(|| dicom_json::to_string(&obj)) {
                Err(p) => { l.violation(format!("serialize|panic|{}", panic_loc(&p)), p, replay); return; }
                Ok(Err(e)) => { l.violation("serialize|error", e.to_string(), replay); return; }
                Ok(Ok(t)) => t,
            };
            if let Some(ex) = &export {
                let mut bin = Map::new();
                binary_expect(&ds, "", &mut bin);
                let rec = json!({"id": idx, "json": text, "binary": bin, "ctx": {"seed": cfg.seed, "stream": 23, "case": idx}});
                let mut f = ex.lock().unwrap();
                let _ = writeln!(f, "{}", rec);
                return;
            }
            match guarded(|| dicom_json::from_str::<InMemDicomObject>(&text)) {
                Err(p) => { l.violation(format!("deserialize|panic|{}", panic_loc(&p)), p, replay.clone()); }
                Ok(Err(e)) => {
                    let mut r = replay.clone();
                    r["json"] = json!(text.chars().take(2000).collect::<String>());
                    l.violation(format!("deserialize|error|{}", err_class(&e.to_string())), format!("own output does not deserialise: {}", e), r);
                }
                Ok(Ok(back)) => {
                    if let Err((k, d)) = cmp_ds(&ds, &back, "") {
                        let mut r = replay.clone();
                        r["json"] = json!(text.chars().take(2000).collect::<String>());
                        l.violation(format!("roundtrip|{}", k), d, r);
                    }
                }
            }
            // through serde_json::Value too
            if idx % 4 == 0 {
                l.eval();
                match guarded(|| dicom_json::to_value(&obj).and_then(dicom_json::from_value::<InMemDicomObject>)) {
                    Err(p) => l.violation(format!("value-path|panic|{}", panic_loc(&p)), p, replay.clone()),
                    Ok(Err(e)) => l.violation(format!("value-path|error|{}", err_class(&e.to_string())), e.to_string(), replay.clone()),
                    Ok(Ok(back)) => { if let Err((k, d)) = cmp_ds(&ds, &back, "") { l.violation(format!("value-path|roundtrip|{}", k), d, replay.clone()); } }
                }
            }
            // robustness: mutated documents never panic
            for _ in 0..10 {
                let m = mutate_json(rng, &text);
                l.eval();
                l.count("json_mutants", 1);
                let r1 = guarded(|| dicom_json::from_str::<InMemDicomObject>(&m).is_ok());
                match r1 {
                    Err(p) => { l.violation(format!("deserialize-mutant|panic|{}", panic_loc(&p)), format!("{} on {}", p, m.chars().take(300).collect::<String>()), json!({"seed": cfg.seed, "stream": 23, "case": idx, "json": m.chars().take(4000).collect::<String>()})); }
                    Ok(ok) => { l.count(if ok { "mutants_accepted" } else { "mutants_rejected" }, 1); }
                }
                if let Err(p) = guarded(|| dicom_json::from_slice::<InMemDicomObject>(m.as_bytes()).is_ok()) {
                    l.violation(format!("deserialize-mutant-slice|panic|{}", panic_loc(&p)), p, json!({"seed": cfg.seed, "stream": 23, "case": idx, "json": m.chars().take(4000).collect::<String>()}));
                }
            }
            if l.want_sample() && idx % 331 == 0 {
                l.sample(json!({"case": idx, "json": text.chars().take(400).collect::<String>()}));
            }
        },
    );
    if let Some(ex) = &export { ex.lock().unwrap().flush().ok(); }
    let mut o = Outcome::new(
        local,
        if annexf { "G-DS data sets without encapsulated pixel data serialised with dicom_json::to_string; every document exported with the expected little-endian bytes of its binary values for the independent Annex F validator" } else { "G-DS data sets without encapsulated pixel data (every VR, nested sequences, empty and multi-valued values, non-finite floats, 64-bit integers beyond 2^53) → to_string → from_str (and to_value → from_value) compared with the generator's description under the documented normalisations (IS/DS numeric text, binary values as little-endian bytes, padding); plus 10 mutants per document (conflicting members, wrong types, bad keys incl. non-ASCII, deep nesting, truncation, random text) fed to from_str/from_slice: no panic" },
    );
    o.min_evaluations = 2000;
    o.min_classes = 100;
    o
}
