//! C14 — tag / keyword / attribute selector text syntax.
//!
//! Oracle for acceptance: the three forms documented on `impl FromStr for Tag`
//! (`(gggg,eeee)`, `gggg,eeee`, `ggggeeee`, four hex digits each, upper or lower case), written
//! here as a hand-rolled matcher over `char`s. Everything else must be rejected with an error —
//! never a panic. Selectors: own printer of the documented syntax
//! `( «key»([«item»])? . )* «key»` plus the Display implementation, both must parse back to the
//! selector that was built; keywords come from the parsed dictionary source.

use crate::dictsrc::{self, Kind};
use crate::report::*;
use crate::rng::Rng;
use dicom_core::dictionary::DataDictionary;
use dicom_core::ops::{AttributeSelector, AttributeSelectorStep};
use dicom_core::Tag;
use dicom_dictionary_std::StandardDataDictionary;
use serde_json::json;
use std::time::Duration;

// ------------------------------------------------------------------------------------------
// reference matcher

fn hexval(c: char) -> Option<u16> {
    match c {
        '0'..='9' => Some(c as u16 - '0' as u16),
        'a'..='f' => Some(c as u16 - 'a' as u16 + 10),
        'A'..='F' => Some(c as u16 - 'A' as u16 + 10),
        _ => None,
    }
}

fn hex4(cs: &[char]) -> Option<u16> {
    if cs.len() != 4 {
        return None;
    }
    let mut v = 0u16;
    for &c in cs {
        v = (v << 4) | hexval(c)?;
    }
    Some(v)
}

/// Expected outcome of parsing `s` as a tag: Some(tag) iff `s` has one of the documented forms.
pub fn ref_parse_tag(s: &str) -> Option<(u16, u16)> {
    let cs: Vec<char> = s.chars().collect();
    match cs.len() {
        11 if cs[0] == '(' && cs[5] == ',' && cs[10] == ')' => Some((hex4(&cs[1..5])?, hex4(&cs[6..10])?)),
        9 if cs[4] == ',' => Some((hex4(&cs[0..4])?, hex4(&cs[5..9])?)),
        8 => Some((hex4(&cs[0..4])?, hex4(&cs[4..8])?)),
        _ => None,
    }
}

// ------------------------------------------------------------------------------------------
// printers

#[derive(Clone, Copy, Debug, PartialEq)]
enum Form {
    Paren,
    Comma,
    Plain,
}
#[derive(Clone, Copy, Debug, PartialEq)]
enum Case {
    Upper,
    Lower,
    Mixed,
}

const FORMS: [Form; 3] = [Form::Paren, Form::Comma, Form::Plain];
const CASES: [Case; 3] = [Case::Upper, Case::Lower, Case::Mixed];

fn hexdigits(v: u16, case: Case, salt: u32) -> String {
    const UP: &[u8; 16] = b"0123456789ABCDEF";
    const LO: &[u8; 16] = b"0123456789abcdef";
    let mut s = String::new();
    for i in 0..4 {
        let d = ((v >> (12 - 4 * i)) & 15) as usize;
        let up = match case {
            Case::Upper => true,
            Case::Lower => false,
            Case::Mixed => (salt >> i) & 1 == 0,
        };
        s.push(if up { UP[d] } else { LO[d] } as char);
    }
    s
}

fn print_tag(g: u16, e: u16, form: Form, case: Case, salt: u32) -> String {
    let gs = hexdigits(g, case, salt);
    let es = hexdigits(e, case, salt >> 4);
    match form {
        Form::Paren => format!("({},{})", gs, es),
        Form::Comma => format!("{},{}", gs, es),
        Form::Plain => format!("{}{}", gs, es),
    }
}

fn form_name(f: Form) -> &'static str {
    match f {
        Form::Paren => "(gggg,eeee)",
        Form::Comma => "gggg,eeee",
        Form::Plain => "ggggeeee",
    }
}
fn case_name(c: Case) -> &'static str {
    match c {
        Case::Upper => "upper",
        Case::Lower => "lower",
        Case::Mixed => "mixed",
    }
}

// ------------------------------------------------------------------------------------------
// checks

fn check_accept(l: &mut Local, g: u16, e: u16, form: Form, case: Case, salt: u32, origin: &str) {
    let text = print_tag(g, e, form, case, salt);
    l.eval();
    let r = guarded(|| text.parse::<Tag>());
    let key = format!("Tag::from_str|{}|{}", form_name(form), case_name(case));
    let replay = json!({"input": text, "expected": format!("Ok(({:04X},{:04X}))", g, e), "origin": origin});
    match r {
        Ok(Ok(t)) if t == Tag(g, e) => {}
        Ok(Ok(t)) => l.violation(
            format!("{}|wrong-tag", key),
            format!("{:?} parsed to {} instead of ({:04X},{:04X})", text, t, g, e),
            replay,
        ),
        Ok(Err(err)) => l.violation(
            format!("{}|rejected", key),
            format!("{:?} rejected: {:?}", text, err),
            replay,
        ),
        Err(p) => l.violation(
            format!("{}|panic|{}", key, panic_loc(&p)),
            format!("{:?} panicked: {}", text, p),
            replay,
        ),
    }
}

/// Witness class of an arbitrary string for violation keys (no random data).
fn string_class(s: &str) -> String {
    let kind = if s.is_ascii() {
        "ascii"
    } else if s.len() > 4 && !s.is_char_boundary(4) {
        "non-ascii|byte4-inside-char"
    } else {
        "non-ascii"
    };
    format!("bytes={}|{}", s.len(), kind)
}

/// `file` part of a panic location (line numbers would make keys unstable)
fn panic_file(p: &str) -> String {
    let mut loc = panic_loc(p);
    // alternative repository trees (mutant calibration) live elsewhere than /repo
    if let Some(rest) = loc.strip_prefix(&format!("{}/", dictsrc::repo_root())) {
        loc = rest.to_string();
    }
    // panics raised inside the standard library carry a toolchain-specific prefix
    if let Some(rest) = loc.strip_prefix("/rustc/") {
        if let Some((_, tail)) = rest.split_once('/') {
            loc = format!("std:{}", tail);
        }
    }
    match loc.rsplit_once(':') {
        Some((f, l)) if l.chars().all(|c| c.is_ascii_digit()) => f.to_string(),
        _ => loc,
    }
}

fn check_string(l: &mut Local, s: &str, origin: &str) {
    l.eval();
    let expected = ref_parse_tag(s);
    let r = guarded(|| s.parse::<Tag>());
    let replay = json!({"input": s, "input_utf8_hex": hex(s.as_bytes()), "origin": origin,
        "expected": match expected { Some((g, e)) => format!("Ok(({:04X},{:04X}))", g, e), None => "Err(_)".to_string() }});
    match (expected, r) {
        (_, Err(p)) => {
            l.violation(
                format!("Tag::from_str|panic|{}|{}", panic_file(&p), string_class(s)),
                format!("{:?}.parse::<Tag>() panicked: {}", s, p),
                replay,
            );
        }
        (None, Ok(Err(_))) => {
            l.count("rejected_ok", 1);
        }
        (Some((g, e)), Ok(Ok(t))) if t == Tag(g, e) => {
            l.count("accepted_ok", 1);
        }
        (None, Ok(Ok(t))) => l.violation(
            format!("Tag::from_str|accepted-invalid|{}", string_class(s)),
            format!("{:?} is none of the documented forms but parsed to {}", s, t),
            replay,
        ),
        (Some((g, e)), Ok(Ok(t))) => l.violation(
            format!("Tag::from_str|wrong-tag|{}", string_class(s)),
            format!("{:?} parsed to {} instead of ({:04X},{:04X})", s, t, g, e),
            replay,
        ),
        (Some(_), Ok(Err(err))) => l.violation(
            format!("Tag::from_str|rejected-valid|{}", string_class(s)),
            format!("{:?} has a documented form but was rejected: {:?}", s, err),
            replay,
        ),
    }
    // the dictionary front end must not panic either and must agree on tag forms
    let r2 = guarded(|| StandardDataDictionary.parse_tag(s));
    match r2 {
        Err(p) => l.violation(
            format!("parse_tag|panic|{}|{}", panic_file(&p), string_class(s)),
            format!("StandardDataDictionary.parse_tag({:?}) panicked: {}", s, p),
            json!({"input": s, "input_utf8_hex": hex(s.as_bytes()), "origin": origin}),
        ),
        Ok(t) => {
            if let Some((g, e)) = expected {
                if t != Some(Tag(g, e)) {
                    l.violation(
                        "parse_tag|tag-form|mismatch".to_string(),
                        format!("parse_tag({:?}) = {:?}, expected ({:04X},{:04X})", s, t, g, e),
                        json!({"input": s, "origin": origin}),
                    );
                }
            }
        }
    }
}

const WIDE: &[char] = &[
    'é', 'ü', 'ß', 'Ω', 'ж', '中', '山', '€', '😀', '𝔘', '\u{00A0}', '\u{FF10}', '\u{FF21}', '\u{0660}', '\u{200B}',
    '\u{0301}', '\u{FEFF}', '\u{0130}', 'ſ', '\u{212A}',
];
const ASCII_POOL: &[u8] = b"0123456789abcdefABCDEF(),gGxX -+.[]\0\t\n:;/\\_";

fn random_char(rng: &mut Rng) -> char {
    match rng.below(10) {
        0..=4 => ASCII_POOL[rng.usize(ASCII_POOL.len())] as char,
        5..=6 => *rng.pick(WIDE),
        7 => char::from_u32(rng.below(0x80) as u32).unwrap(),
        8 => char::from_u32(0x80 + rng.below(0x780) as u32).unwrap_or('é'),
        _ => loop {
            let c = rng.below(0x11_0000) as u32;
            if let Some(c) = char::from_u32(c) {
                break c;
            }
        },
    }
}

/// random string whose UTF-8 length is biased to the lengths the parser dispatches on
fn random_string(rng: &mut Rng) -> String {
    let target = match rng.below(10) {
        0..=1 => 8,
        2..=3 => 9,
        4..=5 => 11,
        6 => *rng.pick(&[0usize, 1, 2, 3, 4, 5, 6, 7, 10, 12]),
        _ => usize::MAX,
    };
    if target == usize::MAX {
        let n = rng.urange(0, 16);
        return (0..n).map(|_| random_char(rng)).collect();
    }
    // build a string of exactly `target` bytes (at most 16 chars)
    let mut s = String::new();
    let mut guard = 0;
    while s.len() < target && guard < 200 {
        guard += 1;
        let c = random_char(rng);
        if s.len() + c.len_utf8() <= target {
            s.push(c);
        }
    }
    while s.len() < target {
        s.push('0');
    }
    s
}

/// a valid form with one or two characters replaced / inserted / removed
fn near_miss(rng: &mut Rng) -> String {
    let g = rng.next_u32() as u16;
    let e = rng.next_u32() as u16;
    let form = *rng.pick(&FORMS);
    let case = *rng.pick(&CASES);
    let text = print_tag(g, e, form, case, rng.next_u32());
    let mut cs: Vec<char> = text.chars().collect();
    let muts = if rng.chance(1, 4) { 2 } else { 1 };
    for _ in 0..muts {
        let pos = rng.usize(cs.len().max(1));
        match rng.below(8) {
            0..=3 => {
                // replace by a multi-byte char (changes the byte length) or by a same-width oddity
                if !cs.is_empty() {
                    cs[pos] = if rng.chance(2, 3) { *rng.pick(WIDE) } else { random_char(rng) };
                }
            }
            4 => {
                if !cs.is_empty() {
                    cs.remove(pos);
                }
            }
            5 => cs.insert(pos, random_char(rng)),
            6 => {
                if !cs.is_empty() {
                    cs[pos] = *rng.pick(&['g', 'G', 'x', ' ', '+', '-', ',', '(', ')', '.']);
                }
            }
            _ => {
                if cs.len() >= 2 {
                    let j = rng.usize(cs.len());
                    cs.swap(pos, j);
                }
            }
        }
    }
    // frequently re-balance to one of the dispatch byte lengths by dropping hex digits, so that a
    // multi-byte char lands in an 8/9/11-byte string
    let mut s: String = cs.iter().collect();
    if rng.chance(2, 3) {
        let want = *rng.pick(&[8usize, 9, 11]);
        let mut cs: Vec<char> = s.chars().collect();
        let mut guard = 0;
        while cs.iter().map(|c| c.len_utf8()).sum::<usize>() > want && guard < 32 {
            guard += 1;
            // remove an ASCII char, preferring hex digits
            if let Some(i) = cs.iter().position(|c| c.is_ascii_hexdigit()) {
                cs.remove(i);
            } else if let Some(i) = cs.iter().position(|c| c.is_ascii()) {
                cs.remove(i);
            } else {
                break;
            }
        }
        while cs.iter().map(|c| c.len_utf8()).sum::<usize>() < want {
            cs.push('0');
        }
        s = cs.iter().collect();
    }
    s
}

// ------------------------------------------------------------------------------------------
// selectors

#[derive(Clone, Debug)]
enum Key {
    Tag(Tag, Form, Case, u32),
    Keyword(String, Tag),
}

fn key_text(k: &Key) -> String {
    match k {
        Key::Tag(t, f, c, salt) => print_tag(t.0, t.1, *f, *c, *salt),
        Key::Keyword(k, _) => k.clone(),
    }
}
fn key_tag(k: &Key) -> Tag {
    match k {
        Key::Tag(t, ..) => *t,
        Key::Keyword(_, t) => *t,
    }
}

pub fn run(cfg: &Cfg) -> Outcome {
    let entries = match dictsrc::parse_tags_rs() {
        Ok(e) => e,
        Err(e) => {
            let mut o = Outcome::new(Local::new(), "C14");
            o.inconclusive = Some(format!("cannot parse dictionary source: {}", e));
            return o;
        }
    };
    // keyword -> tag as written in the generated source (Single entries: the tag itself;
    // repeating entries: the tag with the open digits zeroed, as documented for TagRange::inner)
    let keywords: Vec<(String, Tag, Kind)> = entries
        .iter()
        .map(|e| (e.alias.clone(), Tag(e.tag.0, e.tag.1), e.kind))
        .collect();

    let mut total = Local::new();

    // ---- leg A: exhaustive-ish acceptance side (single thread pool over groups) -----------
    // all 65 536 groups × 8 elements (+ the same with roles swapped) × 3 forms × 3 cases
    let elems: [u16; 8] = [0x0000, 0x0001, 0x0010, 0x00FF, 0x1234, 0xABCD, 0xFFFE, 0xFFFF];
    let a = run_parallel(
        cfg,
        141,
        RunLimits {
            cases: 65_536,
            wall: Duration::from_secs(600),
        },
        |l: &mut Local, rng: &mut Rng, idx: u64| {
            let g = idx as u16;
            for (k, &e) in elems.iter().enumerate() {
                for form in FORMS {
                    for case in CASES {
                        check_accept(l, g, e, form, case, rng.next_u32(), "group-sweep");
                        if k < 2 {
                            check_accept(l, e, g, form, case, rng.next_u32(), "element-sweep");
                        }
                    }
                }
            }
            l.class(format!("accept|group-high-nibble={:X}", g >> 12));
        },
    );
    total.merge(a);

    // boundary tags + every dictionary tag through the Display form and all other forms
    let mut b = Local::new();
    let boundary: &[(u16, u16)] = &[
        (0, 0), (0xFFFF, 0xFFFF), (0xFFFE, 0xE000), (0xFFFE, 0xE00D), (0xFFFE, 0xE0DD), (0x7FE0, 0x0010),
        (0x0002, 0x0010), (0x0008, 0x0005), (0x0009, 0x0010), (0x0009, 0x00FF), (0x6000, 0x3000), (0x60FE, 0x3000),
        (0xABCD, 0xEFAB), (0xabcd, 0xefab), (0x0a0b, 0x0c0d), (0xFFFF, 0x0000), (0x0000, 0xFFFF),
    ];
    let mut brng = Rng::derive(cfg.seed, 142, 0);
    for &(g, e) in boundary.iter().chain(entries.iter().map(|e| &e.tag)) {
        for form in FORMS {
            for case in CASES {
                check_accept(&mut b, g, e, form, case, brng.next_u32(), "boundary/dictionary");
            }
        }
        // Display output is one of the accepted forms and parses back
        b.eval();
        let shown = Tag(g, e).to_string();
        if ref_parse_tag(&shown) != Some((g, e)) {
            b.violation(
                "Tag::Display|not-an-accepted-form".to_string(),
                format!("Tag({:#06x},{:#06x}) displays as {:?}", g, e, shown),
                json!({"tag": [g, e], "observed": shown}),
            );
        }
        match guarded(|| shown.parse::<Tag>()) {
            Ok(Ok(t)) if t == Tag(g, e) => {}
            other => b.violation(
                "Tag::Display|round-trip".to_string(),
                format!("{:?} (Display of a tag) parsed to {:?}", shown, other.map(|r| r.map(|t| t.to_string()).map_err(|e| format!("{:?}", e)))),
                json!({"tag": [g, e], "display": shown}),
            ),
        }
    }
    b.class("accept|boundary+dictionary-tags");
    total.merge(b);

    // ---- leg B: keywords ------------------------------------------------------------------
    let mut k = Local::new();
    for (alias, tag, kind) in &keywords {
        k.eval();
        let r = guarded(|| StandardDataDictionary.parse_tag(alias));
        let replay = json!({"keyword": alias, "expected_tag": tag.to_string(), "entry_kind": format!("{:?}", kind)});
        match r {
            Ok(Some(t)) if t == *tag => {}
            Ok(other) => k.violation(
                format!("parse_tag|keyword|{:?}", kind),
                format!("keyword {:?} resolved to {:?}, expected {}", alias, other.map(|t| t.to_string()), tag),
                replay,
            ),
            Err(p) => k.violation(
                format!("parse_tag|keyword|panic|{}", panic_loc(&p)),
                format!("keyword {:?} panicked: {}", alias, p),
                replay,
            ),
        }
        // as a one-step selector
        k.eval();
        match guarded(|| StandardDataDictionary.parse_selector(alias)) {
            Ok(Ok(sel)) if sel == AttributeSelector::from(*tag) => {}
            Ok(other) => k.violation(
                format!("parse_selector|keyword|{:?}", kind),
                format!("selector {:?} parsed to {:?}, expected {}", alias, other.map(|s| s.to_string()).map_err(|e| e.to_string()), tag),
                json!({"selector": alias, "expected_tag": tag.to_string()}),
            ),
            Err(p) => k.violation(
                format!("parse_selector|keyword|panic|{}", panic_loc(&p)),
                format!("selector {:?} panicked: {}", alias, p),
                json!({"selector": alias}),
            ),
        }
        k.class(format!("keyword|{:?}|len={}", kind, alias.len().min(40) / 8));
    }
    k.count("keywords", keywords.len() as u64);
    total.merge(k);

    // fixed witnesses (always executed, independent of the seed)
    let mut f = Local::new();
    for s in [
        "000é000", "é000000", "00é0000", "0000é00", "000000é", "0000,é00", "(000é,000)", "(0000,00é)", "0008é", "(0008,0010", "0008,0010)",
        "00080010 ", " 00080010", "0008,00100", "+0080010", "0x080010", "0008-0010", "(0008;0010)", "", "(", "PatientName",
        "００Ａ", "0008,001０", "000\u{0661}0010",
    ] {
        check_string(&mut f, s, "fixed");
        f.class(format!("string|fixed|bytes={}", s.len()));
    }
    total.merge(f);

    // ---- leg C: random strings (rejection side, no panic) -------------------------------------
    let n_strings = cfg.n(1_000_000, 40_000_000);
    let c = run_parallel(
        cfg,
        143,
        RunLimits {
            cases: n_strings / 8,
            wall: Duration::from_secs(if cfg.thorough() { 900 } else { 120 }),
        },
        |l: &mut Local, rng: &mut Rng, _idx: u64| {
            for j in 0..8 {
                let (s, origin) = if j % 2 == 0 {
                    (random_string(rng), "random")
                } else {
                    (near_miss(rng), "near-miss")
                };
                l.class(format!("string|{}|bytes={}|{}", origin, s.len().min(17), if s.is_ascii() { "ascii" } else { "non-ascii" }));
                if !s.is_ascii() && matches!(s.len(), 8 | 9 | 11) {
                    l.count("non_ascii_at_dispatch_length", 1);
                    if !s.is_char_boundary(4) {
                        l.count("non_ascii_straddling_byte_4", 1);
                    }
                }
                check_string(l, &s, origin);
            }
        },
    );
    total.merge(c);
    // ---- leg D: selectors -----------------------------------------------------------------
    let n_sel = cfg.n(200_000, 6_000_000);
    let kw = &keywords;
    let d = run_parallel(
        cfg,
        144,
        RunLimits {
            cases: n_sel,
            wall: Duration::from_secs(if cfg.thorough() { 900 } else { 120 }),
        },
        |l: &mut Local, rng: &mut Rng, idx: u64| {
            let depth = 1 + (idx % 4) as usize;
            let mut keys = Vec::new();
            let mut items: Vec<Option<u32>> = Vec::new(); // None = "[i]" omitted (means item 0)
            for d in 0..depth {
                let key = if rng.chance(2, 5) {
                    let (a, t, _) = &kw[rng.usize(kw.len())];
                    Key::Keyword(a.clone(), *t)
                } else {
                    let t = match rng.below(4) {
                        0 => {
                            let e = &kw[rng.usize(kw.len())];
                            e.1
                        }
                        1 => Tag(rng.next_u32() as u16 | 1, rng.next_u32() as u16),
                        _ => Tag(rng.next_u32() as u16, rng.next_u32() as u16),
                    };
                    Key::Tag(t, *rng.pick(&FORMS), *rng.pick(&CASES), rng.next_u32())
                };
                keys.push(key);
                if d + 1 < depth {
                    items.push(match rng.below(8) {
                        0 => None,
                        1 => Some(0),
                        2 => Some(u32::MAX),
                        3 => Some(rng.next_u32()),
                        4 => Some(rng.below(100_000) as u32),
                        _ => Some(rng.below(12) as u32),
                    });
                }
            }
            // build the selector through the public constructor
            let steps: Vec<AttributeSelectorStep> = (0..depth)
                .map(|d| {
                    if d + 1 < depth {
                        AttributeSelectorStep::Nested {
                            tag: key_tag(&keys[d]),
                            item: items[d].unwrap_or(0),
                        }
                    } else {
                        AttributeSelectorStep::Tag(key_tag(&keys[d]))
                    }
                })
                .collect();
            let sel = match AttributeSelector::new(steps.clone()) {
                Some(s) => s,
                None => {
                    l.violation(
                        "AttributeSelector::new|valid-steps-rejected".to_string(),
                        format!("AttributeSelector::new refused {:?}", steps),
                        json!({"seed": cfg.seed, "stream": 144, "case": idx}),
                    );
                    return;
                }
            };
            // expected Display text per the documented step syntax, written independently
            let mut expected_display = String::new();
            for d in 0..depth {
                if d > 0 {
                    expected_display.push('.');
                }
                let t = key_tag(&keys[d]);
                expected_display.push_str(&format!("({:04X},{:04X})", t.0, t.1));
                if d + 1 < depth {
                    expected_display.push_str(&format!("[{}]", items[d].unwrap_or(0)));
                }
            }
            // free-form text of the same selector using keywords / other tag forms / omitted [0]
            let mut free = String::new();
            for d in 0..depth {
                if d > 0 {
                    free.push('.');
                }
                free.push_str(&key_text(&keys[d]));
                if d + 1 < depth {
                    if let Some(i) = items[d] {
                        free.push_str(&format!("[{}]", i));
                    }
                }
            }
            let kinds: String = keys.iter().map(|k| if matches!(k, Key::Keyword(..)) { 'K' } else { 'T' }).collect();
            l.class(format!("selector|depth={}|keys={}", depth, kinds));
            let replay = json!({"seed": cfg.seed, "stream": 144, "case": idx, "steps": format!("{:?}", steps),
                "expected_display": expected_display, "free_text": free});
            if l.want_sample() && idx % 977 == 3 {
                l.sample(replay.clone());
            }

            l.eval();
            let shown = sel.to_string();
            if shown != expected_display {
                l.violation(
                    format!("AttributeSelector::Display|depth={}|text", depth),
                    format!("selector displays as {:?}, documented syntax gives {:?}", shown, expected_display),
                    replay.clone(),
                );
            }
            for (what, text) in [("display", &shown), ("free-form", &free)] {
                l.eval();
                match guarded(|| StandardDataDictionary.parse_selector(text)) {
                    Ok(Ok(back)) if back == sel => {
                        // also step-wise (PartialEq of the selector is derived, but be explicit)
                        let bs: Vec<AttributeSelectorStep> = back.iter().copied().collect();
                        let ss: Vec<AttributeSelectorStep> = sel.iter().copied().collect();
                        if bs != ss {
                            l.violation(
                                format!("parse_selector|{}|depth={}|steps", what, depth),
                                format!("{:?} parsed to steps {:?}, expected {:?}", text, bs, ss),
                                replay.clone(),
                            );
                        }
                    }
                    Ok(Ok(back)) => l.violation(
                        format!("parse_selector|{}|depth={}|keys={}|mismatch", what, depth, kinds),
                        format!("{:?} parsed to {}, expected {}", text, back, sel),
                        replay.clone(),
                    ),
                    Ok(Err(e)) => l.violation(
                        format!("parse_selector|{}|depth={}|keys={}|rejected", what, depth, kinds),
                        format!("{:?} rejected: {}", text, e),
                        replay.clone(),
                    ),
                    Err(p) => l.violation(
                        format!("parse_selector|{}|panic|{}", what, panic_loc(&p)),
                        format!("{:?} panicked: {}", text, p),
                        replay.clone(),
                    ),
                }
            }
        },
    );
    total.merge(d);

    let mut o = Outcome::new(
        total,
        "acceptance: all 65 536 groups × 8 elements (and 2 swapped) × 3 forms × {upper,lower,mixed} + boundary + every dictionary tag, Display round trip; keywords: every alias of the parsed dictionary source through parse_tag and as a one-step selector; rejection: random Unicode strings of 0-16 chars biased to byte lengths 8/9/11 and near-miss mutations of valid forms (multi-byte replacements), oracle = hand-written matcher of the three documented forms, panics are violations; selectors: depth 1-4, tags in all forms / keywords, item indices incl. 0, omitted and u32::MAX, Display == documented syntax and both Display and free-form text parse back to the selector",
    );
    o.min_evaluations = 1_000_000;
    o.min_classes = 40;
    o
}
