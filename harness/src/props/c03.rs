//! C03 — element/item header wire layout (PS3.5 §7.1), exhaustive over VR × TS × boundary
//! tags × boundary lengths, all 65 536 two-byte VR codes, item/delimiter headers, and the
//! adaptive decoder in its locked states.

use crate::gen::ds::ALL_VRS;
use crate::refenc::{self, Ts};
use crate::report::*;
use dicom_core::dictionary::{DataDictionary, DataDictionaryEntry};
use dicom_core::header::{DataElementHeader, HasLength, Header, Length, SequenceItemHeader};
use dicom_core::{Tag, VR};
use dicom_dictionary_std::StandardDataDictionary;
use dicom_encoding::decode::adaptive_le::AdaptiveVRLittleEndianDecoder;
use dicom_encoding::decode::explicit_be::ExplicitVRBigEndianDecoder;
use dicom_encoding::decode::explicit_le::ExplicitVRLittleEndianDecoder;
use dicom_encoding::decode::implicit_le::ImplicitVRLittleEndianDecoder;
use dicom_encoding::decode::Decode;
use dicom_encoding::encode::explicit_be::ExplicitVRBigEndianEncoder;
use dicom_encoding::encode::explicit_le::ExplicitVRLittleEndianEncoder;
use dicom_encoding::encode::implicit_le::ImplicitVRLittleEndianEncoder;
use dicom_encoding::encode::Encode;
use serde_json::json;
use std::str::FromStr;

fn encode_hdr(ts: Ts, h: DataElementHeader) -> Result<(Vec<u8>, usize), String> {
    let mut out = Vec::new();
    let r = match ts {
        Ts::ImplicitLe => ImplicitVRLittleEndianEncoder::default().encode_element_header(&mut out, h),
        Ts::ExplicitLe => ExplicitVRLittleEndianEncoder::default().encode_element_header(&mut out, h),
        Ts::ExplicitBe => ExplicitVRBigEndianEncoder::default().encode_element_header(&mut out, h),
    };
    r.map(|n| (out, n)).map_err(|e| format!("{:?}", e).chars().take(120).collect())
}

fn decode_hdr(ts: Ts, bytes: &[u8]) -> Result<(DataElementHeader, usize, usize), String> {
    let mut src = bytes;
    let before = src.len();
    let r = match ts {
        Ts::ImplicitLe => ImplicitVRLittleEndianDecoder::<StandardDataDictionary>::default()
            .decode_header(&mut src),
        Ts::ExplicitLe => ExplicitVRLittleEndianDecoder::default().decode_header(&mut src),
        Ts::ExplicitBe => ExplicitVRBigEndianDecoder::default().decode_header(&mut src),
    };
    r.map(|(h, n)| (h, n, before - src.len()))
        .map_err(|e| format!("{:?}", e).chars().take(120).collect())
}

fn decode_item(ts: Ts, bytes: &[u8]) -> Result<(SequenceItemHeader, usize), String> {
    let mut src = bytes;
    let before = src.len();
    let r = match ts {
        Ts::ImplicitLe => ImplicitVRLittleEndianDecoder::<StandardDataDictionary>::default()
            .decode_item_header(&mut src),
        Ts::ExplicitLe => ExplicitVRLittleEndianDecoder::default().decode_item_header(&mut src),
        Ts::ExplicitBe => ExplicitVRBigEndianDecoder::default().decode_item_header(&mut src),
    };
    r.map(|h| (h, before - src.len()))
        .map_err(|e| format!("{:?}", e).chars().take(120).collect())
}

fn implicit_vr(tag: (u16, u16)) -> VR {
    StandardDataDictionary
        .by_tag(Tag(tag.0, tag.1))
        .map(|e| e.vr().relaxed())
        .unwrap_or(VR::UN)
}

pub fn run(cfg: &Cfg) -> Outcome {
    let mut l = Local::new();
    l.sample_cap = 6;
    let tags: Vec<(u16, u16)> = vec![
        (0x0000, 0x0000), (0x0000, 0x0002), (0x0002, 0x0000), (0x0002, 0x0010), (0x0008, 0x0000),
        (0x0008, 0x0005), (0x0008, 0x0018), (0x0008, 0x0060), (0x0008, 0x1140), (0x0009, 0x0010),
        (0x0009, 0x1001), (0x0010, 0x0010), (0x0018, 0x6011), (0x0020, 0x000D), (0x0020, 0x3100),
        (0x0028, 0x0010), (0x0028, 0x0100), (0x0028, 0x0103), (0x0028, 0x0106), (0x0028, 0x3006),
        (0x0040, 0xA730), (0x0101, 0x0001), (0x00FF, 0xFF00), (0x1000, 0x0011), (0x4FFE, 0x0001),
        (0x5000, 0x3000), (0x50FE, 0x0005), (0x5400, 0x1010), (0x6000, 0x3000), (0x60FE, 0x0010),
        (0x7FE0, 0x0001), (0x7FE0, 0x0010), (0x7FE1, 0x0010), (0x7FFF, 0xFFFF), (0x8000, 0x0000),
        (0xFFFA, 0xFFFA), (0xFFFC, 0xFFFC), (0xFFFD, 0x0001), (0xFFFF, 0xFFFF), (0x0102, 0x0201),
    ];
    let lens: Vec<u32> = vec![
        0, 1, 2, 0xFE, 0xFFFE, 0xFFFF, 0x1_0000, 0x1_0001, 0x0102_0304, 0x7FFF_FFFF, 0xFFFF_FFFE,
        0xFFFF_FFFF,
    ];
    // (a) element headers
    for ts in Ts::ALL {
        for vr in ALL_VRS {
            for &tag in &tags {
                for &len in &lens {
                    l.eval();
                    let want = refenc::header_bytes(tag, vr, len, ts);
                    let h = DataElementHeader::new(Tag(tag.0, tag.1), vr, Length(len));
                    let key = |k: &str| format!("{}|{}|vr={}", ts.name(), k, vr);
                    let replay = json!({"ts": ts.name(), "vr": vr.to_string(), "tag": format!("{:04X}{:04X}", tag.0, tag.1), "len": len});
                    let form = if !ts.explicit() { "implicit" } else if refenc::short_form(vr) { "short" } else { "long" };
                    l.class(format!("{}|{}|{}|fits={}", ts.name(), vr, form, want.is_some()));
                    match (guarded(|| encode_hdr(ts, h)), &want) {
                        (Err(p), _) => {
                            l.violation(key("encode-panic"), format!("encoder panicked: {}", p), replay);
                        }
                        (Ok(Err(_)), None) => {
                            l.count("overflow_rejected", 1);
                        }
                        (Ok(Ok((bytes, _))), None) => {
                            l.violation(
                                key("overflow-not-rejected"),
                                format!("16-bit length form with length {:#x} was written as {} instead of being rejected", len, hex(&bytes)),
                                replay,
                            );
                        }
                        (Ok(Err(e)), Some(_)) => {
                            l.violation(key("encode-error"), format!("encoding a valid header failed: {}", e), replay);
                        }
                        (Ok(Ok((bytes, n))), Some(w)) => {
                            if &bytes != w {
                                l.violation(
                                    key("layout"),
                                    format!("header bytes {} but PS3.5 layout is {}", hex(&bytes), hex(w)),
                                    replay.clone(),
                                );
                                continue;
                            }
                            if n != bytes.len() {
                                l.violation(
                                    key("encode-count"),
                                    format!("encoder reported {} bytes but wrote {}", n, bytes.len()),
                                    replay.clone(),
                                );
                            }
                            // decode the reference bytes followed by sentinel bytes
                            let mut stream = w.clone();
                            stream.extend_from_slice(&[0xAA; 8]);
                            match guarded(|| decode_hdr(ts, &stream)) {
                                Err(p) => l.violation(key("decode-panic"), format!("decoder panicked: {}", p), replay),
                                Ok(Err(e)) => l.violation(key("decode-error"), format!("decoding a valid header failed: {}", e), replay),
                                Ok(Ok((dh, reported, consumed))) => {
                                    let want_vr = if ts.explicit() { vr } else { implicit_vr(tag) };
                                    if dh.tag() != Tag(tag.0, tag.1) || dh.length().0 != len {
                                        l.violation(key("decode-tag-len"), format!("decoded {:?} from {}", dh, hex(w)), replay.clone());
                                    }
                                    if dh.vr() != want_vr {
                                        l.violation(key("decode-vr"), format!("decoded VR {} (expected {}) from {}", dh.vr(), want_vr, hex(w)), replay.clone());
                                    }
                                    if reported != w.len() || consumed != w.len() {
                                        l.violation(
                                            key("decode-count"),
                                            format!("layout is {} bytes, decoder reported {} and consumed {}", w.len(), reported, consumed),
                                            replay,
                                        );
                                    }
                                }
                            }
                        }
                    }
                }
            }
        }
    }
    // (b) all two-byte VR codes
    // the 34 codes of PS3.5 Table 6.2-1, written out by hand
    let names: Vec<[u8; 2]> = [
        "AE", "AS", "AT", "CS", "DA", "DS", "DT", "FL", "FD", "IS", "LO", "LT", "OB", "OD", "OF",
        "OL", "OV", "OW", "PN", "SH", "SL", "SQ", "SS", "ST", "SV", "TM", "UC", "UI", "UL", "UN",
        "UR", "US", "UT", "UV",
    ]
    .iter()
    .map(|s| [s.as_bytes()[0], s.as_bytes()[1]])
    .collect();
    let mut recognised = 0u64;
    for code in 0..=0xFFFFu32 {
        l.eval();
        let b = [(code >> 8) as u8, code as u8];
        let defined = names.contains(&b);
        let got = VR::from_binary(b);
        if got.is_some() {
            recognised += 1;
        }
        let replay = json!({"code": hex(&b)});
        match (defined, got) {
            (true, Some(v)) => {
                if v.to_bytes() != b {
                    l.violation("vr-code|wrong-vr", format!("code {:?} recognised as {}", b, v), replay);
                }
            }
            (true, None) => l.violation("vr-code|defined-rejected", format!("defined code {} not recognised", String::from_utf8_lossy(&b)), replay),
            (false, Some(v)) => l.violation("vr-code|undefined-accepted", format!("undefined code {:?} recognised as {}", b, v), replay),
            (false, None) => {}
        }
        if let Ok(s) = std::str::from_utf8(&b) {
            let fs = VR::from_str(s).ok();
            if fs.is_some() != defined {
                l.violation("vr-code|from_str", format!("VR::from_str({:?}) = {:?}", s, fs), json!({"code": hex(&b)}));
            }
        }
        // explicit decoders: a defined code decodes to that VR; an undefined one never to a
        // defined VR other than UN
        for ts in [Ts::ExplicitLe, Ts::ExplicitBe] {
            let mut stream = Vec::new();
            if ts.big() { stream.extend_from_slice(&[0x00, 0x09, 0x10, 0x01]); } else { stream.extend_from_slice(&[0x09, 0x00, 0x01, 0x10]); }
            stream.extend_from_slice(&b);
            stream.extend_from_slice(&[0, 0, 0, 0, 0, 0, 0, 0, 0, 0]);
            match guarded(|| decode_hdr(ts, &stream)) {
                Err(p) => l.violation(format!("{}|vr-code-decode-panic", ts.name()), p, json!({"code": hex(&b)})),
                Ok(Ok((dh, _, _))) => {
                    if defined && dh.vr().to_bytes() != b {
                        l.violation(format!("{}|vr-code-decode|defined", ts.name()), format!("code {} decoded as {}", String::from_utf8_lossy(&b), dh.vr()), json!({"code": hex(&b)}));
                    }
                    if !defined && dh.vr() != VR::UN {
                        l.violation(format!("{}|vr-code-decode|undefined", ts.name()), format!("undefined code {:?} decoded as {}", b, dh.vr()), json!({"code": hex(&b)}));
                    }
                }
                Ok(Err(_)) => {
                    if defined {
                        l.violation(format!("{}|vr-code-decode|defined-error", ts.name()), format!("defined code {} failed to decode", String::from_utf8_lossy(&b)), json!({"code": hex(&b)}));
                    }
                }
            }
        }
    }
    l.count("vr_codes_recognised", recognised);
    for v in ALL_VRS {
        l.class(format!("vr-code|{}", v));
    }
    // (c) item / delimiter headers
    for ts in Ts::ALL {
        for &len in &lens {
            l.eval();
            let mut out = Vec::new();
            let r = match ts {
                Ts::ImplicitLe => ImplicitVRLittleEndianEncoder::default().encode_item_header(&mut out, len),
                Ts::ExplicitLe => ExplicitVRLittleEndianEncoder::default().encode_item_header(&mut out, len),
                Ts::ExplicitBe => ExplicitVRBigEndianEncoder::default().encode_item_header(&mut out, len),
            };
            let want = refenc::item_bytes(0xE000, len, ts);
            l.class(format!("{}|item|len={:#x}", ts.name(), len));
            if r.is_err() || out != want {
                l.violation(format!("{}|item-layout", ts.name()), format!("item header {} expected {}", hex(&out), hex(&want)), json!({"len": len}));
            }
            match decode_item(ts, &want) {
                Ok((SequenceItemHeader::Item { len: l2 }, 8)) if l2.0 == len => {}
                other => l.violation(format!("{}|item-decode", ts.name()), format!("decoding {} gave {:?}", hex(&want), other), json!({"len": len})),
            }
            // the element-header decoder must treat FFFE tags as tag + 32-bit length too
            match decode_hdr(ts, &want) {
                Ok((dh, 8, 8)) if dh.tag() == Tag(0xFFFE, 0xE000) && dh.length().0 == len => {}
                other => l.violation(format!("{}|item-as-header", ts.name()), format!("decode_header on {} gave {:?}", hex(&want), other), json!({"len": len})),
            }
        }
        for (el, name) in [(0xE00Du16, "item-delimiter"), (0xE0DD, "sequence-delimiter")] {
            l.eval();
            let mut out = Vec::new();
            let r = match (ts, el) {
                (Ts::ImplicitLe, 0xE00D) => ImplicitVRLittleEndianEncoder::default().encode_item_delimiter(&mut out),
                (Ts::ExplicitLe, 0xE00D) => ExplicitVRLittleEndianEncoder::default().encode_item_delimiter(&mut out),
                (Ts::ExplicitBe, 0xE00D) => ExplicitVRBigEndianEncoder::default().encode_item_delimiter(&mut out),
                (Ts::ImplicitLe, _) => ImplicitVRLittleEndianEncoder::default().encode_sequence_delimiter(&mut out),
                (Ts::ExplicitLe, _) => ExplicitVRLittleEndianEncoder::default().encode_sequence_delimiter(&mut out),
                (Ts::ExplicitBe, _) => ExplicitVRBigEndianEncoder::default().encode_sequence_delimiter(&mut out),
            };
            let want = refenc::item_bytes(el, 0, ts);
            l.class(format!("{}|{}", ts.name(), name));
            if r.is_err() || out != want {
                l.violation(format!("{}|{}-layout", ts.name(), name), format!("{} expected {}", hex(&out), hex(&want)), json!({}));
            }
            let ok = match (decode_item(ts, &want), el) {
                (Ok((SequenceItemHeader::ItemDelimiter, 8)), 0xE00D) => true,
                (Ok((SequenceItemHeader::SequenceDelimiter, 8)), 0xE0DD) => true,
                _ => false,
            };
            if !ok {
                l.violation(format!("{}|{}-decode", ts.name(), name), format!("decoding {} failed", hex(&want)), json!({}));
            }
        }
    }
    // (d) adaptive decoder, once locked, agrees with the plain decoders
    for explicit in [true, false] {
        let ts = if explicit { Ts::ExplicitLe } else { Ts::ImplicitLe };
        for vr in ALL_VRS {
            for &tag in &tags {
                for &len in &lens {
                    let Some(w) = refenc::header_bytes(tag, vr, len, ts) else { continue };
                    l.eval();
                    let ad = AdaptiveVRLittleEndianDecoder::with_std_dict();
                    // lock the state with an unambiguous first element: (0008,0060) CS "MR"
                    let first = refenc::header_bytes((0x0008, 0x0060), VR::CS, 2, ts).unwrap();
                    let mut src = &first[..];
                    let lock = ad.decode_header(&mut src);
                    let locked_ok = matches!(&lock, Ok((h, 8)) if h.tag() == Tag(0x0008, 0x0060) && h.length().0 == 2);
                    if !locked_ok {
                        l.violation(format!("adaptive|lock|{}", ts.name()), format!("first element decoded as {:?}", lock.map(|x| x.0)), json!({}));
                        continue;
                    }
                    let mut s2 = &w[..];
                    let a = ad.decode_header(&mut s2).map_err(|e| format!("{:?}", e).chars().take(80).collect::<String>());
                    let p = decode_hdr(ts, &w).map(|(h, n, _)| (h, n));
                    let same = match (&a, &p) {
                        (Ok((ha, na)), Ok((hp, np))) => ha.tag() == hp.tag() && ha.vr() == hp.vr() && ha.length().0 == hp.length().0 && na == np,
                        (Err(_), Err(_)) => true,
                        _ => false,
                    };
                    l.class(format!("adaptive|{}|{}", ts.name(), vr));
                    if !same {
                        l.violation(
                            format!("adaptive|{}|disagree|vr={}", ts.name(), vr),
                            format!("locked adaptive decoder gave {:?} but the plain decoder {:?} on {}", a, p, hex(&w)),
                            json!({"ts": ts.name(), "vr": vr.to_string(), "tag": format!("{:04X}{:04X}", tag.0, tag.1), "len": len}),
                        );
                    }
                }
            }
        }
    }
    l.sample(json!({"example": "header (0008,0018) UI len 26 ExplicitLE", "bytes": hex(&refenc::header_bytes((0x0008,0x0018), VR::UI, 26, Ts::ExplicitLe).unwrap())}));
    l.sample(json!({"example": "header (7FE0,0010) OB undefined ExplicitBE", "bytes": hex(&refenc::header_bytes((0x7FE0,0x0010), VR::OB, 0xFFFF_FFFF, Ts::ExplicitBe).unwrap())}));
    let _ = cfg;
    let mut o = Outcome::new(
        l,
        "exhaustive: 34 VRs × 3 transfer syntaxes × 40 boundary tags × 12 boundary lengths (encoder bytes vs independent PS3.5 §7.1 layout model, decoder result and byte counts), all 65 536 two-byte VR codes (from_binary, from_str, explicit decoders), item/delimiter headers × 3 TS, adaptive decoder in locked-explicit and locked-implicit state vs plain decoders; class = (TS, VR, length form, fits)",
    );
    o.exhaustive = true;
    o.min_evaluations = 100_000;
    o.min_classes = 200;
    o
}
