//! C02 — reading a canonical stream (produced by the independent reference encoder) and writing
//! it back in the same transfer syntax, keeping recorded lengths, reproduces it byte for byte.

use crate::gen::ds::{gen_dataset, DsOpts};
use crate::gen::tree::*;
use crate::props::c01::{four_ts, undefine_foreign_sq, write_with, Api};
use crate::refenc::{self, LenMode, Ts};
use crate::report::*;
use crate::rng::Rng;
use dicom_object::InMemDicomObject;
use serde_json::json;
use std::io::Write;
use std::sync::Mutex;
use std::time::Duration;

fn first_diff(a: &[u8], b: &[u8]) -> usize {
    a.iter().zip(b.iter()).position(|(x, y)| x != y).unwrap_or(a.len().min(b.len()))
}

/// which element of the reference stream contains byte offset `off`
fn locate(enc: &refenc::Encoded, off: usize) -> (String, String, &'static str) {
    let mut best: Option<&refenc::Pos> = None;
    for p in &enc.pos {
        if p.header_at <= off {
            best = Some(p);
        }
    }
    match best {
        Some(p) => {
            let part = if off < p.value_at { "header" } else { "value" };
            (p.path.clone(), p.vr.to_string().to_owned(), part)
        }
        None => ("?".into(), "-".into(), "?"),
    }
}

pub fn run(cfg: &Cfg) -> Outcome {
    let tss = four_ts();
    let n = cfg.n(8_000, 200_000);
    // a sample of reference streams is exported for cross-validation by the Python parser
    let export = Mutex::new(std::fs::File::create(format!("{}/refstreams.jsonl", cfg.out)).expect("export file"));
    let local = run_parallel(
        cfg,
        2,
        RunLimits { cases: n, wall: Duration::from_secs(if cfg.thorough() { 1200 } else { 120 }) },
        |l: &mut Local, rng: &mut Rng, idx: u64| {
            let mut opts = DsOpts::default();
            opts.explicit_marks = true;
            opts.typed = false; // canonical streams carry text for DA/TM/DT/IS/DS
            opts.zero_frags = rng.chance(1, 4);
            opts.nested_pixel = idx % 2 == 1;
            let ds = gen_dataset(rng, &opts);
            for (ti, ts) in Ts::ALL.iter().enumerate() {
                let tc = &tss[ti];
                for mode in [LenMode::AsMarked, LenMode::AllUndefined, LenMode::AllExplicit] {
                    let dsm = if *ts == Ts::ImplicitLe && mode != LenMode::AllUndefined { undefine_foreign_sq(&ds) } else { ds.clone() };
                    // AllExplicit would also force foreign sequences explicit: use marks instead
                    let dsm = if mode == LenMode::AllExplicit { mark_all(&dsm, *ts == Ts::ImplicitLe) } else { dsm };
                    let emode = if mode == LenMode::AllExplicit { LenMode::AsMarked } else { mode };
                    let enc = refenc::encode(&dsm, *ts, emode);
                    let mname = match mode { LenMode::AsMarked => "mixed", LenMode::AllUndefined => "undefined", LenMode::AllExplicit => "explicit" };
                    l.class(format!("{}|{}|depth{}|n{}", ts.name(), mname, depth(&ds).min(4), ds.len().min(12)));
                    walk(&ds, 0, &mut |e, _| l.class(format!("{}|vr={}|{}", ts.name(), e.vr, e.val.shape())));
                    if idx % 50 == 0 && mode == LenMode::AsMarked {
                        let rec = json!({"id": format!("{}:{}", idx, ts.name()), "ts": ts.name(), "hex": hex(&enc.bytes)});
                        let mut f = export.lock().unwrap();
                        let _ = writeln!(f, "{}", rec);
                    }
                    let replay = json!({"seed": cfg.seed, "stream": 2, "case": idx, "ts": ts.name(), "mode": mname,
                        "dataset": ds_json(&dsm), "reference_hex": hex_short(&enc.bytes, 4096)});
                    let obj = match guarded(|| InMemDicomObject::read_dataset_with_ts(&enc.bytes[..], &tc.ts)) {
                        Ok(Ok(o)) => o,
                        Ok(Err(e)) => {
                            let msg = format!("{:?}", e);
                            let variant: String = msg.chars().take_while(|c| c.is_alphanumeric()).collect();
                            l.violation(format!("{}|{}|read-error|{}", ts.name(), mname, variant),
                                format!("reading a canonical stream failed: {}", msg.chars().take(300).collect::<String>()), replay);
                            continue;
                        }
                        Err(p) => {
                            l.violation(format!("{}|{}|read-panic|{}", ts.name(), mname, panic_loc(&p)), p, replay);
                            continue;
                        }
                    };
                    let mut apis = vec![Api::NoChange];
                    if mode == LenMode::AllUndefined {
                        apis.push(Api::Default);
                        apis.push(Api::SetUndefined);
                    }
                    for api in apis {
                        l.eval();
                        match guarded(|| write_with(&obj, &tc.ts, api)) {
                            Ok(Ok(out)) => {
                                if out != enc.bytes {
                                    let off = first_diff(&out, &enc.bytes);
                                    let (path, vr, part) = locate(&enc, off);
                                    let mut r = replay.clone();
                                    r["rewritten_hex"] = json!(hex_short(&out, 4096));
                                    r["first_difference_at"] = json!(off);
                                    r["element"] = json!(path);
                                    l.violation(
                                        format!("{}|{}|{}|bytes-differ|vr={}|{}", ts.name(), mname, api.name(), vr, part),
                                        format!("rewritten stream differs from the original at byte {} ({} of {} {}); lengths {} vs {}", off, part, path, vr, out.len(), enc.bytes.len()),
                                        r,
                                    );
                                }
                            }
                            Ok(Err(e)) => l.violation(format!("{}|{}|{}|write-error", ts.name(), mname, api.name()), e.chars().take(300).collect::<String>(), replay.clone()),
                            Err(p) => l.violation(format!("{}|{}|{}|write-panic|{}", ts.name(), mname, api.name(), panic_loc(&p)), p, replay.clone()),
                        }
                    }
                }
            }
            if l.want_sample() && idx % 101 == 0 {
                let enc = refenc::encode(&ds, Ts::ExplicitLe, LenMode::AsMarked);
                l.sample(json!({"case": idx, "dataset": ds_json(&ds), "explicit_le_stream": hex_short(&enc.bytes, 256)}));
            }
        },
    );
    let mut o = Outcome::new(
        local,
        "canonical streams from the harness' independent PS3.5 reference encoder (G-DS text-valued data sets, all VRs, nesting ≤4, pixel fragments) × 3 uncompressed transfer syntaxes × length modes {mixed explicit/undefined, all undefined, all explicit}; read with the real reader, rewritten with NoChange (and with the default options for all-undefined streams) and compared byte for byte; class = (TS, mode, depth, size) ∪ (TS, VR, shape)",
    );
    o.min_evaluations = 1000;
    o.min_classes = 100;
    o
}

/// mark every sequence and item explicit (except foreign sequences in implicit VR)
fn mark_all(ds: &[GElem], implicit: bool) -> Vec<GElem> {
    let base: Vec<GElem> = ds
        .iter()
        .map(|e| {
            let mut e = e.clone();
            if let GVal::Seq(s) = &mut e.val {
                s.explicit = true;
                for it in &mut s.items {
                    it.explicit = true;
                    it.elems = mark_all(&it.elems, false);
                }
            }
            e
        })
        .collect();
    if implicit { undefine_foreign_sq(&base) } else { base }
}
