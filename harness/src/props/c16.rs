//! C16 — every registered transfer syntax is described consistently.
//!
//! The checks live in `c16core.rs`, which is also compiled into the probe crate
//! `harness/c16probe` so that the same monitor runs under other cargo feature sets of
//! `dicom-transfer-syntax-registry` (the driver builds and runs those, see drivers/props.py).
//! This leg covers the harness' own feature set: native (jpeg + rle) + deflate.

use super::c16core;
use crate::report::*;
use serde_json::json;

pub fn sink_to_local(s: c16core::Sink, features: &str) -> Local {
    let mut l = Local::new();
    l.evals(s.evaluations);
    for c in s.classes {
        l.class(c);
    }
    for (k, v) in s.counters {
        l.count(&k, v);
    }
    for n in s.notes {
        l.note(n);
    }
    for smp in s.samples {
        l.sample(json!({"transfer_syntax": smp}));
    }
    for (k, (what, witness, count)) in s.violations {
        for _ in 0..count.max(1) {
            l.violation(format!("features=[{}]|{}", features, k), what.clone(), json!({"feature_set": features, "witness": witness}));
        }
    }
    l
}

pub fn run(_cfg: &Cfg) -> Outcome {
    let features = "native,deflate";
    let s = c16core::check_registry(features);
    // check_registry silences the panic hook while it runs; restore the harness hook
    install_panic_hook();
    let mut o = Outcome::new(
        sink_to_local(s, features),
        "exhaustive over TransferSyntaxRegistry.iter() (feature set native+deflate in this leg): get(uid / uid+NUL / uid+space / …) returns the same entry; UIDs unique in the iterator and in entries.rs, every defined entry registered; endianness() and the element header layout produced/accepted by encoder_for()/decoder_for() agree with the hand-written PS3.6 table (only 1.2.840.10008.1.2 implicit, only 1.2.840.10008.1.2.2 big endian); 9 capability queries agree with the shape of codec() as documented and with each other; can_decode_dataset ⇒ encoder and decoder present and a 4-element data set is written byte-exactly as PS3.5 prescribes (inflated first for deflated syntaxes) and read back; class = (feature set, UID, codec shape)",
    );
    o.exhaustive = true;
    o.min_evaluations = 40 * 15;
    o.min_classes = 40;
    o.extra.insert("feature_sets".into(), json!([features]));
    o
}
