//! C13 — attribute operation histories against a reference model of the documented semantics
//! (step by step), then write in the 4 data-set transfer syntaxes and read back.

use crate::gen::ds::{gen_value, DsOpts};
use crate::gen::tree::GVal;
use crate::props::c01::four_ts;
use crate::report::*;
use crate::rng::Rng;
use dicom_core::dictionary::{DataDictionary, DataDictionaryEntry, VirtualVr};
use dicom_core::header::Header;
use dicom_core::ops::{ApplyOp, AttributeAction, AttributeOp, AttributeSelector, AttributeSelectorStep};
use dicom_core::value::{DataSetSequence, PixelFragmentSequence, PrimitiveValue, Value};
use dicom_core::{DataElement, Tag, VR};
use dicom_dictionary_std::StandardDataDictionary;
use dicom_object::InMemDicomObject;
use serde_json::json;
use std::collections::BTreeMap;
use std::io::Write;
use std::sync::Mutex;
use std::time::Duration;

// ------------------------------------------------------------------ model

#[derive(Clone, Debug, PartialEq)]
enum MV {
    /// debug rendering of the primitive value + the value itself for library-side extension
    Prim(String),
    Seq(Vec<MObj>),
    Pix(Vec<u32>, Vec<Vec<u8>>),
}

#[derive(Clone, Debug, PartialEq)]
struct ME {
    vr: VR,
    val: MV,
}

type MObj = BTreeMap<(u16, u16), ME>;

fn prim(p: &PrimitiveValue) -> MV {
    // an empty value of any variant is the same abstract value
    if p.multiplicity() == 0 && !matches!(p, PrimitiveValue::Str(_)) {
        return MV::Prim("Empty".into());
    }
    MV::Prim(format!("{:?}", p))
}

fn snapshot(o: &InMemDicomObject) -> MObj {
    let mut m = MObj::new();
    for e in o.iter() {
        let val = match e.value() {
            Value::Primitive(p) => prim(p),
            Value::Sequence(s) => MV::Seq(s.items().iter().map(snapshot).collect()),
            Value::PixelSequence(p) => MV::Pix(p.offset_table().to_vec(), p.fragments().to_vec()),
        };
        m.insert((e.tag().0, e.tag().1), ME { vr: e.vr(), val });
    }
    m
}

/// acceptable VRs for an element created by an operation
fn created_vrs(tag: (u16, u16), default: VR) -> Vec<VR> {
    match StandardDataDictionary.by_tag(Tag(tag.0, tag.1)).map(|e| e.vr()) {
        Some(VirtualVr::Exact(vr)) => vec![vr],
        Some(v) => vec![default, VR::UN, v.relaxed()],
        None => vec![default, VR::UN],
    }
}

fn is_constructive(a: &AttributeAction) -> bool {
    // "all actions of the families Set*, SetIfMissing, and Push*" (documentation)
    matches!(
        a,
        AttributeAction::Set(_) | AttributeAction::SetStr(_) | AttributeAction::SetIfMissing(_) | AttributeAction::SetStrIfMissing(_)
            | AttributeAction::PushStr(_) | AttributeAction::PushI32(_) | AttributeAction::PushU32(_) | AttributeAction::PushI16(_)
            | AttributeAction::PushU16(_) | AttributeAction::PushF32(_) | AttributeAction::PushF64(_)
    )
}

struct Exp {
    ok: Option<Vec<MObj>>,
    err: Option<Vec<MObj>>,
}

/// apply `f` to the data set addressed by the nested steps inside a clone of `root`
fn with_path(root: &MObj, path: &[((u16, u16), usize)], f: &dyn Fn(&mut MObj)) -> MObj {
    fn rec(o: &mut MObj, path: &[((u16, u16), usize)], f: &dyn Fn(&mut MObj)) {
        match path.split_first() {
            None => f(o),
            Some(((tag, idx), rest)) => {
                if let Some(ME { val: MV::Seq(items), .. }) = o.get_mut(tag) {
                    if let Some(it) = items.get_mut(*idx) {
                        rec(it, rest, f);
                    }
                }
            }
        }
    }
    let mut r = root.clone();
    rec(&mut r, path, f);
    r
}

fn get_path<'a>(root: &'a MObj, path: &[((u16, u16), usize)]) -> Option<&'a MObj> {
    let mut o = root;
    for (tag, idx) in path {
        match o.get(tag) {
            Some(ME { val: MV::Seq(items), .. }) => o = items.get(*idx)?,
            _ => return None,
        }
    }
    Some(o)
}

fn expect(pre: &MObj, steps: &[AttributeSelectorStep], action: &AttributeAction, lib_value_of: &dyn Fn(&[((u16, u16), usize)], (u16, u16)) -> Option<PrimitiveValue>) -> Exp {
    let constructive = is_constructive(action);
    // ---- navigation
    let mut cur = pre.clone();
    let mut path: Vec<((u16, u16), usize)> = Vec::new();
    for st in &steps[..steps.len() - 1] {
        let AttributeSelectorStep::Nested { tag, item } = st else { unreachable!() };
        let t = (tag.0, tag.1);
        let idx = *item as usize;
        let here = get_path(&cur, &path).cloned().unwrap_or_default();
        let fail = |cur: &MObj| Exp { ok: None, err: Some(if constructive { vec![pre.clone(), cur.clone()] } else { vec![pre.clone()] }) };
        match here.get(&t) {
            None => {
                if !constructive {
                    return fail(&cur);
                }
                let dict = StandardDataDictionary.by_tag(*tag).map(|e| e.vr());
                let vr = match dict {
                    Some(VirtualVr::Exact(VR::SQ)) => VR::SQ,
                    None => VR::UN,
                    Some(VirtualVr::Exact(_)) => return fail(&cur), // known, not a sequence
                    Some(_) => VR::UN,
                };
                // the created sequence may carry SQ or UN
                let _ = vr;
                cur = with_path(&cur, &path, &|o| { o.insert(t, ME { vr, val: MV::Seq(vec![]) }); });
                if idx != 0 {
                    return fail(&cur);
                }
                cur = with_path(&cur, &path, &|o| { if let Some(ME { val: MV::Seq(items), .. }) = o.get_mut(&t) { items.push(MObj::new()); } });
            }
            Some(ME { val: MV::Seq(items), .. }) => {
                if idx < items.len() {
                } else if idx == items.len() && constructive {
                    cur = with_path(&cur, &path, &|o| { if let Some(ME { val: MV::Seq(items), .. }) = o.get_mut(&t) { items.push(MObj::new()); } });
                } else {
                    return fail(&cur);
                }
            }
            Some(_) => return fail(&cur),
        }
        path.push((t, idx));
    }
    let AttributeSelectorStep::Tag(leaf) = steps[steps.len() - 1] else { unreachable!() };
    let t = (leaf.0, leaf.1);
    let target = get_path(&cur, &path).and_then(|o| o.get(&t)).cloned();
    let set_to = |states: &mut Vec<MObj>, base: &MObj, e: Option<ME>| {
        states.push(with_path(base, &path, &|o| { match &e { Some(x) => { o.insert(t, x.clone()); } None => { o.remove(&t); } } }));
    };
    let mut ok: Vec<MObj> = Vec::new();
    let unchanged = cur.clone();
    let value_elem = |vr: VR, v: &PrimitiveValue| -> ME {
        if vr == VR::SQ && v.multiplicity() == 0 && !matches!(v, PrimitiveValue::Str(_)) { ME { vr, val: MV::Seq(vec![]) } } else { ME { vr, val: prim(v) } }
    };
    let create = |ok: &mut Vec<MObj>, default: VR, v: &PrimitiveValue| {
        for vr in created_vrs(t, default) {
            let e = value_elem(vr, v);
            ok.push(with_path(&cur, &path, &|o| { o.insert(t, e.clone()); }));
            // an empty value under a sequence VR may also be stored as a plain empty value
            if vr == VR::SQ {
                let e2 = ME { vr, val: prim(v) };
                ok.push(with_path(&cur, &path, &|o| { o.insert(t, e2.clone()); }));
            }
        }
    };
    match action {
        AttributeAction::Remove => set_to(&mut ok, &cur, None),
        AttributeAction::Empty => match &target {
            None => ok.push(unchanged),
            Some(e) => {
                set_to(&mut ok, &cur, Some(ME { vr: e.vr, val: MV::Prim("Empty".into()) }));
                set_to(&mut ok, &cur, Some(ME { vr: e.vr, val: MV::Seq(vec![]) }));
            }
        },
        AttributeAction::SetVr(vr) => match &target {
            None => {
                // "if the attribute exists ...": doing nothing or providing an empty attribute
                // of that VR are both accepted
                ok.push(unchanged);
                set_to(&mut ok, &cur, Some(ME { vr: *vr, val: MV::Prim("Empty".into()) }));
                set_to(&mut ok, &cur, Some(ME { vr: *vr, val: MV::Seq(vec![]) }));
            }
            Some(e) => set_to(&mut ok, &cur, Some(ME { vr: *vr, val: e.val.clone() })),
        },
        AttributeAction::Set(_) | AttributeAction::SetStr(_) | AttributeAction::SetIfMissing(_) | AttributeAction::SetStrIfMissing(_) | AttributeAction::Replace(_) | AttributeAction::ReplaceStr(_) => {
            let v = match action {
                AttributeAction::Set(v) | AttributeAction::SetIfMissing(v) | AttributeAction::Replace(v) => v.clone(),
                AttributeAction::SetStr(s) | AttributeAction::SetStrIfMissing(s) | AttributeAction::ReplaceStr(s) => PrimitiveValue::Str(s.to_string()),
                _ => unreachable!(),
            };
            let only_if_missing = matches!(action, AttributeAction::SetIfMissing(_) | AttributeAction::SetStrIfMissing(_));
            let only_if_present = matches!(action, AttributeAction::Replace(_) | AttributeAction::ReplaceStr(_));
            match &target {
                Some(e) => {
                    if only_if_missing { ok.push(unchanged) } else {
                        set_to(&mut ok, &cur, Some(value_elem(e.vr, &v)));
                        if e.vr == VR::SQ { set_to(&mut ok, &cur, Some(ME { vr: e.vr, val: prim(&v) })); }
                    }
                }
                None => { if only_if_present { ok.push(unchanged) } else { create(&mut ok, VR::UN, &v) } }
            }
        }
        AttributeAction::PushStr(_) | AttributeAction::PushI32(_) | AttributeAction::PushU32(_) | AttributeAction::PushI16(_) | AttributeAction::PushU16(_) | AttributeAction::PushF32(_) | AttributeAction::PushF64(_) => {
            let (default, single): (VR, PrimitiveValue) = match action {
                AttributeAction::PushStr(s) => (VR::UN, PrimitiveValue::Str(s.to_string())),
                AttributeAction::PushI32(x) => (VR::SL, PrimitiveValue::from(*x)),
                AttributeAction::PushU32(x) => (VR::UL, PrimitiveValue::from(*x)),
                AttributeAction::PushI16(x) => (VR::SS, PrimitiveValue::from(*x)),
                AttributeAction::PushU16(x) => (VR::US, PrimitiveValue::from(*x)),
                AttributeAction::PushF32(x) => (VR::FL, PrimitiveValue::from(*x)),
                AttributeAction::PushF64(x) => (VR::FD, PrimitiveValue::from(*x)),
                _ => unreachable!(),
            };
            match &target {
                None => create(&mut ok, default, &single),
                Some(ME { val: MV::Prim(_), vr }) => {
                    // extension semantics of the value itself are C11's business: use the
                    // library's own extend on a copy of the current value
                    let Some(mut v) = lib_value_of(&path, t) else { return Exp { ok: None, err: None } };
                    let r = match action {
                        AttributeAction::PushStr(s) => v.extend_str([s.to_string()]).map(|_| ()),
                        AttributeAction::PushI32(x) => v.extend_i32([*x]).map(|_| ()),
                        AttributeAction::PushU32(x) => v.extend_u32([*x]).map(|_| ()),
                        AttributeAction::PushI16(x) => v.extend_i16([*x]).map(|_| ()),
                        AttributeAction::PushU16(x) => v.extend_u16([*x]).map(|_| ()),
                        AttributeAction::PushF32(x) => v.extend_f32([*x]).map(|_| ()),
                        AttributeAction::PushF64(x) => v.extend_f64([*x]).map(|_| ()),
                        _ => unreachable!(),
                    };
                    match r {
                        Ok(()) => set_to(&mut ok, &cur, Some(ME { vr: *vr, val: prim(&v) })),
                        // the value cannot be extended: the operation fails and nothing changes
                        Err(_) => return Exp { ok: None, err: Some(vec![unchanged]) },
                    }
                }
                // sequences and pixel data cannot be extended with a primitive
                Some(_) => return Exp { ok: None, err: Some(vec![unchanged]) },
            }
        }
        AttributeAction::Truncate(n) => match &target {
            None => ok.push(unchanged),
            Some(ME { val: MV::Prim(_), vr }) => {
                let Some(mut v) = lib_value_of(&path, t) else { return Exp { ok: None, err: None } };
                v.truncate(*n);
                set_to(&mut ok, &cur, Some(ME { vr: *vr, val: prim(&v) }));
            }
            Some(ME { val: MV::Seq(items), vr }) => {
                let mut it = items.clone();
                it.truncate(*n);
                set_to(&mut ok, &cur, Some(ME { vr: *vr, val: MV::Seq(it.clone()) }));
                // a sequence kept under VR UN may be normalised to SQ when it is rebuilt
                set_to(&mut ok, &cur, Some(ME { vr: VR::SQ, val: MV::Seq(it) }));
            }
            Some(ME { val: MV::Pix(bot, frags), vr }) => {
                let mut f = frags.clone();
                f.truncate(*n);
                set_to(&mut ok, &cur, Some(ME { vr: *vr, val: MV::Pix(bot.clone(), f.clone()) }));
                // a fragment sequence kept under another VR (after SetVr) may be normalised to OB
                // when the element is rebuilt (same latitude as UN -> SQ above)
                set_to(&mut ok, &cur, Some(ME { vr: VR::OB, val: MV::Pix(bot.clone(), f) }));
                ok.push(unchanged);
            }
        },
        _ => return Exp { ok: None, err: None },
    }
    Exp { ok: Some(ok), err: None }
}

// ------------------------------------------------------------------ generation

const SQ_TAGS: [(u16, u16); 4] = [(0x0008, 0x1140), (0x0040, 0x0275), (0x0008, 0x1115), (0x0009, 0x1010)];
const LEAF_TAGS: [((u16, u16), VR); 14] = [
    ((0x0008, 0x0008), VR::CS), ((0x0008, 0x0020), VR::DA), ((0x0010, 0x0010), VR::PN), ((0x0010, 0x0020), VR::LO),
    ((0x0018, 0x0050), VR::DS), ((0x0020, 0x0013), VR::IS), ((0x0028, 0x0010), VR::US), ((0x0028, 0x0106), VR::US),
    ((0x0018, 0x6020), VR::SL), ((0x0018, 0x9087), VR::FD), ((0x0008, 0x0018), VR::UI), ((0x0042, 0x0011), VR::OB),
    ((0x0009, 0x1001), VR::LO), ((0x4FF1, 0x0002), VR::SH),
];

fn action_name(a: &AttributeAction) -> &'static str {
    match a {
        AttributeAction::Remove => "Remove", AttributeAction::Empty => "Empty", AttributeAction::SetVr(_) => "SetVr",
        AttributeAction::Set(_) => "Set", AttributeAction::SetStr(_) => "SetStr", AttributeAction::SetIfMissing(_) => "SetIfMissing",
        AttributeAction::SetStrIfMissing(_) => "SetStrIfMissing", AttributeAction::Replace(_) => "Replace", AttributeAction::ReplaceStr(_) => "ReplaceStr",
        AttributeAction::PushStr(_) => "PushStr", AttributeAction::PushI32(_) => "PushI32", AttributeAction::PushU32(_) => "PushU32",
        AttributeAction::PushI16(_) => "PushI16", AttributeAction::PushU16(_) => "PushU16", AttributeAction::PushF32(_) => "PushF32",
        AttributeAction::PushF64(_) => "PushF64", AttributeAction::Truncate(_) => "Truncate", _ => "Other",
    }
}

fn text_vr(vr: VR) -> bool {
    matches!(vr, VR::CS | VR::DA | VR::PN | VR::LO | VR::DS | VR::IS | VR::UI | VR::SH | VR::AE | VR::ST | VR::LT | VR::UT | VR::TM | VR::DT | VR::UC | VR::AS | VR::UR)
}

fn gen_action(rng: &mut Rng, vr: VR, wild: bool) -> AttributeAction {
    let mut o = DsOpts::default();
    o.big = false;
    o.typed = false;
    let vv = if vr == VR::SQ || wild { VR::LO } else { vr };
    let val = gen_value(rng, vv, &o).to_primitive().unwrap_or(PrimitiveValue::Empty);
    let s = || -> String { match &val { PrimitiveValue::Strs(v) => v.first().cloned().unwrap_or_else(|| "X".into()), PrimitiveValue::Str(s) => s.clone(), _ => "7".into() } };
    if wild {
        return match rng.usize(17) {
            0 => AttributeAction::Remove, 1 => AttributeAction::Empty, 2 => AttributeAction::SetVr(*rng.pick(&[VR::LO, VR::US, VR::SQ, VR::OB, VR::UN])),
            3 => AttributeAction::Set(val), 4 => AttributeAction::SetStr(s().into()), 5 => AttributeAction::SetIfMissing(val), 6 => AttributeAction::SetStrIfMissing(s().into()),
            7 => AttributeAction::Replace(val), 8 => AttributeAction::ReplaceStr(s().into()), 9 => AttributeAction::PushStr(s().into()), 10 => AttributeAction::PushI32(-7),
            11 => AttributeAction::PushU32(7), 12 => AttributeAction::PushI16(-3), 13 => AttributeAction::PushU16(3), 14 => AttributeAction::PushF32(1.5), 15 => AttributeAction::PushF64(-2.5),
            _ => AttributeAction::Truncate(rng.usize(4)),
        };
    }
    // type-aware: values of the VR's own kind
    let numeric_push = |rng: &mut Rng| match vr {
        VR::US => AttributeAction::PushU16(rng.next_u32() as u16),
        VR::SL | VR::IS => AttributeAction::PushI32(rng.next_u32() as i32 / 4),
        VR::FD | VR::DS => AttributeAction::PushF64((rng.range(-1000, 1000) as f64) / 8.0),
        _ => AttributeAction::PushStr(s().into()),
    };
    match rng.usize(13) {
        0 => AttributeAction::Remove,
        1 => AttributeAction::Empty,
        2 => {
            if vr == VR::SQ {
                // no VR changes on sequence attributes in type-respecting histories
                AttributeAction::Truncate(rng.usize(3))
            } else {
                let same = if text_vr(vr) { *rng.pick(&[VR::LO, VR::SH, VR::UT]) } else { vr };
                AttributeAction::SetVr(same)
            }
        }
        3 => if vr == VR::SQ { AttributeAction::Set(PrimitiveValue::Empty) } else { AttributeAction::Set(val) },
        4 => if text_vr(vr) { AttributeAction::SetStr(s().into()) } else if vr == VR::SQ { AttributeAction::Set(PrimitiveValue::Empty) } else { AttributeAction::Set(val) },
        5 => if vr == VR::SQ { AttributeAction::SetIfMissing(PrimitiveValue::Empty) } else { AttributeAction::SetIfMissing(val) },
        6 => if text_vr(vr) { AttributeAction::SetStrIfMissing(s().into()) } else if vr == VR::SQ { AttributeAction::Replace(PrimitiveValue::Empty) } else { AttributeAction::SetIfMissing(val) },
        7 => if vr == VR::SQ { AttributeAction::Replace(PrimitiveValue::Empty) } else { AttributeAction::Replace(val) },
        8 => if text_vr(vr) { AttributeAction::ReplaceStr(s().into()) } else if vr == VR::SQ { AttributeAction::Truncate(rng.usize(3)) } else { AttributeAction::Replace(val) },
        9 | 10 => if vr == VR::SQ || vr == VR::OB { AttributeAction::Truncate(rng.usize(3)) } else if text_vr(vr) && !matches!(vr, VR::IS | VR::DS) { AttributeAction::PushStr(s().into()) } else { numeric_push(rng) },
        _ => AttributeAction::Truncate(rng.usize(4)),
    }
}

fn lib_value(o: &InMemDicomObject, path: &[((u16, u16), usize)], t: (u16, u16)) -> Option<PrimitiveValue> {
    let mut cur = o;
    for (tag, idx) in path {
        cur = cur.get(Tag(tag.0, tag.1))?.items()?.get(*idx)?;
    }
    cur.get(Tag(t.0, t.1))?.value().primitive().cloned()
}

fn diff(a: &MObj, b: &MObj) -> String {
    for (k, v) in a {
        match b.get(k) {
            None => return format!("({:04X},{:04X}) present vs absent: {:?}", k.0, k.1, v).chars().take(300).collect(),
            Some(w) if w != v => return format!("({:04X},{:04X}): {:?} vs {:?}", k.0, k.1, v, w).chars().take(400).collect(),
            _ => {}
        }
    }
    for k in b.keys() {
        if !a.contains_key(k) {
            return format!("({:04X},{:04X}) absent vs present", k.0, k.1);
        }
    }
    "equal".into()
}

pub fn run(cfg: &Cfg) -> Outcome {
    let tss = four_ts();
    let n = cfg.n(6_000, 150_000);
    let export = Mutex::new(std::io::BufWriter::new(std::fs::File::create(format!("{}/written.jsonl", cfg.out)).expect("export")));
    let local = run_parallel(
        cfg,
        13,
        RunLimits { cases: n, wall: Duration::from_secs(if cfg.thorough() { 1200 } else { 120 }) },
        |l: &mut Local, rng: &mut Rng, idx: u64| {
            // ---- initial object
            let mut o = DsOpts::default();
            o.big = false;
            o.typed = false;
            let mut elems: Vec<DataElement<InMemDicomObject>> = Vec::new();
            for (t, vr) in LEAF_TAGS {
                if rng.chance(1, 3) {
                    if let Some(p) = gen_value(rng, vr, &o).to_primitive() {
                        elems.push(DataElement::new(Tag(t.0, t.1), vr, p));
                    }
                }
            }
            for t in SQ_TAGS {
                if rng.chance(1, 3) {
                    let items: Vec<InMemDicomObject> = (0..rng.usize(3)).map(|_| {
                        let mut sub = Vec::new();
                        for (t2, vr) in LEAF_TAGS {
                            if rng.chance(1, 5) { if let Some(p) = gen_value(rng, vr, &o).to_primitive() { sub.push(DataElement::new(Tag(t2.0, t2.1), vr, p)); } }
                        }
                        InMemDicomObject::from_element_iter(sub)
                    }).collect();
                    elems.push(DataElement::new(Tag(t.0, t.1), VR::SQ, Value::Sequence(DataSetSequence::new(items, dicom_core::Length::UNDEFINED))));
                }
            }
            if rng.chance(1, 8) {
                elems.push(DataElement::new(Tag(0x7FE0, 0x0010), VR::OB, Value::PixelSequence(PixelFragmentSequence::new(vec![0u32], vec![vec![1u8, 2], vec![3u8, 4, 5, 6]]))));
            }
            if rng.chance(1, 6) {
                elems.push(DataElement::new(Tag(0x0009, 0x0010), VR::LO, PrimitiveValue::from("CREATOR")));
            }
            let mut obj = InMemDicomObject::from_element_iter(elems);
            let wild_history = rng.chance(1, 6);
            let mut hist: Vec<String> = Vec::new();
            let steps_n = rng.urange(1, 30);
            for _ in 0..steps_n {
                // ---- selector
                let depth = *rng.pick(&[0usize, 0, 0, 1, 1, 2]);
                let mut steps: Vec<AttributeSelectorStep> = Vec::new();
                for _ in 0..depth {
                    let t = *rng.pick(&SQ_TAGS);
                    steps.push(AttributeSelectorStep::Nested { tag: Tag(t.0, t.1), item: *rng.pick(&[0u32, 0, 1, 1, 2, 3]) });
                }
                let (leaf, vr) = match rng.usize(10) {
                    0 | 1 => (*rng.pick(&SQ_TAGS), VR::SQ),
                    2 if depth == 0 => ((0x7FE0, 0x0010), VR::OB),
                    _ => *rng.pick(&LEAF_TAGS),
                };
                steps.push(AttributeSelectorStep::Tag(Tag(leaf.0, leaf.1)));
                let wild = wild_history && rng.chance(1, 2);
                let action = gen_action(rng, vr, wild);
                let selector = AttributeSelector::new(steps.clone()).expect("selector");
                hist.push(format!("{} {:?}", selector, action).chars().take(160).collect());
                let pre = snapshot(&obj);
                let exp = expect(&pre, &steps, &action, &|p, t| lib_value(&obj, p, t));
                let mut target_kind = "missing";
                if let Some(o2) = get_path(&pre, &steps[..steps.len() - 1].iter().map(|s| match s { AttributeSelectorStep::Nested { tag, item } => ((tag.0, tag.1), *item as usize), _ => unreachable!() }).collect::<Vec<_>>()) {
                    target_kind = match o2.get(&leaf) { None => "missing", Some(ME { val: MV::Prim(_), .. }) => "primitive", Some(ME { val: MV::Seq(_), .. }) => "sequence", Some(_) => "pixel" };
                } else { target_kind = "no-path"; }
                let an = action_name(&action);
                let res = guarded(|| obj.apply(AttributeOp { selector: selector.clone(), action: action.clone() }));
                l.eval();
                let replay = || json!({"seed": cfg.seed, "stream": 13, "case": idx, "history": hist, "before_last_op": format!("{:?}", pre).chars().take(1500).collect::<String>()});
                let post = snapshot(&obj);
                match res {
                    Err(p) => { l.violation(format!("apply|panic|{}", panic_loc(&p)), p, replay()); return; }
                    Ok(Ok(())) => {
                        l.class(format!("{}|depth{}|{}|ok", an, depth, target_kind));
                        match &exp.ok {
                            Some(states) => {
                                if !states.contains(&post) {
                                    l.violation(format!("apply|ok-state|{}|target={}|depth{}", an, target_kind, depth),
                                        format!("after {} the object does not match the documented semantics: {} (first allowed state)", hist.last().unwrap(), states.first().map(|s| diff(&post, s)).unwrap_or_default()), replay());
                                    return;
                                }
                            }
                            None => {
                                if exp.err.is_some() {
                                    l.violation(format!("apply|should-fail|{}|target={}|depth{}", an, target_kind, depth), format!("{} succeeded although the documented semantics make it fail", hist.last().unwrap()), replay());
                                    return;
                                }
                            }
                        }
                    }
                    Ok(Err(e)) => {
                        l.class(format!("{}|depth{}|{}|err", an, depth, target_kind));
                        match &exp.err {
                            Some(states) => {
                                if !states.contains(&post) {
                                    l.violation(format!("apply|err-state|{}|target={}|depth{}", an, target_kind, depth),
                                        format!("{} failed ({}) but changed the object: {}", hist.last().unwrap(), e, diff(&post, &pre)), replay());
                                    return;
                                }
                            }
                            None => {
                                if exp.ok.is_some() {
                                    l.violation(format!("apply|should-succeed|{}|target={}|depth{}", an, target_kind, depth), format!("{} failed: {}", hist.last().unwrap(), e), replay());
                                    return;
                                }
                            }
                        }
                    }
                }
            }
            // ---- write / read back (type-respecting histories only)
            if wild_history {
                // still: writing must not panic
                for tc in &tss {
                    let mut out = Vec::new();
                    if let Err(p) = guarded(|| obj.write_dataset_with_ts(&mut out, &tc.ts)) {
                        l.violation(format!("write|panic|{}", panic_loc(&p)), p, json!({"seed": cfg.seed, "stream": 13, "case": idx, "history": hist}));
                    }
                }
                return;
            }
            for tc in &tss {
                l.eval();
                let replay = json!({"seed": cfg.seed, "stream": 13, "case": idx, "ts": tc.name, "history": hist});
                let mut s1 = Vec::new();
                match guarded(|| obj.write_dataset_with_ts(&mut s1, &tc.ts)) {
                    Err(p) => { l.violation(format!("write|panic|{}", panic_loc(&p)), p, replay); continue; }
                    Ok(Err(e)) => { l.violation(format!("write|error|{}|{}", tc.name, err_class(&err_chain(&e))), err_chain(&e), replay); continue; }
                    Ok(Ok(())) => {}
                }
                {
                    let rec = json!({"id": format!("{}:{}", idx, tc.name), "ts": tc.name, "hex": hex(&s1), "key": tc.name, "ctx": {"seed": cfg.seed, "stream": 13, "case": idx}});
                    let mut f = export.lock().unwrap();
                    let _ = writeln!(f, "{}", rec);
                }
                let back = match guarded(|| InMemDicomObject::read_dataset_with_ts(&s1[..], &tc.ts)) {
                    Err(p) => { l.violation(format!("readback|panic|{}", panic_loc(&p)), p, replay); continue; }
                    Ok(Err(e)) => { l.violation(format!("readback|error|{}|{}", tc.name, err_class(&err_chain(&e))), err_chain(&e), replay); continue; }
                    Ok(Ok(b)) => b,
                };
                let t1: Vec<Tag> = obj.tags().collect();
                let t2: Vec<Tag> = back.tags().collect();
                if t1 != t2 {
                    l.violation(format!("readback|tags|{}", tc.name), format!("tags {:?} read back as {:?}", t1, t2).chars().take(300).collect::<String>(), replay);
                    continue;
                }
                let mut s2 = Vec::new();
                match guarded(|| back.write_dataset_with_ts(&mut s2, &tc.ts)) {
                    Ok(Ok(())) => {
                        // deflated streams: compare the inflated content through a second read
                        if s1 != s2 && tc.name != "DeflatedLE" {
                            let off = s1.iter().zip(s2.iter()).position(|(a, b)| a != b).unwrap_or(s1.len().min(s2.len()));
                            l.violation(format!("readback|fixpoint|{}", tc.name), format!("write(read(write(x))) differs from write(x) at byte {} ({} vs {} bytes)", off, s2.len(), s1.len()), replay);
                        }
                    }
                    Ok(Err(e)) => l.violation(format!("rewrite|error|{}", tc.name), err_chain(&e), replay),
                    Err(p) => l.violation(format!("rewrite|panic|{}", panic_loc(&p)), p, replay),
                }
            }
            if l.want_sample() && idx % 251 == 0 {
                l.sample(json!({"case": idx, "history": hist}));
            }
        },
    );
    export.lock().unwrap().flush().ok();
    let mut o = Outcome::new(
        local,
        "random histories (1-30 operations, all 17 action kinds, selectors of depth 0-2 over standard, private and unknown tags, sequence and pixel-data targets, item indices 0-3) applied step by step to InMemDicomObject and to an abstract map-of-sequences model of the documented semantics (sets of allowed outcomes where the documentation leaves a choice); failed operations must leave the target intact; then (type-respecting histories) the object is written in 4 transfer syntaxes, judged by the Python PS3.5 parser and read back to the same tags with write(read(write(x))) == write(x); class = (action, depth, target kind, ok/err)",
    );
    o.min_evaluations = 5000;
    o.min_classes = 80;
    o
}
