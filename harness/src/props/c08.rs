//! C08 — with flexible VR decoding enabled, an Explicit VR LE data set is read exactly as the
//! explicit decoder reads it and an Implicit VR LE data set exactly as the implicit decoder
//! reads it, whenever the first element is unambiguous in the sense of the statement.

use crate::gen::ds::{gen_dataset, DsOpts};
use crate::gen::tree::*;
use crate::props::c01::{four_ts, undefine_foreign_sq};
use crate::refenc::{self, LenMode, Ts};
use crate::report::*;
use crate::rng::Rng;
use dicom_core::dictionary::{DataDictionary, DataDictionaryEntry, VirtualVr};
use dicom_core::{Tag, VR};
use dicom_dictionary_std::StandardDataDictionary;
use dicom_encoding::TransferSyntax;
use dicom_parser::dataset::read::{DataSetReader, DataSetReaderOptions};
use serde_json::json;
use std::time::Duration;

const VR_CODES: [&str; 34] = [
    "AE", "AS", "AT", "CS", "DA", "DS", "DT", "FL", "FD", "IS", "LO", "LT", "OB", "OD", "OF", "OL",
    "OV", "OW", "PN", "SH", "SL", "SQ", "SS", "ST", "SV", "TM", "UC", "UI", "UL", "UN", "UR", "US",
    "UT", "UV",
];

/// "compatible with that attribute's dictionary entry", from the statement
fn compatible(code: &str, entry: VirtualVr) -> bool {
    match entry {
        VirtualVr::Exact(vr) => vr.to_string() == code,
        VirtualVr::Xs => code == "US" || code == "SS",
        VirtualVr::Ox | VirtualVr::Px => code == "OB" || code == "OW",
        VirtualVr::Lt => code == "US" || code == "OW",
        _ => true, // unknown virtual VR kinds: treat as ambiguous (excluded)
    }
}

/// Ambiguity of an Implicit VR LE stream per the statement, computed from the bytes.
/// Returns (ambiguous, near_ambiguous): near = the length bytes spell a VR that is incompatible.
fn implicit_ambiguity(bytes: &[u8]) -> (bool, bool) {
    // first non-delimiter element
    let mut off = 0;
    while off + 8 <= bytes.len() {
        let g = u16::from_le_bytes([bytes[off], bytes[off + 1]]);
        if g == 0xFFFE {
            off += 8;
            continue;
        }
        break;
    }
    if off + 8 > bytes.len() {
        return (false, false);
    }
    let g = u16::from_le_bytes([bytes[off], bytes[off + 1]]);
    let e = u16::from_le_bytes([bytes[off + 2], bytes[off + 3]]);
    let code = [bytes[off + 4], bytes[off + 5]];
    let Ok(code) = std::str::from_utf8(&code) else { return (false, false) };
    if !VR_CODES.contains(&code) {
        return (false, false);
    }
    match StandardDataDictionary.by_tag(Tag(g, e)) {
        None => (true, false),
        Some(entry) => {
            if compatible(code, entry.vr()) {
                (true, false)
            } else {
                (false, true)
            }
        }
    }
}

fn tokens(bytes: &[u8], ts: &TransferSyntax, flexible: bool) -> Result<Vec<String>, String> {
    let o = DataSetReaderOptions::default().flexible_decoding(flexible);
    let r = DataSetReader::new_with_ts_options(bytes, ts, o).map_err(|e| err_chain(&e))?;
    let mut v = Vec::new();
    for t in r {
        match t {
            Ok(t) => v.push(format!("{:?}", t)),
            Err(e) => {
                v.push(format!("ERROR {}", err_class(&err_chain(&e))));
                break;
            }
        }
    }
    Ok(v)
}

/// a first element whose implicit length field spells a VR code
fn spelled_first_element(rng: &mut Rng) -> GElem {
    // even lengths whose two low bytes are a VR code
    let codes: Vec<&str> = VR_CODES.iter().copied().filter(|c| c.as_bytes()[0] % 2 == 0).collect();
    let code = *rng.pick(&codes);
    let len = code.as_bytes()[0] as usize | (code.as_bytes()[1] as usize) << 8;
    match rng.usize(4) {
        0 => GElem { tag: (0x0008, 0x0008), vr: VR::CS, val: GVal::Strs(vec!["A".repeat(len)]) }, // ImageType
        1 => GElem { tag: (0x0008, 0x0018), vr: VR::UI, val: GVal::Strs(vec!["1".repeat(len)]) }, // SOPInstanceUID
        2 => GElem { tag: (0x0008, 0x0020), vr: VR::DA, val: GVal::Strs(vec!["2".repeat(len)]) }, // StudyDate (ambiguous when it spells DA)
        _ => GElem { tag: (0x0009, 0x0010), vr: VR::LO, val: GVal::Strs(vec!["P".repeat(len)]) }, // private creator (LO in the dictionary)
    }
}

/// a first element whose dictionary entry is a *virtual* VR (US-or-SS, OB-or-OW, US-or-OW),
/// encoded with each of the concrete VRs the entry allows
fn virtual_first_element(rng: &mut Rng) -> Option<GElem> {
    const TAGS: [(u16, u16); 9] = [
        (0x0028, 0x0106), (0x0028, 0x0107), (0x0028, 0x0120), (0x0028, 0x1101), (0x0028, 0x3006),
        (0x5400, 0x1010), (0x6000, 0x3000), (0x7FE0, 0x0010), (0x0028, 0x0108),
    ];
    let tag = *rng.pick(&TAGS);
    let entry = StandardDataDictionary.by_tag(Tag(tag.0, tag.1))?;
    let choices: &[VR] = match entry.vr() {
        VirtualVr::Xs => &[VR::US, VR::SS],
        VirtualVr::Ox | VirtualVr::Px => &[VR::OB, VR::OW],
        VirtualVr::Lt => &[VR::US, VR::OW],
        _ => return None,
    };
    let vr = *rng.pick(choices);
    let n = rng.urange(1, 6);
    let val = match vr {
        VR::US | VR::OW => GVal::U16((0..n).map(|_| rng.next_u32() as u16).collect()),
        VR::SS => GVal::I16((0..n).map(|_| rng.next_u32() as i16).collect()),
        _ => GVal::U8(rng.bytes(2 * n)),
    };
    Some(GElem { tag, vr, val })
}

pub fn run(cfg: &Cfg) -> Outcome {
    let tss = four_ts();
    let n = cfg.n(20_000, 400_000);
    let local = run_parallel(
        cfg,
        8,
        RunLimits { cases: n, wall: Duration::from_secs(if cfg.thorough() { 900 } else { 90 }) },
        |l: &mut Local, rng: &mut Rng, idx: u64| {
            let mut opts = DsOpts::default();
            opts.explicit_marks = true;
            opts.typed = false;
            opts.big = rng.chance(1, 10);
            let mut ds = gen_dataset(rng, &opts);
            let spelled = rng.chance(1, 4);
            if spelled {
                let first = spelled_first_element(rng);
                ds.retain(|e| e.tag > first.tag);
                ds.insert(0, first);
            } else if idx % 4 == 1 {
                if let Some(first) = virtual_first_element(rng) {
                    ds.retain(|e| e.tag > first.tag);
                    ds.insert(0, first);
                    l.count("virtual_vr_first_elements", 1);
                }
            }
            for (enc_ts, enc_tc) in [(Ts::ExplicitLe, &tss[1]), (Ts::ImplicitLe, &tss[0])] {
                let dsm = if enc_ts == Ts::ImplicitLe { undefine_foreign_sq(&ds) } else { ds.clone() };
                let enc = refenc::encode(&dsm, enc_ts, LenMode::AsMarked);
                if enc.bytes.len() < 8 {
                    continue;
                }
                let (ambiguous, near) = if enc_ts == Ts::ImplicitLe { implicit_ambiguity(&enc.bytes) } else { (false, false) };
                if ambiguous {
                    l.count("ambiguous_excluded", 1);
                    continue;
                }
                if near {
                    l.count("near_ambiguous_exercised", 1);
                }
                let first = &ds[0];
                let known = StandardDataDictionary.by_tag(Tag(first.tag.0, first.tag.1)).is_some();
                let virt = StandardDataDictionary.by_tag(Tag(first.tag.0, first.tag.1)).map(|e| !matches!(e.vr(), VirtualVr::Exact(_))).unwrap_or(false);
                l.class(format!("{}|first-vr={}|known={}|near={}|virtual={}", enc_ts.name(), first.vr, known, near, virt));
                let reference = match tokens(&enc.bytes, &enc_tc.ts, false) {
                    Ok(t) => t,
                    Err(_) => { l.count("reference_reader_failed_skipped", 1); continue; }
                };
                // the flexible reader is used with either declared little-endian syntax
                for declared in [&tss[1], &tss[0]] {
                    l.eval();
                    let flex = match guarded(|| tokens(&enc.bytes, &declared.ts, true)) {
                        Ok(Ok(t)) => t,
                        Ok(Err(e)) => vec![format!("CONSTRUCT-ERROR {}", e)],
                        Err(p) => { l.violation(format!("panic|{}", panic_loc(&p)), p, json!({"seed": cfg.seed, "stream": 8, "case": idx})); continue; }
                    };
                    if flex != reference {
                        let i = flex.iter().zip(reference.iter()).position(|(a, b)| a != b).unwrap_or(flex.len().min(reference.len()));
                        let kind = reference.get(i).map(|s| s.split(['(', ' ', '{']).next().unwrap_or("?").to_string()).unwrap_or_else(|| "end".into());
                        l.violation(
                            format!("encoded={}|declared={}|token={}|first-known={}|near={}", enc_ts.name(), declared.name, kind, known, near),
                            format!("token {}: flexible reader {:?}, {} reader {:?}", i, flex.get(i).map(|s| s.chars().take(140).collect::<String>()), enc_ts.name(), reference.get(i).map(|s| s.chars().take(140).collect::<String>())),
                            json!({"seed": cfg.seed, "stream": 8, "case": idx, "encoded_as": enc_ts.name(), "declared": declared.name,
                                   "first_element": elem_json(first), "stream_hex": hex_short(&enc.bytes, 512)}),
                        );
                    } else {
                        l.count("token_streams_equal", 1);
                    }
                }
            }
            if l.want_sample() && idx % 397 == 0 {
                l.sample(json!({"case": idx, "first_element": elem_json(&ds[0]), "elements": ds.len()}));
            }
        },
    );
    let mut o = Outcome::new(
        local,
        "G-DS data sets (plus deliberately near-ambiguous first elements whose implicit length bytes spell a VR code, and first elements whose dictionary entry is a virtual VR, in each concrete VR it allows) encoded by the reference encoder in Explicit VR LE and Implicit VR LE; token stream with flexible_decoding(true) (declared as either little-endian syntax) must equal the plain explicit/implicit reader's; streams ambiguous per the statement (length bytes spell a VR compatible with the dictionary entry, or tag unknown) are excluded and counted; class = (encoding, first VR, first tag known, near-ambiguous)",
    );
    o.min_evaluations = 2000;
    o.min_classes = 40;
    o
}
