//! C19 — lossless transcoding preserves pixel data exactly.
//!
//! x = native G-IMG image (8/16 bits allocated, 1/3 samples, 1–7 frames, odd frame sizes) in a
//! native source syntax; x → transcode(T) → [write file, read file] → transcode(Explicit VR LE).
//! T ranges over every registered transfer syntax with a pixel encoder that is lossless per PS3.5/
//! PS3.6 (own UID table below) and over the native syntaxes.
//! Oracle: the generated samples (GImg::native_bytes) — byte equality of the final native Pixel
//! Data value, modulo one trailing pad byte of the *whole* value; Rows/Columns/Bits Allocated/
//! Samples per Pixel unchanged, Number of Frames (when present) = frames, and
//! rows·cols·samples·bytes·frames = pixel data length.

use crate::gen::img::*;
use crate::report::*;
use crate::rng::Rng;
use dicom_core::Tag;
use dicom_encoding::transfer_syntax::{Codec, TransferSyntaxIndex};
use dicom_object::{FileDicomObject, InMemDicomObject};
use dicom_pixeldata::Transcode;
use dicom_transfer_syntax_registry::TransferSyntaxRegistry;
use serde_json::json;
use std::time::Duration;

/// Transfer syntaxes whose pixel data encoding is lossless by definition (PS3.5 / PS3.6 Table A-1).
pub const LOSSLESS_UIDS: &[(&str, &str)] = &[
    ("1.2.840.10008.1.2.1.98", "EncapsulatedUncompressed"),
    ("1.2.840.10008.1.2.8.1", "DeflatedImageFrame"),
    ("1.2.840.10008.1.2.5", "RLELossless"),
    ("1.2.840.10008.1.2.4.57", "JPEGLossless"),
    ("1.2.840.10008.1.2.4.70", "JPEGLosslessSV1"),
    ("1.2.840.10008.1.2.4.80", "JPEGLSLossless"),
    ("1.2.840.10008.1.2.4.90", "JPEG2000Lossless"),
    ("1.2.840.10008.1.2.4.92", "JPEG2000MCLossless"),
    ("1.2.840.10008.1.2.4.110", "JPEGXLLossless"),
    ("1.2.840.10008.1.2.4.201", "HTJ2KLossless"),
    ("1.2.840.10008.1.2.4.202", "HTJ2KLosslessRPCL"),
];

pub const NATIVE: &[(&str, &str)] = &[
    (TS_IMPLICIT_LE, "ImplicitLE"),
    (TS_EXPLICIT_LE, "ExplicitLE"),
    (TS_EXPLICIT_BE, "ExplicitBE"),
    (TS_DEFLATED_LE, "DeflatedLE"),
];

/// UIDs of all registered transfer syntaxes that have a pixel data encoder in this build.
pub fn registry_encoders() -> Vec<(String, String)> {
    let mut v: Vec<(String, String)> = TransferSyntaxRegistry
        .iter()
        .filter(|ts| matches!(ts.codec(), Codec::EncapsulatedPixelData(_, Some(_))))
        .map(|ts| (ts.uid().to_string(), ts.name().to_string()))
        .collect();
    v.sort();
    v
}

fn diagnose(observed: &[u8], expected: &[u8], frames: usize) -> &'static str {
    if observed == expected {
        return "equal";
    }
    let fb = expected.len() / frames.max(1);
    if fb % 2 == 1 && (observed.len() == frames * (fb + 1) || observed.len() == frames * (fb + 1) + (frames * (fb + 1)) % 2) {
        let ok = (0..frames).all(|f| observed[f * (fb + 1)..f * (fb + 1) + fb] == expected[f * fb..(f + 1) * fb] && observed[f * (fb + 1) + fb] == 0);
        if ok {
            return "pad-byte-after-each-frame";
        }
    }
    if observed.len() != expected.len() && !(expected.len() % 2 == 1 && observed.len() == expected.len() + 1) {
        return "length";
    }
    let mut e = expected.to_vec();
    if e.len() % 2 == 1 {
        e.push(0);
    }
    if observed.len() == e.len() && observed.chunks(2).zip(e.chunks(2)).all(|(o, x)| o[0] == x[1] && o[1] == x[0]) {
        return "byte-pairs-swapped";
    }
    if observed.len() != expected.len() {
        "length"
    } else {
        "content"
    }
}

fn us(obj: &FileDicomObject<InMemDicomObject>, t: Tag) -> Option<u16> {
    obj.get(t).and_then(|e| e.to_int::<u16>().ok())
}

/// One chain: image in `src` → transcode(target) → [file] → transcode(Explicit VR LE) → compare.
#[allow(clippy::too_many_arguments)]
fn chain(
    l: &mut Local,
    seed: u64,
    stream: u64,
    idx: u64,
    img: &GImg,
    src: (&str, &str),
    target: (&str, &str),
    via_file: bool,
    want: PxRepr,
    eo: dicom_encoding::adapters::EncodeOptions,
) {
    let (src_uid, src_name) = src;
    let (t_uid, t_name) = target;
    let expected = img.native_bytes();
        let place = if via_file { "file" } else { "mem" };
        l.class(format!("{}|{}>{}|{}", img.class(), src_name, t_name, place));
        l.count(&format!("chains_via_{}", t_name), 1);
        l.eval();
        let (mut obj, repr) = img.to_file_object_repr(src_uid, want);
        let mk_replay = || {
            json!({"seed": seed, "stream": stream, "case": idx, "image": img.describe(),
                "source_ts": src_name, "target_ts": t_name, "target_uid": t_uid, "via_file": via_file,
                "pixel_data_representation": repr.name()})
        };
        l.count(&format!("pixel_repr_{}", repr.name()), 1);
        let ts_t = TransferSyntaxRegistry.get(t_uid).expect("registered");
        let ts_le = TransferSyntaxRegistry.get(TS_EXPLICIT_LE).expect("registered");
        let kp = format!("C19|{}|{}", t_name, place);
        // first transcode
        match guarded(|| obj.transcode_with_options(ts_t, eo)) {
            Err(p) => {
                l.violation(format!("{}|panic:to-target|{}", kp, panic_loc(&p)), format!("transcode to {} panicked: {}", t_name, p), mk_replay());
                return;
            }
            Ok(Err(e)) => {
                // A clean refusal by the encoder is not a wrong result (e.g. the JPEG XL encoder
                // rejects images less than 2 pixels wide); it is counted, the reason is noted,
                // and a target without any completed chain makes the run inconclusive.
                l.count(&format!("refused_by_encoder|{}", t_name), 1);
                let msg = format!("{:?}", e);
                let reason: String = msg.split("source: Some(").nth(1).unwrap_or(&msg).chars().take(60).collect();
                l.note(format!("{} encoder refused an image: {}", t_name, reason.replace('\n', " ").trim()));
                return;
            }
            Ok(Ok(())) => {}
        }
        l.count(&format!("encoded|{}", t_name), 1);
        if obj.meta().transfer_syntax() != t_uid {
            l.violation(format!("{}|meta-ts:to-target", kp), format!("file meta transfer syntax is {} after transcoding to {}", obj.meta().transfer_syntax(), t_uid), mk_replay());
        }
        // Observability for symmetric errors (an encoder and a decoder that are wrong in the same
        // way cancel out over the round trip): where PS3.5 defines the fragment content in terms of
        // the native frame, compare it directly — Encapsulated Uncompressed (A.4.11: one frame per
        // fragment, native little-endian bytes, padded to even length) and Deflated Image Frame
        // (one raw RFC 1951 stream per frame, inflated here with flate2, not with dicom-rs).
        if t_name == "EncapsulatedUncompressed" || t_name == "DeflatedImageFrame" {
            use dicom_core::value::Value as DV;
            let frags: Option<Vec<Vec<u8>>> = match obj.get(Tag(0x7FE0, 0x0010)).map(|e| e.value()) {
                Some(DV::PixelSequence(sq)) => Some(sq.fragments().iter().map(|f| f.to_vec()).collect()),
                _ => None,
            };
            if let Some(frags) = frags {
                if frags.len() == img.frames as usize {
                    l.eval();
                    l.count("encoded_frames_inspected", frags.len() as u64);
                    let fb = img.frame_bytes();
                    for (f, frag) in frags.iter().enumerate() {
                        let want = &expected[f * fb..(f + 1) * fb];
                        let got: Vec<u8> = if t_name == "DeflatedImageFrame" {
                            use std::io::Read;
                            let mut out = Vec::new();
                            let mut d = flate2::read::DeflateDecoder::new(&frag[..]);
                            if d.read_to_end(&mut out).is_err() {
                                out.clear();
                            }
                            out
                        } else {
                            frag.clone()
                        };
                        let ok = got.len() >= fb && got.len() <= fb + 1 && &got[..fb] == want && got[fb..].iter().all(|b| *b == 0);
                        if !ok {
                            let mut r = mk_replay();
                            r["frame"] = json!(f);
                            r["expected_frame_hex"] = json!(hex_short(want, 256));
                            r["encoded_frame_content_hex"] = json!(hex_short(&got, 256));
                            l.violation(
                                format!("C19|{}|encoded-frames|content", t_name),
                                format!("fragment {} of the {} object does not hold the native bytes of frame {} ({} bytes vs {} expected)", f, t_name, f, got.len(), fb),
                                r,
                            );
                            break;
                        }
                    }
                }
            }
        }
        if via_file {
            let bytes = match guarded(|| write_file(&obj)) {
                Ok(Ok(b)) => b,
                Ok(Err(e)) => {
                    let mut r = mk_replay();
                    r["error"] = json!(e.chars().take(400).collect::<String>());
                    l.violation(format!("{}|error:write", kp), format!("writing the object transcoded to {} failed: {}", t_name, e.chars().take(200).collect::<String>()), r);
                    return;
                }
                Err(p) => {
                    l.violation(format!("{}|panic:write|{}", kp, panic_loc(&p)), format!("writing panicked: {}", p), mk_replay());
                    return;
                }
            };
            obj = match guarded(|| read_file(&bytes)) {
                Ok(Ok(o)) => o,
                Ok(Err(e)) => {
                    let mut r = mk_replay();
                    r["error"] = json!(e.chars().take(400).collect::<String>());
                    r["file_hex"] = json!(hex_short(&bytes, 4096));
                    l.violation(format!("{}|error:read", kp), format!("re-reading the file written in {} failed: {}", t_name, e.chars().take(200).collect::<String>()), r);
                    return;
                }
                Err(p) => {
                    l.violation(format!("{}|panic:read|{}", kp, panic_loc(&p)), format!("reading panicked: {}", p), mk_replay());
                    return;
                }
            };
        }
        // back to Explicit VR Little Endian
        match guarded(|| obj.transcode(ts_le)) {
            Err(p) => {
                l.violation(format!("{}|panic:to-explicit-le|{}", kp, panic_loc(&p)), format!("transcode {} → Explicit VR LE panicked: {}", t_name, p), mk_replay());
                return;
            }
            Ok(Err(e)) => {
                let mut r = mk_replay();
                r["error"] = json!(format!("{:?}", e).chars().take(400).collect::<String>());
                l.violation(format!("{}|error:to-explicit-le", kp), format!("transcode {} → Explicit VR LE failed: {}", t_name, e), r);
                return;
            }
            Ok(Ok(())) => {}
        }
        l.count(&format!("completed|{}", t_name), 1);
        if obj.meta().transfer_syntax() != TS_EXPLICIT_LE {
            l.violation(format!("{}|meta-ts:final", kp), format!("file meta transfer syntax is {} after transcoding back", obj.meta().transfer_syntax()), mk_replay());
        }
        // pixel data
        let px: Option<Vec<u8>> = obj.get(Tag(0x7FE0, 0x0010)).and_then(|e| e.to_bytes().ok().map(|b| b.to_vec()));
        let observed = match px {
            Some(p) => p,
            None => {
                l.violation(format!("{}|pixel-data-not-native", kp), "Pixel Data is missing or still encapsulated after transcoding to Explicit VR LE".to_string(), mk_replay());
                return;
            }
        };
        let mut obs: &[u8] = &observed;
        if expected.len() % 2 == 1 && obs.len() == expected.len() + 1 && obs[expected.len()] == 0 {
            obs = &obs[..expected.len()];
            l.count("final_value_with_trailing_pad_byte", 1);
        }
        if obs != &expected[..] {
            let d = diagnose(&observed, &expected, img.frames as usize);
            let mut r = mk_replay();
            r["expected_hex"] = json!(hex_short(&expected, 512));
            r["observed_hex"] = json!(hex_short(&observed, 512));
            let key = if d == "byte-pairs-swapped" {
                format!("{}|pixels|{}|value-held-as-{}", kp, d, repr.name())
            } else {
                format!("{}|pixels|{}", kp, d)
            };
            l.violation(
                key,
                format!(
                    "{}x{}x{} sample(s), {} bits, {} frame(s) of {} bytes: {} → {} → ExplicitLE gives {} bytes, expected {} ({})",
                    img.rows, img.cols, img.spp, img.bits_allocated, img.frames, img.frame_bytes(), src_name, t_name, observed.len(), expected.len(), d
                ),
                r,
            );
        }
        // attributes consistent with the pixel data
        let mut attr_bad: Vec<String> = Vec::new();
        if us(&obj, Tag(0x0028, 0x0010)) != Some(img.rows) {
            attr_bad.push(format!("Rows={:?}", us(&obj, Tag(0x0028, 0x0010))));
        }
        if us(&obj, Tag(0x0028, 0x0011)) != Some(img.cols) {
            attr_bad.push(format!("Columns={:?}", us(&obj, Tag(0x0028, 0x0011))));
        }
        if us(&obj, Tag(0x0028, 0x0100)) != Some(img.bits_allocated) {
            attr_bad.push(format!("BitsAllocated={:?}", us(&obj, Tag(0x0028, 0x0100))));
        }
        if us(&obj, Tag(0x0028, 0x0002)) != Some(img.spp) {
            attr_bad.push(format!("SamplesPerPixel={:?}", us(&obj, Tag(0x0028, 0x0002))));
        }
        let nf: Option<u32> = obj.get(Tag(0x0028, 0x0008)).and_then(|e| e.to_int::<u32>().ok());
        match nf {
            Some(k) if k != img.frames => attr_bad.push(format!("NumberOfFrames={}", k)),
            None if img.frames != 1 => attr_bad.push("NumberOfFrames=absent".to_string()),
            _ => {}
        }
        if !attr_bad.is_empty() {
            let mut r = mk_replay();
            r["attributes"] = json!(attr_bad);
            let names: Vec<&str> = attr_bad.iter().map(|s| s.split('=').next().unwrap()).collect();
            l.violation(
                format!("{}|attr|{}", kp, names.join("+")),
                format!("image attributes after the round trip differ from the image: {}", attr_bad.join(", ")),
                r,
            );
        }
        // (0028,0008)·rows·cols·spp·bytes == pixel data length (mod pad) is implied by the two checks above
}

pub fn run(cfg: &Cfg) -> Outcome {
    let encoders = registry_encoders();
    let lossless: Vec<(String, &'static str)> = encoders
        .iter()
        .filter_map(|(uid, _)| LOSSLESS_UIDS.iter().find(|(u, _)| u == uid).map(|(u, n)| (u.to_string(), *n)))
        .collect();
    let mut targets: Vec<(String, &'static str, bool)> = lossless.iter().map(|(u, n)| (u.clone(), *n, true)).collect();
    for (u, n) in NATIVE {
        targets.push((u.to_string(), *n, false));
    }
    let mut base = Local::new();
    base.note(format!(
        "registered transfer syntaxes with a pixel encoder in this build: {}",
        encoders.iter().map(|(u, n)| format!("{} ({})", n, u)).collect::<Vec<_>>().join(", ")
    ));
    base.note(format!(
        "lossless encoder targets exercised: {}; not built in this sandbox (no encoder registered): {}",
        lossless.iter().map(|(_, n)| *n).collect::<Vec<_>>().join(", "),
        LOSSLESS_UIDS.iter().filter(|(u, _)| !lossless.iter().any(|(x, _)| x == u)).map(|(_, n)| *n).collect::<Vec<_>>().join(", ")
    ));
    if cfg.only_case.is_none() {
        let mk = |rows: u16, cols: u16, frames: u32, spp: u16, bits: u16, samples: Vec<u16>| GImg {
            rows,
            cols,
            frames,
            spp,
            bits_allocated: bits,
            bits_stored: bits,
            signed: false,
            photometric: if spp == 3 { "RGB" } else { "MONOCHROME2" },
            fill: Fill::Ramp,
            samples,
            explicit_number_of_frames: frames > 1,
        };
        // DESIGN §4 row 6: three 3×3 8-bit frames
        let a = mk(3, 3, 3, 1, 8, (1..=27).collect());
        // two 1×1 8-bit frames held as OW bytes, and one 16-bit pixel pair
        let b = mk(1, 1, 2, 1, 8, vec![0x11, 0x22]);
        let c = mk(1, 2, 1, 1, 16, vec![0x0102, 0x0304]);
        let le = (TS_EXPLICIT_LE, "ExplicitLE");
        let mut i = 0;
        for (t_uid, t_name, _) in &targets {
            for (img, want) in [(&a, PxRepr::ObBytes), (&b, PxRepr::OwBytes), (&c, PxRepr::OwBytes), (&c, PxRepr::OwWords)] {
                for via_file in [false, true] {
                    if t_uid.as_str() == le.0 {
                        continue;
                    }
                    base.eval();
                    chain(&mut base, cfg.seed, 190, i, img, le, (t_uid.as_str(), *t_name), via_file, want, dicom_encoding::adapters::EncodeOptions::new());
                    i += 1;
                }
            }
        }
    }
    let n = cfg.n(9_000, 800_000);
    let local = run_parallel(
        cfg,
        19,
        RunLimits {
            cases: n,
            wall: Duration::from_secs(if cfg.thorough() { 800 } else { 50 }),
        },
        |l: &mut Local, rng: &mut Rng, idx: u64| {
            let mut o = ImgOpts::no_1bit();
            o.garbage_high_bits = rng.bool();
            // tiny hand-sized images at the low indices so that witnesses are small
            let img = if idx < 64 {
                let mut o2 = o.clone();
                o2.max_dim = 3;
                o2.max_frames = 3;
                o2.bigger_one_in = 0;
                gen_image(rng, &o2)
            } else {
                gen_image(rng, &o)
            };
            let (src_uid, src_name) = *rng.pick(NATIVE);
            l.count(&format!("images_a{}_spp{}", img.bits_allocated, img.spp), 1);
            l.count(&format!("images_frames_{}", img.frames), 1);
            if img.frame_bytes() % 2 == 1 {
                l.count("images_odd_frame_size", 1);
            }
            if l.want_sample() && idx % 499 == 0 {
                l.sample(json!({"case": idx, "image": img.describe(), "source_ts": src_name}));
            }
            for (t_uid, t_name, _encaps) in &targets {
                if t_uid.as_str() == src_uid {
                    continue;
                }
                // deflate set-up costs ~5 ms per frame / file: sample these targets more thinly
                let slow = *t_name == "DeflatedImageFrame" || *t_name == "DeflatedLE";
                if slow && idx >= 64 && !rng.chance(1, 3) {
                    continue;
                }
                let via_file = rng.bool();
                let want = match (img.bits_allocated, rng.usize(10)) {
                    (16, k) if k <= 6 => PxRepr::OwWords,
                    (16, _) => PxRepr::OwBytes,
                    (_, k) if k <= 5 => PxRepr::ObBytes,
                    (_, k) if k <= 7 => PxRepr::OwBytes,
                    _ => PxRepr::OwWords,
                };
                // encoder options are part of the configuration space (ignored by lossless codecs
                // except for the deflate effort)
                let mut eo = dicom_encoding::adapters::EncodeOptions::new();
                if rng.chance(1, 4) {
                    eo.effort = Some(*rng.pick(&[0u8, 1, 50, 100]));
                }
                if rng.chance(1, 8) {
                    eo.quality = Some(*rng.pick(&[0u8, 50, 100]));
                }
                chain(l, cfg.seed, 19, idx, &img, (src_uid, src_name), (t_uid.as_str(), *t_name), via_file, want, eo);
            }
        },
    );
    base.merge(local);
    // every target must have completed chains, otherwise nothing was observed for it
    let missing: Vec<&str> = targets
        .iter()
        .filter(|(_, n, _)| base.counters.get(&format!("completed|{}", n)).copied().unwrap_or(0) < 20)
        .map(|(_, n, _)| *n)
        .collect();
    let mut o = Outcome::new(
        base,
        "G-IMG native images (8/16 bits allocated, stored ≤ allocated, signed/unsigned, 1/3 samples, rows/cols 1–17 (+one up to 64), 1–7 frames, odd frame sizes) in a random native source syntax → transcode(T) → [file write+read in half of the cases] → transcode(Explicit VR LE), T ∈ registered lossless encoders ∪ {Implicit LE, Explicit LE, Explicit BE, Deflated LE}: final Pixel Data bytes == generated samples (modulo one trailing pad byte), Rows/Columns/BitsAllocated/SamplesPerPixel/NumberOfFrames consistent; class = (image class, source>target, mem/file)",
    );
    o.min_evaluations = 2000;
    o.min_classes = 100;
    if !missing.is_empty() && cfg.only_case.is_none() {
        o.inconclusive = Some(format!("fewer than 20 completed round trips for target(s) {}", missing.join(", ")));
    }
    o
}
