//! C16 core — transfer syntax registry consistency. Shared verbatim by the harness (`props/c16.rs`)
//! and by the tiny probe crate `harness/c16probe` (which is built with other cargo feature sets of
//! `dicom-transfer-syntax-registry`). Depends only on dicom-core/encoding/object/registry + flate2.
//!
//! Oracles written here from the standard / the documentation:
//! * PS3.6 Table A-1 as a hand-written list of transfer syntax UIDs; only `1.2.840.10008.1.2` is
//!   Implicit VR and only `1.2.840.10008.1.2.2` is big endian.
//! * element header layouts of PS3.5 7.1 for the three encodings (hand-assembled bytes).
//! * the meaning of the capability queries as documented on `TransferSyntax`, expressed over the
//!   *shape* of `codec()` (none / data set adapter present|absent / pixel reader,writer present).

use dicom_core::header::DataElementHeader;
use dicom_core::{DataElement, Length, PrimitiveValue, Tag, VR};
use dicom_encoding::transfer_syntax::{Codec, Endianness, TransferSyntax, TransferSyntaxIndex};
use dicom_object::InMemDicomObject;
use dicom_transfer_syntax_registry::TransferSyntaxRegistry;
use std::collections::{BTreeMap, BTreeSet};

#[derive(Default, Debug)]
pub struct Sink {
    pub evaluations: u64,
    pub classes: BTreeSet<String>,
    pub counters: BTreeMap<String, u64>,
    /// key -> (what, witness)
    pub violations: BTreeMap<String, (String, String, u64)>,
    pub notes: BTreeSet<String>,
    pub samples: Vec<String>,
}

impl Sink {
    fn eval(&mut self) {
        self.evaluations += 1;
    }
    fn class(&mut self, c: String) {
        self.classes.insert(c);
    }
    fn count(&mut self, k: &str, n: u64) {
        *self.counters.entry(k.to_string()).or_insert(0) += n;
    }
    fn violation(&mut self, key: String, what: String, witness: String) {
        let e = self.violations.entry(key).or_insert((what, witness, 0));
        e.2 += 1;
    }
    fn note(&mut self, s: String) {
        self.notes.insert(s);
    }
}

/// PS3.6 Table A-1 (transfer syntax UIDs incl. retired ones that are still listed).
/// (uid, short name, encapsulated pixel data, deflated data set)
pub const PS36_TS: &[(&str, &str, bool, bool)] = &[
    ("1.2.840.10008.1.2", "Implicit VR Little Endian", false, false),
    ("1.2.840.10008.1.2.1", "Explicit VR Little Endian", false, false),
    ("1.2.840.10008.1.2.1.98", "Encapsulated Uncompressed Explicit VR Little Endian", true, false),
    ("1.2.840.10008.1.2.1.99", "Deflated Explicit VR Little Endian", false, true),
    ("1.2.840.10008.1.2.2", "Explicit VR Big Endian (Retired)", false, false),
    ("1.2.840.10008.1.2.4.50", "JPEG Baseline (Process 1)", true, false),
    ("1.2.840.10008.1.2.4.51", "JPEG Extended (Process 2 & 4)", true, false),
    ("1.2.840.10008.1.2.4.52", "JPEG Extended (Process 3 & 5) (Retired)", true, false),
    ("1.2.840.10008.1.2.4.53", "JPEG Spectral Selection, Non-Hierarchical (Process 6 & 8) (Retired)", true, false),
    ("1.2.840.10008.1.2.4.54", "JPEG Spectral Selection, Non-Hierarchical (Process 7 & 9) (Retired)", true, false),
    ("1.2.840.10008.1.2.4.55", "JPEG Full Progression, Non-Hierarchical (Process 10 & 12) (Retired)", true, false),
    ("1.2.840.10008.1.2.4.56", "JPEG Full Progression, Non-Hierarchical (Process 11 & 13) (Retired)", true, false),
    ("1.2.840.10008.1.2.4.57", "JPEG Lossless, Non-Hierarchical (Process 14)", true, false),
    ("1.2.840.10008.1.2.4.58", "JPEG Lossless, Non-Hierarchical (Process 15) (Retired)", true, false),
    ("1.2.840.10008.1.2.4.59", "JPEG Extended, Hierarchical (Process 16 & 18) (Retired)", true, false),
    ("1.2.840.10008.1.2.4.60", "JPEG Extended, Hierarchical (Process 17 & 19) (Retired)", true, false),
    ("1.2.840.10008.1.2.4.61", "JPEG Spectral Selection, Hierarchical (Process 20 & 22) (Retired)", true, false),
    ("1.2.840.10008.1.2.4.62", "JPEG Spectral Selection, Hierarchical (Process 21 & 23) (Retired)", true, false),
    ("1.2.840.10008.1.2.4.63", "JPEG Full Progression, Hierarchical (Process 24 & 26) (Retired)", true, false),
    ("1.2.840.10008.1.2.4.64", "JPEG Full Progression, Hierarchical (Process 25 & 27) (Retired)", true, false),
    ("1.2.840.10008.1.2.4.65", "JPEG Lossless, Hierarchical (Process 28) (Retired)", true, false),
    ("1.2.840.10008.1.2.4.66", "JPEG Lossless, Hierarchical (Process 29) (Retired)", true, false),
    ("1.2.840.10008.1.2.4.70", "JPEG Lossless, Non-Hierarchical, First-Order Prediction", true, false),
    ("1.2.840.10008.1.2.4.80", "JPEG-LS Lossless", true, false),
    ("1.2.840.10008.1.2.4.81", "JPEG-LS Lossy (Near-Lossless)", true, false),
    ("1.2.840.10008.1.2.4.90", "JPEG 2000 (Lossless Only)", true, false),
    ("1.2.840.10008.1.2.4.91", "JPEG 2000", true, false),
    ("1.2.840.10008.1.2.4.92", "JPEG 2000 Part 2 Multi-component (Lossless Only)", true, false),
    ("1.2.840.10008.1.2.4.93", "JPEG 2000 Part 2 Multi-component", true, false),
    ("1.2.840.10008.1.2.4.94", "JPIP Referenced", false, false),
    ("1.2.840.10008.1.2.4.95", "JPIP Referenced Deflate", false, true),
    ("1.2.840.10008.1.2.4.100", "MPEG2 Main Profile / Main Level", true, false),
    ("1.2.840.10008.1.2.4.100.1", "Fragmentable MPEG2 Main Profile / Main Level", true, false),
    ("1.2.840.10008.1.2.4.101", "MPEG2 Main Profile / High Level", true, false),
    ("1.2.840.10008.1.2.4.101.1", "Fragmentable MPEG2 Main Profile / High Level", true, false),
    ("1.2.840.10008.1.2.4.102", "MPEG-4 AVC/H.264 High Profile / Level 4.1", true, false),
    ("1.2.840.10008.1.2.4.102.1", "Fragmentable MPEG-4 AVC/H.264 High Profile / Level 4.1", true, false),
    ("1.2.840.10008.1.2.4.103", "MPEG-4 AVC/H.264 BD-compatible High Profile / Level 4.1", true, false),
    ("1.2.840.10008.1.2.4.103.1", "Fragmentable MPEG-4 AVC/H.264 BD-compatible High Profile / Level 4.1", true, false),
    ("1.2.840.10008.1.2.4.104", "MPEG-4 AVC/H.264 High Profile / Level 4.2 For 2D Video", true, false),
    ("1.2.840.10008.1.2.4.104.1", "Fragmentable MPEG-4 AVC/H.264 High Profile / Level 4.2 For 2D Video", true, false),
    ("1.2.840.10008.1.2.4.105", "MPEG-4 AVC/H.264 High Profile / Level 4.2 For 3D Video", true, false),
    ("1.2.840.10008.1.2.4.105.1", "Fragmentable MPEG-4 AVC/H.264 High Profile / Level 4.2 For 3D Video", true, false),
    ("1.2.840.10008.1.2.4.106", "MPEG-4 AVC/H.264 Stereo High Profile / Level 4.2", true, false),
    ("1.2.840.10008.1.2.4.106.1", "Fragmentable MPEG-4 AVC/H.264 Stereo High Profile / Level 4.2", true, false),
    ("1.2.840.10008.1.2.4.107", "HEVC/H.265 Main Profile / Level 5.1", true, false),
    ("1.2.840.10008.1.2.4.108", "HEVC/H.265 Main 10 Profile / Level 5.1", true, false),
    ("1.2.840.10008.1.2.4.110", "JPEG XL Lossless", true, false),
    ("1.2.840.10008.1.2.4.111", "JPEG XL JPEG Recompression", true, false),
    ("1.2.840.10008.1.2.4.112", "JPEG XL", true, false),
    ("1.2.840.10008.1.2.4.201", "High-Throughput JPEG 2000 (Lossless Only)", true, false),
    ("1.2.840.10008.1.2.4.202", "High-Throughput JPEG 2000 with RPCL Options (Lossless Only)", true, false),
    ("1.2.840.10008.1.2.4.203", "High-Throughput JPEG 2000", true, false),
    ("1.2.840.10008.1.2.4.204", "JPIP HTJ2K Referenced", false, false),
    ("1.2.840.10008.1.2.4.205", "JPIP HTJ2K Referenced Deflate", false, true),
    ("1.2.840.10008.1.2.5", "RLE Lossless", true, false),
    ("1.2.840.10008.1.2.6.1", "RFC 2557 MIME encapsulation (Retired)", false, false),
    ("1.2.840.10008.1.2.6.2", "XML Encoding (Retired)", false, false),
    ("1.2.840.10008.1.2.7.1", "SMPTE ST 2110-20 Uncompressed Progressive Active Video", true, false),
    ("1.2.840.10008.1.2.7.2", "SMPTE ST 2110-20 Uncompressed Interlaced Active Video", true, false),
    ("1.2.840.10008.1.2.7.3", "SMPTE ST 2110-30 PCM Digital Audio", true, false),
    ("1.2.840.10008.1.2.8.1", "Deflated Image Frame Compression", true, false),
    // retired Papyrus 3 syntax (implicit VR, private to that format; never a registry entry)
    ("1.2.840.10008.1.20", "Papyrus 3 Implicit VR Little Endian (Retired)", false, false),
];

const IMPLICIT_LE: &str = "1.2.840.10008.1.2";
const EXPLICIT_BE: &str = "1.2.840.10008.1.2.2";

fn repo_root() -> String {
    std::env::var("VERIF_REPO").unwrap_or_else(|_| "/repo".to_string())
}

#[derive(Clone, Copy, PartialEq, Debug)]
enum Enc {
    ImplicitLe,
    ExplicitLe,
    ExplicitBe,
}

fn expected_enc(uid: &str) -> Enc {
    if uid == IMPLICIT_LE {
        Enc::ImplicitLe
    } else if uid == EXPLICIT_BE {
        Enc::ExplicitBe
    } else {
        Enc::ExplicitLe
    }
}

fn u16b(v: u16, e: Enc) -> [u8; 2] {
    if e == Enc::ExplicitBe {
        v.to_be_bytes()
    } else {
        v.to_le_bytes()
    }
}
fn u32b(v: u32, e: Enc) -> [u8; 4] {
    if e == Enc::ExplicitBe {
        v.to_be_bytes()
    } else {
        v.to_le_bytes()
    }
}

/// PS3.5 7.1: header of a short-form VR element.
fn header_bytes(tag: (u16, u16), vr: &str, len: u16, e: Enc) -> Vec<u8> {
    let mut out = Vec::new();
    out.extend_from_slice(&u16b(tag.0, e));
    out.extend_from_slice(&u16b(tag.1, e));
    match e {
        Enc::ImplicitLe => out.extend_from_slice(&u32b(len as u32, e)),
        _ => {
            out.extend_from_slice(vr.as_bytes());
            out.extend_from_slice(&u16b(len, e));
        }
    }
    out
}

/// The fixed little data set and its hand-assembled encoding.
fn small_dataset() -> InMemDicomObject {
    InMemDicomObject::from_element_iter([
        DataElement::new(Tag(0x0008, 0x0060), VR::CS, PrimitiveValue::from("MR")),
        DataElement::new(Tag(0x0010, 0x0020), VR::LO, PrimitiveValue::from("ID1")),
        DataElement::new(Tag(0x0028, 0x0010), VR::US, PrimitiveValue::from(512u16)),
        DataElement::new(Tag(0x0028, 0x0011), VR::US, PrimitiveValue::from(0x0102u16)),
    ])
}

fn small_dataset_bytes(e: Enc) -> Vec<u8> {
    let mut out = Vec::new();
    out.extend(header_bytes((0x0008, 0x0060), "CS", 2, e));
    out.extend_from_slice(b"MR");
    out.extend(header_bytes((0x0010, 0x0020), "LO", 4, e));
    out.extend_from_slice(b"ID1 ");
    out.extend(header_bytes((0x0028, 0x0010), "US", 2, e));
    out.extend_from_slice(&u16b(512, e));
    out.extend(header_bytes((0x0028, 0x0011), "US", 2, e));
    out.extend_from_slice(&u16b(0x0102, e));
    out
}

fn hex(b: &[u8]) -> String {
    b.iter().map(|x| format!("{:02x}", x)).collect()
}

fn inflate_raw(data: &[u8]) -> Result<Vec<u8>, String> {
    use std::io::Read;
    let mut d = flate2::read::DeflateDecoder::new(data);
    let mut out = Vec::new();
    d.read_to_end(&mut out).map_err(|e| e.to_string())?;
    Ok(out)
}

fn catch<T>(f: impl FnOnce() -> T) -> Result<T, String> {
    std::panic::catch_unwind(std::panic::AssertUnwindSafe(f)).map_err(|e| {
        if let Some(s) = e.downcast_ref::<&str>() {
            s.to_string()
        } else if let Some(s) = e.downcast_ref::<String>() {
            s.clone()
        } else {
            "<panic>".to_string()
        }
    })
}

/// UID string literals and `pub const` names in `transfer-syntax-registry/src/entries.rs`.
fn parse_entries_source() -> Result<(BTreeSet<String>, Vec<(String, String)>), String> {
    let path = format!("{}/transfer-syntax-registry/src/entries.rs", repo_root());
    let text = std::fs::read_to_string(&path).map_err(|e| format!("{}: {}", path, e))?;
    let mut names = BTreeSet::new();
    let mut pairs: Vec<(String, String)> = Vec::new();
    let mut current: Option<String> = None;
    for line in text.lines() {
        let l = line.trim();
        if l.starts_with("//") {
            continue;
        }
        if let Some(rest) = l.strip_prefix("pub const ") {
            if let Some((n, _)) = rest.split_once(':') {
                names.insert(n.trim().to_string());
                current = Some(n.trim().to_string());
            }
        }
        // first UID literal after a `pub const` line belongs to that constant
        if let Some(i) = l.find("\"1.2.840.10008.") {
            let tail = &l[i + 1..];
            if let Some(j) = tail.find('"') {
                let uid = tail[..j].to_string();
                if let Some(n) = current.take() {
                    pairs.push((n, uid));
                }
            }
        }
    }
    if names.len() < 10 {
        return Err(format!("only {} constants parsed from {}", names.len(), path));
    }
    Ok((names, pairs))
}

/// `pub const NAME: &str = "uid";` preceded by `/// Transfer Syntax: …` in dictionary-std/src/uids.rs
fn parse_uids_rs_transfer_syntaxes() -> Result<BTreeSet<String>, String> {
    let path = format!("{}/dictionary-std/src/uids.rs", repo_root());
    let text = std::fs::read_to_string(&path).map_err(|e| format!("{}: {}", path, e))?;
    let mut out = BTreeSet::new();
    let mut is_ts = false;
    for line in text.lines() {
        let l = line.trim();
        if let Some(d) = l.strip_prefix("/// ") {
            is_ts = d.starts_with("Transfer Syntax:");
            continue;
        }
        if l.starts_with("pub const ") && is_ts {
            if let Some(i) = l.find('"') {
                if let Some(j) = l[i + 1..].find('"') {
                    out.insert(l[i + 1..i + 1 + j].to_string());
                }
            }
            is_ts = false;
        }
    }
    Ok(out)
}

fn shape<D, R, W>(c: &Codec<D, R, W>) -> &'static str {
    match c {
        Codec::None => "none",
        Codec::Dataset(Some(_)) => "dataset-adapter",
        Codec::Dataset(None) => "dataset-unsupported",
        Codec::EncapsulatedPixelData(Some(_), Some(_)) => "pixel-reader+writer",
        Codec::EncapsulatedPixelData(Some(_), None) => "pixel-reader",
        Codec::EncapsulatedPixelData(None, Some(_)) => "pixel-writer",
        Codec::EncapsulatedPixelData(None, None) => "pixel-stub",
    }
}

pub fn check_registry(features: &str) -> Sink {
    let mut s = Sink::default();
    let prev_hook = std::panic::take_hook();
    std::panic::set_hook(Box::new(|_| {}));
    check_registry_inner(&mut s, features);
    std::panic::set_hook(prev_hook);
    s
}

fn check_registry_inner(s: &mut Sink, features: &str) {
    let all: Vec<&TransferSyntax> = TransferSyntaxRegistry.iter().collect();
    s.count("registered_transfer_syntaxes", all.len() as u64);
    let ps36: BTreeMap<&str, (&str, bool, bool)> = PS36_TS.iter().map(|(u, n, e, d)| (*u, (*n, *e, *d))).collect();

    // ---- the hand-written table against a second source (dictionary-std uids.rs) -------------
    match parse_uids_rs_transfer_syntaxes() {
        Ok(u) => {
            let mine: BTreeSet<String> = PS36_TS.iter().map(|t| t.0.to_string()).collect();
            let only_mine: Vec<&String> = mine.difference(&u).collect();
            let only_theirs: Vec<&String> = u.difference(&mine).collect();
            s.count("ps36_table_entries", mine.len() as u64);
            s.count("ps36_table_entries_confirmed_by_uids_rs", mine.intersection(&u).count() as u64);
            if !only_mine.is_empty() {
                s.note(format!("PS3.6 table entries not among the 'Transfer Syntax' constants of uids.rs: {:?}", only_mine));
            }
            if !only_theirs.is_empty() {
                s.note(format!("'Transfer Syntax' constants of uids.rs missing from the harness PS3.6 table: {:?}", only_theirs));
            }
        }
        Err(e) => s.note(format!("uids.rs cross-check skipped: {}", e)),
    }

    // ---- uniqueness: registry vs the entry definitions in the source ------------------------
    s.eval();
    let mut seen: BTreeMap<&str, &str> = BTreeMap::new();
    for ts in &all {
        if let Some(prev) = seen.insert(ts.uid(), ts.name()) {
            s.violation(
                "registry|duplicate-uid-in-iter".into(),
                format!("UID {} is listed twice by the registry iterator ({:?} and {:?})", ts.uid(), prev, ts.name()),
                ts.uid().to_string(),
            );
        }
    }
    match parse_entries_source() {
        Ok((names, pairs)) => {
            s.count("entry_constants_in_source", names.len() as u64);
            let mut by_uid: BTreeMap<&str, BTreeSet<&str>> = BTreeMap::new();
            for (n, u) in &pairs {
                by_uid.entry(u.as_str()).or_default().insert(n.as_str());
            }
            s.eval();
            for (uid, ns) in &by_uid {
                if ns.len() > 1 {
                    s.violation(
                        "entries|duplicate-uid".into(),
                        format!("UID {} is used by several entry constants: {:?}", uid, ns),
                        uid.to_string(),
                    );
                }
                if !seen.contains_key(uid) {
                    s.violation(
                        "entries|defined-but-not-registered".into(),
                        format!("UID {} ({:?}) is defined in entries.rs but the registry does not know it", uid, ns),
                        uid.to_string(),
                    );
                }
            }
            let source_uids: BTreeSet<&str> = by_uid.keys().copied().collect();
            if names.len() != source_uids.len() {
                s.note(format!("entries.rs: {} constant names for {} distinct UIDs", names.len(), source_uids.len()));
            }
            if all.len() < names.len() {
                s.violation(
                    "registry|fewer-entries-than-defined".into(),
                    format!("the registry holds {} transfer syntaxes but entries.rs defines {} constants", all.len(), names.len()),
                    format!("{} < {}", all.len(), names.len()),
                );
            }
        }
        Err(e) => s.note(format!("entries.rs cross-check skipped: {}", e)),
    }

    // ---- per transfer syntax -----------------------------------------------------------------
    let obj = small_dataset();
    for ts in &all {
        let uid = ts.uid();
        let sh = shape(ts.codec());
        s.class(format!("{}|{}|{}", features, uid, sh));
        s.count(&format!("shape_{}", sh), 1);
        let w = |extra: &str| format!("features=[{}] uid={} name={:?} codec={} {}", features, uid, ts.name(), sh, extra);
        if !ps36.contains_key(uid) {
            s.note(format!("registered UID {} is not in the harness PS3.6 table", uid));
            s.count("uids_not_in_ps36_table", 1);
        }

        // (1) lookups with padding
        for (pad_name, pad) in [("exact", ""), ("nul", "\0"), ("space", " "), ("nul-nul", "\0\0"), ("space-nul", " \0")] {
            s.eval();
            let q = format!("{}{}", uid, pad);
            match catch(|| TransferSyntaxRegistry.get(&q).map(|t| (t.uid(), t.name()))) {
                Ok(Some((u, n))) if u == uid && n == ts.name() => {}
                Ok(other) => s.violation(
                    format!("get|{}|mismatch", pad_name),
                    format!("get({:?}) = {:?}, expected the entry {} {:?}", q, other, uid, ts.name()),
                    w(&format!("query={:?}", q)),
                ),
                Err(p) => s.violation(format!("get|{}|panic", pad_name), format!("get({:?}) panicked: {}", q, p), w("")),
            }
        }

        // (2) encoding per PS3.6: observed through the element encoder/decoder the TS hands out
        let want = expected_enc(uid);
        s.eval();
        let endian_ok = match (ts.endianness(), want) {
            (Endianness::Big, Enc::ExplicitBe) => true,
            (Endianness::Little, Enc::ExplicitBe) => false,
            (Endianness::Little, _) => true,
            (Endianness::Big, _) => false,
        };
        if !endian_ok {
            s.violation(
                format!("endianness|{}", if want == Enc::ExplicitBe { "big-endian-ts-reported-little" } else { "little-endian-ts-reported-big" }),
                format!("endianness() = {:?} for {}", ts.endianness(), uid),
                w(""),
            );
        }
        let hdr = DataElementHeader::new(Tag(0x0028, 0x0010), VR::US, Length(2));
        let want_hdr = header_bytes((0x0028, 0x0010), "US", 2, want);
        let enc = ts.encoder_for::<Vec<u8>>();
        let dec = ts.decoder_for::<&[u8]>();
        if let Some(enc) = &enc {
            s.eval();
            let mut out = Vec::new();
            match catch(|| enc.encode_element_header(&mut out, hdr)) {
                Ok(Ok(_)) => {
                    if out != want_hdr {
                        let got = if out.len() == 8 && &out[4..6] == b"US" { "explicit" } else { "implicit" };
                        s.violation(
                            format!("encoder|header-layout|expected={:?}|got-{}", want, got),
                            format!("element header of (0028,0010) US len 2 encoded as {} for {}, PS3.5 gives {}", hex(&out), uid, hex(&want_hdr)),
                            w(&format!("observed={} expected={}", hex(&out), hex(&want_hdr))),
                        );
                    }
                }
                Ok(Err(e)) => s.violation("encoder|header|error".into(), format!("encode_element_header failed for {}: {}", uid, e), w("")),
                Err(p) => s.violation("encoder|header|panic".into(), format!("encode_element_header panicked for {}: {}", uid, p), w("")),
            }
        }
        if let Some(dec) = &dec {
            s.eval();
            let mut src: &[u8] = &want_hdr;
            match catch(|| dec.decode_header(&mut src)) {
                Ok(Ok((h, n))) => {
                    let vr_ok = h.vr == VR::US;
                    if h.tag != Tag(0x0028, 0x0010) || h.len != Length(2) || n != 8 || !vr_ok {
                        s.violation(
                            format!("decoder|header-layout|expected={:?}", want),
                            format!("PS3.5 header {} decoded as tag {} vr {} len {:?} ({} bytes) for {}", hex(&want_hdr), h.tag, h.vr, h.len, n, uid),
                            w(""),
                        );
                    }
                }
                Ok(Err(e)) => s.violation(
                    format!("decoder|header|error|expected={:?}", want),
                    format!("decode_header of a PS3.5 {:?} header failed for {}: {}", want, uid, e),
                    w(""),
                ),
                Err(p) => s.violation("decoder|header|panic".into(), format!("decode_header panicked for {}: {}", uid, p), w("")),
            }
        }

        // (3) capability queries vs the shape of codec(), as documented
        let expect: [(&str, bool, bool); 9] = [
            ("is_codec_free", ts.is_codec_free(), sh == "none"),
            ("is_fully_supported", ts.is_fully_supported(), matches!(sh, "none" | "dataset-adapter" | "pixel-reader+writer")),
            ("is_unsupported", ts.is_unsupported(), sh == "dataset-unsupported"),
            ("is_encapsulated_pixel_data", ts.is_encapsulated_pixel_data(), sh.starts_with("pixel-")),
            ("is_unsupported_pixel_encapsulation", ts.is_unsupported_pixel_encapsulation(), matches!(sh, "dataset-unsupported" | "pixel-stub")),
            ("can_decode_all", ts.can_decode_all(), matches!(sh, "none" | "dataset-adapter" | "pixel-reader+writer" | "pixel-reader")),
            ("can_decode_dataset", ts.can_decode_dataset(), sh != "dataset-unsupported"),
            ("pixel_data_reader", ts.pixel_data_reader().is_some(), matches!(sh, "pixel-reader+writer" | "pixel-reader")),
            ("pixel_data_writer", ts.pixel_data_writer().is_some(), matches!(sh, "pixel-reader+writer" | "pixel-writer")),
        ];
        for (name, got, want_b) in expect {
            s.eval();
            if got != want_b {
                s.violation(
                    format!("capability|{}|codec={}", name, sh),
                    format!("{}() = {} for {} whose codec() is {}", name, got, uid, sh),
                    w(""),
                );
            }
        }
        // mutual consistency independent of codec()
        s.eval();
        if ts.is_fully_supported() && !ts.can_decode_all() {
            s.violation("capability|fully-supported-but-cannot-decode-all".into(), format!("{}", uid), w(""));
        }
        if ts.can_decode_all() && !ts.can_decode_dataset() {
            s.violation("capability|decode-all-but-not-dataset".into(), format!("{}", uid), w(""));
        }
        if ts.is_unsupported() && ts.can_decode_dataset() {
            s.violation("capability|unsupported-but-can-decode-dataset".into(), format!("{}", uid), w(""));
        }
        if ts.is_codec_free() && ts.is_encapsulated_pixel_data() {
            s.violation("capability|codec-free-but-encapsulated".into(), format!("{}", uid), w(""));
        }
        // PS3.6: which syntaxes encapsulate pixel data / deflate the data set
        if let Some((_, encaps, deflated)) = ps36.get(uid) {
            s.eval();
            if *encaps != ts.is_encapsulated_pixel_data() && !*deflated {
                // JPIP referenced syntaxes carry no pixel data at all; the registry models them as
                // stubs of encapsulated pixel data — accepted (documented as "stub descriptors")
                if !matches!(uid, "1.2.840.10008.1.2.4.94" | "1.2.840.10008.1.2.4.204") {
                    s.note(format!(
                        "is_encapsulated_pixel_data() = {} for {} while the harness PS3.6 table says {}",
                        ts.is_encapsulated_pixel_data(), uid, encaps
                    ));
                }
            }
            if *deflated != matches!(sh, "dataset-adapter" | "dataset-unsupported") {
                s.violation(
                    format!("ps36|deflated|table={}", deflated),
                    format!("codec() is {} for {}, PS3.6 says deflated={}", sh, uid, deflated),
                    w(""),
                );
            }
        }

        // (4) can_decode_dataset ⇒ decoder and encoder present
        s.eval();
        if ts.can_decode_dataset() && (enc.is_none() || dec.is_none()) {
            s.violation(
                "can_decode_dataset|missing-codec".into(),
                format!("can_decode_dataset() but decoder_for().is_some()={} encoder_for().is_some()={} for {}", dec.is_some(), enc.is_some(), uid),
                w(""),
            );
        }

        // (5) behaviour: a TS that claims to handle data sets round-trips a small one
        if ts.can_decode_dataset() {
            s.eval();
            let mut out = Vec::new();
            match catch(|| obj.write_dataset_with_ts(&mut out, ts)) {
                Ok(Ok(())) => {
                    let plain = if sh == "dataset-adapter" {
                        match inflate_raw(&out) {
                            Ok(p) => Some(p),
                            Err(e) => {
                                s.violation(
                                    "behaviour|deflated-output-not-inflatable".into(),
                                    format!("data set written for {} is not a raw deflate stream: {}", uid, e),
                                    w(&format!("written={}", hex(&out))),
                                );
                                None
                            }
                        }
                    } else {
                        Some(out.clone())
                    };
                    if let Some(plain) = plain {
                        let want_bytes = small_dataset_bytes(want);
                        if plain != want_bytes {
                            s.violation(
                                format!("behaviour|written-bytes|expected={:?}|codec={}", want, sh),
                                format!("data set written for {} is {}, PS3.5 encoding is {}", uid, hex(&plain), hex(&want_bytes)),
                                w(""),
                            );
                        }
                    }
                    s.eval();
                    match catch(|| InMemDicomObject::read_dataset_with_ts(&out[..], ts)) {
                        Ok(Ok(back)) => {
                            let get = |o: &InMemDicomObject, t: Tag| o.element(t).ok().map(|e| (e.vr(), e.to_str().map(|c| c.to_string()).unwrap_or_default()));
                            for t in [Tag(0x0008, 0x0060), Tag(0x0010, 0x0020), Tag(0x0028, 0x0010), Tag(0x0028, 0x0011)] {
                                if get(&back, t) != get(&obj, t) {
                                    s.violation(
                                        format!("behaviour|round-trip-mismatch|codec={}", sh),
                                        format!("element {} read back as {:?}, written {:?} under {}", t, get(&back, t), get(&obj, t), uid),
                                        w(""),
                                    );
                                }
                            }
                            if back.into_iter().count() != 4 {
                                s.violation(format!("behaviour|round-trip-count|codec={}", sh), format!("element count differs after round trip under {}", uid), w(""));
                            }
                            s.count("dataset_round_trips", 1);
                        }
                        Ok(Err(e)) => s.violation(
                            format!("behaviour|read-error|codec={}", sh),
                            format!("{} claims can_decode_dataset but reading back its own output failed: {}", uid, e),
                            w(&format!("written={}", hex(&out))),
                        ),
                        Err(p) => s.violation(format!("behaviour|read-panic|codec={}", sh), format!("reading under {} panicked: {}", uid, p), w("")),
                    }
                }
                Ok(Err(e)) => s.violation(
                    format!("behaviour|write-error|codec={}", sh),
                    format!("{} claims can_decode_dataset but writing a data set failed: {}", uid, e),
                    w(""),
                ),
                Err(p) => s.violation(format!("behaviour|write-panic|codec={}", sh), format!("writing under {} panicked: {}", uid, p), w("")),
            }
        } else {
            // unsupported: reading must fail cleanly (never panic); what the writer does is recorded
            s.eval();
            let bytes = small_dataset_bytes(Enc::ExplicitLe);
            match catch(|| InMemDicomObject::read_dataset_with_ts(&bytes[..], ts).map(|_| ())) {
                Ok(Err(_)) => s.count("unsupported_ts_read_refused", 1),
                Ok(Ok(())) => s.count("unsupported_ts_read_accepted_plain_bytes", 1),
                Err(p) => s.violation("behaviour|unsupported|read-panic".into(), format!("reading under {} panicked: {}", uid, p), w("")),
            }
            let mut out = Vec::new();
            match catch(|| obj.write_dataset_with_ts(&mut out, ts).map_err(|e| e.to_string())) {
                Ok(Err(_)) => s.count("unsupported_ts_write_refused", 1),
                Ok(Ok(())) => {
                    s.count("unsupported_ts_write_produced_output", 1);
                    s.note(format!(
                        "write_dataset_with_ts under the unsupported {} did not fail (wrote {} bytes{})",
                        uid,
                        out.len(),
                        if out == bytes { ", plain Explicit VR LE, not deflated" } else { "" }
                    ));
                }
                Err(p) => s.violation("behaviour|unsupported|write-panic".into(), format!("writing under {} panicked: {}", uid, p), w("")),
            }
        }
        // (6) pixel adapters are really exposed where claimed
        s.eval();
        if ts.can_decode_all() && ts.is_encapsulated_pixel_data() && ts.pixel_data_reader().is_none() {
            s.violation("pixel|can-decode-all-without-reader".into(), format!("{}", uid), w(""));
        }
        if ts.is_fully_supported() && ts.is_encapsulated_pixel_data() && (ts.pixel_data_reader().is_none() || ts.pixel_data_writer().is_none()) {
            s.violation("pixel|fully-supported-without-reader-and-writer".into(), format!("{}", uid), w(""));
        }
        if s.samples.len() < 4 {
            s.samples.push(w(""));
        }
    }
    // unknown UIDs are not found; padding alone is not a UID
    for q in ["", "\0", " ", "1.2.840.10008.1.2.0", "1.2.840.10008.1.2 .1", " 1.2.840.10008.1.2", "1.2.840.10008.1.2.1x"] {
        s.eval();
        match catch(|| TransferSyntaxRegistry.get(q).map(|t| t.uid())) {
            Ok(None) => {}
            Ok(Some(u)) => s.violation("get|unknown-uid-found".into(), format!("get({:?}) returned {}", q, u), format!("{:?}", q)),
            Err(p) => s.violation("get|unknown-uid|panic".into(), format!("get({:?}) panicked: {}", q, p), format!("{:?}", q)),
        }
    }
}
