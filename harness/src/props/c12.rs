//! C12 — partial dates / times / date-times: text round trip, encoded length, earliest/latest
//! bounds and range texts.
//!
//! Oracle: own proleptic-Gregorian calendar (leap years, month lengths), own DA/TM/DT text
//! encoder written from PS3.5 6.2, own bounds computation. chrono is only used to *read* the
//! components of the values returned by the code under test.

use crate::report::*;
use crate::rng::Rng;
use chrono::{Datelike, FixedOffset, NaiveDate, NaiveDateTime, NaiveTime, Timelike};
use dicom_core::value::deserialize::{parse_date_partial, parse_time_partial};
use dicom_core::value::range::{parse_date_range, parse_datetime_range, parse_time_range};
use dicom_core::value::serialize::{encode_date, encode_datetime, encode_time};
use dicom_core::value::{AsRange, DateTimeRange, DicomDate, DicomDateTime, DicomTime, PreciseDateTime, PrimitiveValue};
use serde_json::{json, Value as J};
use std::time::Duration;

// ------------------------------------------------------------------------------------------
// calendar oracle

fn is_leap(y: u32) -> bool {
    y % 4 == 0 && (y % 100 != 0 || y % 400 == 0)
}

fn days_in_month(y: u32, m: u32) -> u32 {
    match m {
        1 | 3 | 5 | 7 | 8 | 10 | 12 => 31,
        4 | 6 | 9 | 11 => 30,
        2 => {
            if is_leap(y) {
                29
            } else {
                28
            }
        }
        _ => 0,
    }
}

/// days since 0000-01-01 (proleptic Gregorian), by plain summation of year lengths up to `y`
/// — deliberately not the usual closed formula, so that it can be cross-checked against it.
fn day_number(y: u32, m: u32, d: u32) -> i64 {
    let yy = y as i64;
    // leap years in [0, y)
    let leaps = if y == 0 { 0 } else { (yy - 1) / 4 - (yy - 1) / 100 + (yy - 1) / 400 + 1 };
    let mut n = yy * 365 + leaps;
    for mm in 1..m {
        n += days_in_month(y, mm) as i64;
    }
    n + d as i64 - 1
}

/// Independent cross-check of the calendar tables (design §5): walking day by day from
/// 0000-01-01 must give consecutive day numbers, and 2000-01-01 is day 730485 of that count.
fn self_check_calendar() -> Result<(), String> {
    let mut expect = 0i64;
    for y in 0..=9999u32 {
        for m in 1..=12 {
            for d in 1..=days_in_month(y, m) {
                if day_number(y, m, d) != expect {
                    return Err(format!("calendar self check failed at {}-{}-{}", y, m, d));
                }
                expect += 1;
            }
        }
    }
    // 2000-01-01 was a Saturday; 1970-01-01 a Thursday: 10957 days apart
    if day_number(2000, 1, 1) - day_number(1970, 1, 1) != 10957 {
        return Err("calendar self check: 1970→2000 distance".into());
    }
    if (day_number(2000, 1, 1) - day_number(1900, 1, 1)) != 36524 {
        return Err("calendar self check: 1900→2000 distance".into());
    }
    Ok(())
}

// ------------------------------------------------------------------------------------------
// abstract values

#[derive(Clone, Copy, Debug, PartialEq)]
struct GD {
    y: u32,
    m: Option<u32>,
    d: Option<u32>,
}

#[derive(Clone, Copy, Debug, PartialEq)]
struct GT {
    h: u32,
    mi: Option<u32>,
    s: Option<u32>,
    /// (fraction value, number of digits 1..=6)
    f: Option<(u32, u32)>,
}

#[derive(Clone, Copy, Debug, PartialEq)]
struct GDT {
    date: GD,
    time: Option<GT>,
    /// offset east of UTC in minutes
    tz: Option<i32>,
}

impl GD {
    fn text(&self) -> String {
        let mut s = format!("{:04}", self.y);
        if let Some(m) = self.m {
            s += &format!("{:02}", m);
            if let Some(d) = self.d {
                s += &format!("{:02}", d);
            }
        }
        s
    }
    fn prec(&self) -> &'static str {
        match (self.m, self.d) {
            (None, _) => "Y",
            (Some(_), None) => "YM",
            _ => "YMD",
        }
    }
    fn calendar_valid(&self) -> bool {
        match (self.m, self.d) {
            (Some(m), Some(d)) => d >= 1 && d <= days_in_month(self.y, m),
            _ => true,
        }
    }
    fn earliest(&self) -> (u32, u32, u32) {
        (self.y, self.m.unwrap_or(1), self.d.unwrap_or(1))
    }
    fn latest(&self) -> (u32, u32, u32) {
        let m = self.m.unwrap_or(12);
        (self.y, m, self.d.unwrap_or_else(|| days_in_month(self.y, m)))
    }
    fn build(&self) -> Result<DicomDate, String> {
        match (self.m, self.d) {
            (None, _) => DicomDate::from_y(self.y as u16),
            (Some(m), None) => DicomDate::from_ym(self.y as u16, m as u8),
            (Some(m), Some(d)) => DicomDate::from_ymd(self.y as u16, m as u8, d as u8),
        }
        .map_err(|e| e.to_string())
    }
}

fn pow10(n: u32) -> u32 {
    10u32.pow(n)
}

impl GT {
    fn text(&self) -> String {
        let mut s = format!("{:02}", self.h);
        if let Some(mi) = self.mi {
            s += &format!("{:02}", mi);
            if let Some(sec) = self.s {
                s += &format!("{:02}", sec);
                if let Some((f, p)) = self.f {
                    s += &format!(".{:0width$}", f, width = p as usize);
                }
            }
        }
        s
    }
    fn prec(&self) -> String {
        match (self.mi, self.s, self.f) {
            (None, _, _) => "H".into(),
            (Some(_), None, _) => "HM".into(),
            (_, Some(_), None) => "HMS".into(),
            (_, _, Some((_, p))) => format!("HMS.F{}", p),
        }
    }
    fn leap(&self) -> bool {
        self.s == Some(60)
    }
    /// (h, m, s, micro)
    fn earliest(&self) -> (u32, u32, u32, u32) {
        (self.h, self.mi.unwrap_or(0), self.s.unwrap_or(0), self.f.map(|(f, p)| f * pow10(6 - p)).unwrap_or(0))
    }
    fn latest(&self) -> (u32, u32, u32, u32) {
        (
            self.h,
            self.mi.unwrap_or(59),
            self.s.unwrap_or(59),
            match self.f {
                Some((f, p)) => f * pow10(6 - p) + pow10(6 - p) - 1,
                None => 999_999,
            },
        )
    }
    /// Through the public constructors where one exists, otherwise `None` (only parsing creates
    /// fraction precisions other than 3 and 6).
    fn build(&self) -> Option<Result<DicomTime, String>> {
        Some(
            match (self.mi, self.s, self.f) {
                (None, _, _) => DicomTime::from_h(self.h as u8),
                (Some(mi), None, _) => DicomTime::from_hm(self.h as u8, mi as u8),
                (Some(mi), Some(s), None) => DicomTime::from_hms(self.h as u8, mi as u8, s as u8),
                (Some(mi), Some(s), Some((f, 3))) => DicomTime::from_hms_milli(self.h as u8, mi as u8, s as u8, f),
                (Some(mi), Some(s), Some((f, 6))) => DicomTime::from_hms_micro(self.h as u8, mi as u8, s as u8, f),
                _ => return None,
            }
            .map_err(|e| e.to_string()),
        )
    }
}

fn tz_text(tz: i32) -> String {
    let a = tz.abs();
    format!("{}{:02}{:02}", if tz < 0 { '-' } else { '+' }, a / 60, a % 60)
}

impl GDT {
    fn text(&self) -> String {
        let mut s = self.date.text();
        if let Some(t) = &self.time {
            s += &t.text();
        }
        if let Some(tz) = self.tz {
            s += &tz_text(tz);
        }
        s
    }
    fn offset(&self) -> Option<FixedOffset> {
        self.tz.map(|m| FixedOffset::east_opt(m * 60).expect("offset in range"))
    }
}

// ------------------------------------------------------------------------------------------
// reading chrono values

fn nd(d: &NaiveDate) -> (i64, u32, u32) {
    (d.year() as i64, d.month(), d.day())
}
/// (h, m, s, micro, leap) from a NaiveTime; chrono stores a leap second as s=59, nanos>=1e9
fn nt(t: &NaiveTime) -> (u32, u32, u32, u32, bool, u32) {
    let ns = t.nanosecond();
    let leap = ns >= 1_000_000_000;
    let ns2 = if leap { ns - 1_000_000_000 } else { ns };
    (t.hour(), t.minute(), t.second(), ns2 / 1000, leap, ns2 % 1000)
}

fn even(n: usize) -> usize {
    (n + 1) & !1
}

fn viol(l: &mut Local, key: String, what: String, replay: &J) {
    l.violation(key, what, replay.clone());
}

// ------------------------------------------------------------------------------------------
// DA

fn check_date(l: &mut Local, g: GD, origin: &str) {
    let text = g.text();
    let prec = g.prec();
    let valid = g.calendar_valid();
    let replay = json!({"kind": "DA", "value": format!("{:?}", g), "text": text, "origin": origin});
    let key = |k: &str| format!("DA|{}|{}{}", prec, k, if valid { "" } else { "|calendar-invalid-day" });
    l.eval();
    let d = match guarded(|| g.build()) {
        Ok(Ok(d)) => d,
        Ok(Err(e)) => return viol(l, key("constructor-rejects-valid"), format!("constructor rejected {}: {}", text, e), &replay),
        Err(p) => return viol(l, key("constructor-panic"), format!("constructor panicked for {}: {}", text, p), &replay),
    };
    // accessors
    if *d.year() as u32 != g.y || d.month().map(|m| *m as u32) != g.m || d.day().map(|x| *x as u32) != g.d {
        viol(l, key("accessors"), format!("components of {} read back as {:?}/{:?}/{:?}", text, d.year(), d.month(), d.day()), &replay);
    }
    // encoding
    l.eval();
    let enc = d.to_encoded();
    if enc != text {
        viol(l, key("to_encoded"), format!("to_encoded() = {:?}, expected {:?}", enc, text), &replay);
    }
    let mut buf = Vec::new();
    match encode_date(&mut buf, d) {
        Ok(n) if n == text.len() && buf == text.as_bytes() => {}
        other => viol(l, key("encode_date"), format!("encode_date wrote {:?} and returned {:?}, expected {:?}", String::from_utf8_lossy(&buf), other.ok(), text), &replay),
    }
    // parsing
    l.eval();
    match guarded(|| text.parse::<DicomDate>()) {
        Ok(Ok(p)) if p == d => {}
        Ok(other) => viol(l, key("parse-round-trip"), format!("{:?} parsed to {:?}, expected {:?}", text, other.map_err(|e| e.to_string()), d), &replay),
        Err(p) => viol(l, key("parse-panic"), format!("{:?} panicked: {}", text, p), &replay),
    }
    match guarded(|| parse_date_partial(text.as_bytes()).map(|(v, rest)| (v, rest.len()))) {
        Ok(Ok((p, 0))) if p == d => {}
        Ok(other) => viol(l, key("parse_date_partial"), format!("{:?} parsed to {:?}", text, other.map_err(|e| e.to_string())), &replay),
        Err(p) => viol(l, key("parse-panic"), format!("{:?} panicked: {}", text, p), &replay),
    }
    match PrimitiveValue::Str(text.clone()).to_date() {
        Ok(p) if p == d => {}
        other => viol(l, key("PrimitiveValue::to_date"), format!("{:?} converted to {:?}", text, other.map_err(|e| e.to_string())), &replay),
    }
    // reported length
    l.eval();
    let len = PrimitiveValue::Date([d].into_iter().collect()).calculate_byte_len();
    if len != even(text.len()) {
        viol(l, key("byte-length"), format!("calculate_byte_len() = {} for text {:?} ({} bytes)", len, text, text.len()), &replay);
    }
    // bounds
    l.eval();
    if d.is_precise() != g.d.is_some() {
        viol(l, key("is_precise"), format!("is_precise() = {} for {}", d.is_precise(), text), &replay);
    }
    let e = guarded(|| d.earliest());
    let la = guarded(|| d.latest());
    let r = guarded(|| d.range());
    let ex = guarded(|| d.exact());
    for (name, res) in [("earliest", &e), ("latest", &la), ("exact", &ex)] {
        if let Err(p) = res {
            viol(l, key(&format!("{}-panic", name)), format!("{}() panicked for {}: {}", name, text, p), &replay);
        }
    }
    if let Err(p) = &r {
        viol(l, key("range-panic"), format!("range() panicked for {}: {}", text, p), &replay);
    }
    if !valid {
        // only "error, not panic" is required; a returned date would be a wrong instant
        for (name, res) in [("earliest", &e), ("latest", &la), ("exact", &ex)] {
            if let Ok(Ok(v)) = res {
                viol(l, key(&format!("{}-of-impossible-date", name)), format!("{}() = {} for the impossible date {}", name, v, text), &replay);
            }
        }
        l.count("DA_calendar_invalid_days", 1);
        return;
    }
    let (ey, em, ed) = g.earliest();
    let (ly, lm, ld) = g.latest();
    match &e {
        Ok(Ok(v)) if nd(v) == (ey as i64, em, ed) => {}
        Ok(other) => viol(l, key("earliest"), format!("earliest({}) = {:?}, expected {:04}-{:02}-{:02}", text, other.as_ref().map_err(|e| e.to_string()), ey, em, ed), &replay),
        Err(_) => {}
    }
    match &la {
        Ok(Ok(v)) if nd(v) == (ly as i64, lm, ld) => {}
        Ok(other) => viol(l, key("latest"), format!("latest({}) = {:?}, expected {:04}-{:02}-{:02}", text, other.as_ref().map_err(|e| e.to_string()), ly, lm, ld), &replay),
        Err(_) => {}
    }
    if let (Ok(Ok(a)), Ok(Ok(b))) = (&e, &la) {
        if a > b {
            viol(l, key("earliest>latest"), format!("earliest {} > latest {} for {}", a, b, text), &replay);
        }
        // every day consistent with the value lies inside: first/last day per own calendar
        let (fa, fb) = (day_number(ey, em, ed), day_number(ly, lm, ld));
        let span = b.signed_duration_since(*a).num_days();
        if span != fb - fa {
            viol(l, key("span"), format!("latest-earliest = {} days for {}, calendar says {}", span, text, fb - fa), &replay);
        }
    }
    match &r {
        Ok(Ok(rg)) => {
            if rg.start().map(nd) != Some((ey as i64, em, ed)) || rg.end().map(nd) != Some((ly as i64, lm, ld)) {
                viol(l, key("range"), format!("range({}) = {:?}", text, rg), &replay);
            }
        }
        Ok(Err(err)) => viol(l, key("range-error"), format!("range({}) failed: {}", text, err), &replay),
        Err(_) => {}
    }
    match (&ex, g.d.is_some()) {
        (Ok(Ok(v)), true) if nd(v) == (ey as i64, em, ed) => {}
        (Ok(Err(_)), false) => {}
        (Ok(other), _) => viol(l, key("exact"), format!("exact({}) = {:?}", text, other.as_ref().map_err(|e| e.to_string())), &replay),
        _ => {}
    }
    l.count("DA_values", 1);
}

// ------------------------------------------------------------------------------------------
// TM

fn time_matches(v: &NaiveTime, want: (u32, u32, u32, u32)) -> Result<(), String> {
    let (h, m, s, us, leap, sub) = nt(v);
    let ok = if want.2 == 60 {
        // a leap second can only be represented by chrono as 59 + 1e9 ns
        h == want.0 && m == want.1 && s == 59 && leap && us == want.3 && sub == 0
    } else {
        !leap && sub == 0 && (h, m, s, us) == want
    };
    if ok {
        Ok(())
    } else {
        Err(format!("{} (expected {:02}:{:02}:{:02}.{:06})", v, want.0, want.1, want.2, want.3))
    }
}

fn check_time(l: &mut Local, g: GT, origin: &str) {
    let text = g.text();
    let prec = g.prec();
    let leap = g.leap();
    let replay = json!({"kind": "TM", "value": format!("{:?}", g), "text": text, "origin": origin});
    let key = |k: &str| format!("TM|{}|{}{}", prec, k, if leap { "|leap-second" } else { "" });
    // obtain the value: constructor where one exists, and the parser in all cases
    l.eval();
    let parsed = match guarded(|| text.parse::<DicomTime>()) {
        Ok(Ok(t)) => t,
        Ok(Err(e)) => return viol(l, key("parse-rejects-valid"), format!("valid TM text {:?} rejected: {}", text, e), &replay),
        Err(p) => return viol(l, key("parse-panic"), format!("{:?} panicked: {}", text, p), &replay),
    };
    let t = match guarded(|| g.build()) {
        Ok(Some(Ok(t))) => {
            if t != parsed {
                viol(l, key("parse-round-trip"), format!("{:?} parsed to {:?}, constructed value is {:?}", text, parsed, t), &replay);
            }
            t
        }
        Ok(Some(Err(e))) => return viol(l, key("constructor-rejects-valid"), format!("constructor rejected {}: {}", text, e), &replay),
        Ok(None) => parsed,
        Err(p) => return viol(l, key("constructor-panic"), format!("constructor panicked for {}: {}", text, p), &replay),
    };
    // components (this is what makes the parse an independent check for precisions 1,2,4,5)
    let comp_ok = *t.hour() as u32 == g.h
        && t.minute().map(|x| *x as u32) == g.mi
        && t.second().map(|x| *x as u32) == g.s
        && t.fraction_precision() as u32 == g.f.map(|(_, p)| p).unwrap_or(0)
        && t.fraction_micro() == g.f.map(|(f, p)| f * pow10(6 - p))
        && t.fraction_str() == g.f.map(|(f, p)| format!("{:0w$}", f, w = p as usize)).unwrap_or_default();
    if !comp_ok {
        viol(
            l,
            key("accessors"),
            format!(
                "components of {} read back as h={} m={:?} s={:?} precision={} micro={:?} str={:?}",
                text, t.hour(), t.minute(), t.second(), t.fraction_precision(), t.fraction_micro(), t.fraction_str()
            ),
            &replay,
        );
    }
    match parse_time_partial(text.as_bytes()) {
        Ok((p, rest)) if p == t && rest.is_empty() => {}
        other => viol(l, key("parse_time_partial"), format!("{:?} parsed to {:?}", text, other.map_err(|e| e.to_string())), &replay),
    }
    let padded = if text.len() % 2 == 1 { format!("{} ", text) } else { text.clone() };
    match PrimitiveValue::Str(padded.clone()).to_time() {
        Ok(p) if p == t => {}
        other => viol(l, key("PrimitiveValue::to_time"), format!("{:?} converted to {:?}", padded, other.map_err(|e| e.to_string())), &replay),
    }
    // encoding
    l.eval();
    let enc = t.to_encoded();
    if enc != text {
        viol(l, key("to_encoded"), format!("to_encoded() = {:?}, expected {:?}", enc, text), &replay);
    }
    let mut buf = Vec::new();
    match encode_time(&mut buf, t) {
        Ok(n) if n == text.len() && buf == text.as_bytes() => {}
        other => viol(l, key("encode_time"), format!("encode_time wrote {:?} / {:?}", String::from_utf8_lossy(&buf), other.ok()), &replay),
    }
    l.eval();
    let len = PrimitiveValue::Time([t].into_iter().collect()).calculate_byte_len();
    if len != even(text.len()) {
        viol(l, key("byte-length"), format!("calculate_byte_len() = {} for text {:?} ({} bytes)", len, text, text.len()), &replay);
    }
    // bounds
    l.eval();
    let precise = matches!(g.f, Some((_, 6)));
    if t.is_precise() != precise {
        viol(l, key("is_precise"), format!("is_precise() = {} for {}", t.is_precise(), text), &replay);
    }
    let e = guarded(|| t.earliest());
    let la = guarded(|| t.latest());
    let r = guarded(|| t.range());
    let ex = guarded(|| t.exact());
    let tn = guarded(|| t.to_naive_time());
    for (name, res) in [("earliest", &e), ("latest", &la), ("exact", &ex), ("to_naive_time", &tn)] {
        if let Err(p) = res {
            viol(l, key(&format!("{}-panic", name)), format!("{}() panicked for {}: {}", name, text, p), &replay);
        }
    }
    if let Err(p) = &r {
        viol(l, key("range-panic"), format!("range() panicked for {}: {}", text, p), &replay);
    }
    let we = g.earliest();
    let wl = g.latest();
    let check = |l: &mut Local, name: &str, res: &Result<Result<NaiveTime, dicom_core::value::range::Error>, String>, want: (u32, u32, u32, u32), must_ok: bool| match res {
        Ok(Ok(v)) => {
            if let Err(m) = time_matches(v, want) {
                viol(l, key(name), format!("{}({}) = {}", name, text, m), &replay);
            }
        }
        Ok(Err(err)) => {
            // a leap second may be refused (chrono cannot build it from s=60); anything else must work
            if must_ok && !leap {
                viol(l, key(&format!("{}-error", name)), format!("{}({}) failed: {}", name, text, err), &replay);
            } else if leap {
                l.count("TM_leap_second_bound_errors", 1);
            }
        }
        Err(_) => {}
    };
    check(l, "earliest", &e, we, true);
    check(l, "latest", &la, wl, true);
    if let (Ok(Ok(a)), Ok(Ok(b))) = (&e, &la) {
        if a > b {
            viol(l, key("earliest>latest"), format!("earliest {} > latest {} for {}", a, b, text), &replay);
        }
    }
    if precise {
        check(l, "exact", &ex, we, true);
    } else if let Ok(Ok(v)) = &ex {
        viol(l, key("exact-of-imprecise"), format!("exact({}) = {} although the value is not precise", text, v), &replay);
    }
    if g.s.is_some() {
        check(l, "to_naive_time", &tn, we, true);
    } else if let Ok(Ok(v)) = &tn {
        viol(l, key("to_naive_time-of-imprecise"), format!("to_naive_time({}) = {} although seconds are missing", text, v), &replay);
    }
    match &r {
        Ok(Ok(rg)) => {
            let s_ok = rg.start().map(|v| time_matches(v, we).is_ok()).unwrap_or(false);
            let e_ok = rg.end().map(|v| time_matches(v, wl).is_ok()).unwrap_or(false);
            if !s_ok || !e_ok {
                viol(l, key("range"), format!("range({}) = {:?}", text, rg), &replay);
            }
        }
        Ok(Err(err)) => {
            if !leap {
                viol(l, key("range-error"), format!("range({}) failed: {}", text, err), &replay);
            }
        }
        Err(_) => {}
    }
    l.count("TM_values", 1);
    if leap {
        l.count("TM_leap_second_values", 1);
    }
}

// ------------------------------------------------------------------------------------------
// DT

type Stamp = (i64, u32, u32, u32, u32, u32, u32);

fn dt_bounds(g: &GDT) -> (Stamp, Stamp) {
    let (ey, em, ed) = g.date.earliest();
    let (ly, lm, ld) = g.date.latest();
    let (te, tl) = match &g.time {
        Some(t) => (t.earliest(), t.latest()),
        None => ((0, 0, 0, 0), (23, 59, 59, 999_999)),
    };
    ((ey as i64, em, ed, te.0, te.1, te.2, te.3), (ly as i64, lm, ld, tl.0, tl.1, tl.2, tl.3))
}

fn ndt_matches(v: &NaiveDateTime, want: Stamp) -> Result<(), String> {
    let d = v.date();
    if nd(&d) != (want.0, want.1, want.2) {
        return Err(format!("{} (expected date {:04}-{:02}-{:02})", v, want.0, want.1, want.2));
    }
    time_matches(&v.time(), (want.3, want.4, want.5, want.6))
}

fn precise_matches(v: &PreciseDateTime, want: Stamp, tz: Option<i32>) -> Result<(), String> {
    match (v, tz) {
        (PreciseDateTime::Naive(n), None) => ndt_matches(n, want),
        (PreciseDateTime::TimeZone(z), Some(mins)) => {
            if z.offset().local_minus_utc() != mins * 60 {
                return Err(format!("{} has offset {} s, expected {} min", z, z.offset().local_minus_utc(), mins));
            }
            ndt_matches(&z.naive_local(), want)?;
            // the instant: local - offset, via own day numbers
            let utc = z.naive_utc();
            let (y, m, d) = nd(&utc.date());
            let (h, mi, s, us, _, _) = nt(&utc.time());
            let got = (day_number(y as u32, m, d) * 86400 + (h * 3600 + mi * 60 + s) as i64) * 1_000_000 + us as i64;
            let sec = if want.5 == 60 { 59 } else { want.5 };
            let exp = (day_number(want.0 as u32, want.1, want.2) * 86400 + (want.3 * 3600 + want.4 * 60 + sec) as i64 - mins as i64 * 60) * 1_000_000
                + want.6 as i64;
            if y >= 0 && got != exp {
                return Err(format!("{} is UTC instant {} µs, expected {} µs", z, got, exp));
            }
            Ok(())
        }
        (v, tz) => Err(format!("{:?} for a value with time zone {:?}", v, tz)),
    }
}

fn check_datetime(l: &mut Local, g: GDT, origin: &str) {
    let text = g.text();
    let leap = g.time.map(|t| t.leap()).unwrap_or(false);
    let valid = g.date.calendar_valid();
    let tprec = g.time.map(|t| t.prec()).unwrap_or_else(|| "-".into());
    let tzc = match g.tz {
        None => "naive",
        Some(x) if x < 0 => "west",
        Some(0) => "utc",
        _ => "east",
    };
    let replay = json!({"kind": "DT", "value": format!("{:?}", g), "text": text, "origin": origin});
    let key = |k: &str| {
        format!("DT|{}|{}|{}|{}{}{}", g.date.prec(), tprec, tzc, k, if leap { "|leap-second" } else { "" }, if valid { "" } else { "|calendar-invalid-day" })
    };
    l.eval();
    let parsed = match guarded(|| text.parse::<DicomDateTime>()) {
        Ok(Ok(t)) => t,
        Ok(Err(e)) => return viol(l, key("parse-rejects-valid"), format!("valid DT text {:?} rejected: {}", text, e), &replay),
        Err(p) => return viol(l, key("parse-panic"), format!("{:?} panicked: {}", text, p), &replay),
    };
    // build through the constructors where the time precision has one
    let date = match g.date.build() {
        Ok(d) => d,
        Err(e) => return viol(l, key("date-constructor"), format!("date constructor rejected {}: {}", text, e), &replay),
    };
    let time = match g.time {
        None => None,
        Some(t) => match t.build() {
            Some(Ok(v)) => Some(v),
            Some(Err(e)) => return viol(l, key("time-constructor"), format!("time constructor rejected {}: {}", text, e), &replay),
            None => match t.text().parse::<DicomTime>() {
                Ok(v) => Some(v),
                Err(e) => return viol(l, key("time-parse"), format!("time part of {} rejected: {}", text, e), &replay),
            },
        },
    };
    let built = match (time, g.offset()) {
        (None, None) => Ok(DicomDateTime::from_date(date)),
        (None, Some(o)) => Ok(DicomDateTime::from_date_with_time_zone(date, o)),
        (Some(t), None) => DicomDateTime::from_date_and_time(date, t),
        (Some(t), Some(o)) => DicomDateTime::from_date_and_time_with_time_zone(date, t, o),
    };
    let dt = match built {
        Ok(v) => v,
        Err(e) => return viol(l, key("constructor-rejects-valid"), format!("constructor rejected {}: {}", text, e), &replay),
    };
    if dt != parsed {
        viol(l, key("parse-round-trip"), format!("{:?} parsed to {:?}, constructed value is {:?}", text, parsed, dt), &replay);
    }
    if dt.date() != &date || dt.time() != time.as_ref() || dt.time_zone().map(|o| o.local_minus_utc()) != g.tz.map(|m| m * 60) {
        viol(l, key("accessors"), format!("parts of {} read back as {:?}/{:?}/{:?}", text, dt.date(), dt.time(), dt.time_zone()), &replay);
    }
    let padded = if text.len() % 2 == 1 { format!("{} ", text) } else { text.clone() };
    match PrimitiveValue::Str(padded.clone()).to_datetime() {
        Ok(p) if p == dt => {}
        other => viol(l, key("PrimitiveValue::to_datetime"), format!("{:?} converted to {:?}", padded, other.map_err(|e| e.to_string())), &replay),
    }
    l.eval();
    let enc = dt.to_encoded();
    if enc != text {
        viol(l, key("to_encoded"), format!("to_encoded() = {:?}, expected {:?}", enc, text), &replay);
    }
    let mut buf = Vec::new();
    match encode_datetime(&mut buf, dt) {
        Ok(n) if n == text.len() && buf == text.as_bytes() => {}
        other => viol(l, key("encode_datetime"), format!("encode_datetime wrote {:?} / {:?}", String::from_utf8_lossy(&buf), other.ok()), &replay),
    }
    l.eval();
    let len = PrimitiveValue::DateTime([dt].into_iter().collect()).calculate_byte_len();
    if len != even(text.len()) {
        viol(l, key("byte-length"), format!("calculate_byte_len() = {} for text {:?} ({} bytes)", len, text, text.len()), &replay);
    }
    // bounds
    l.eval();
    let precise = matches!(g.time, Some(GT { f: Some((_, 6)), .. }));
    if dt.is_precise() != precise {
        viol(l, key("is_precise"), format!("is_precise() = {} for {}", dt.is_precise(), text), &replay);
    }
    let e = guarded(|| dt.earliest());
    let la = guarded(|| dt.latest());
    let r = guarded(|| dt.range());
    let ex = guarded(|| dt.exact());
    for (name, res) in [("earliest", &e), ("latest", &la), ("exact", &ex)] {
        if let Err(p) = res {
            viol(l, key(&format!("{}-panic", name)), format!("{}() panicked for {}: {}", name, text, p), &replay);
        }
    }
    if let Err(p) = &r {
        viol(l, key("range-panic"), format!("range() panicked for {}: {}", text, p), &replay);
    }
    if !valid {
        for (name, res) in [("earliest", &e), ("latest", &la), ("exact", &ex)] {
            if let Ok(Ok(v)) = res {
                viol(l, key(&format!("{}-of-impossible-date", name)), format!("{}() = {:?} for the impossible date in {}", name, v, text), &replay);
            }
        }
        l.count("DT_calendar_invalid_days", 1);
        return;
    }
    let (we, wl) = dt_bounds(&g);
    let check = |l: &mut Local, name: &str, res: &Result<Result<PreciseDateTime, dicom_core::value::range::Error>, String>, want: Stamp| match res {
        Ok(Ok(v)) => {
            if let Err(m) = precise_matches(v, want, g.tz) {
                viol(l, key(name), format!("{}({}) = {}", name, text, m), &replay);
            }
        }
        Ok(Err(err)) => {
            if !leap {
                viol(l, key(&format!("{}-error", name)), format!("{}({}) failed: {}", name, text, err), &replay);
            } else {
                l.count("DT_leap_second_bound_errors", 1);
            }
        }
        Err(_) => {}
    };
    check(l, "earliest", &e, we);
    check(l, "latest", &la, wl);
    if let (Ok(Ok(a)), Ok(Ok(b))) = (&e, &la) {
        if !(a <= b) {
            viol(l, key("earliest>latest"), format!("earliest {:?} > latest {:?} for {}", a, b, text), &replay);
        }
    }
    if precise {
        check(l, "exact", &ex, we);
    } else if let Ok(Ok(v)) = &ex {
        viol(l, key("exact-of-imprecise"), format!("exact({}) = {:?} although the value is not precise", text, v), &replay);
    }
    match &r {
        Ok(Ok(rg)) => {
            let s_ok = rg.start().map(|v| precise_matches(&v, we, g.tz).is_ok()).unwrap_or(false);
            let e_ok = rg.end().map(|v| precise_matches(&v, wl, g.tz).is_ok()).unwrap_or(false);
            if !s_ok || !e_ok {
                viol(l, key("range"), format!("range({}) = {:?}", text, rg), &replay);
            }
        }
        Ok(Err(err)) => {
            if !leap {
                viol(l, key("range-error"), format!("range({}) failed: {}", text, err), &replay);
            }
        }
        Err(_) => {}
    }
    l.count("DT_values", 1);
}

// ------------------------------------------------------------------------------------------
// generators

fn gen_date(rng: &mut Rng, min_year: u32, force_day: bool, allow_invalid_day: bool) -> GD {
    let y = match rng.below(8) {
        0 => *rng.pick(&[0u32, 1, 4, 100, 400, 1582, 1600, 1700, 1800, 1900, 1970, 1999, 2000, 2001, 2024, 2038, 2100, 2400, 9996, 9999]),
        1 => rng.range(1900, 2100) as u32,
        _ => rng.range(0, 9999) as u32,
    }
    .max(min_year);
    let p = if force_day { 2 } else { rng.below(3) };
    if p == 0 {
        return GD { y, m: None, d: None };
    }
    let m = if rng.chance(1, 4) { *rng.pick(&[1u32, 2, 2, 12]) } else { rng.range(1, 12) as u32 };
    if p == 1 {
        return GD { y, m: Some(m), d: None };
    }
    let dim = days_in_month(y, m);
    let d = match rng.below(6) {
        0 => 1,
        1 => dim,
        2 if allow_invalid_day => rng.range(dim as i64, 31) as u32,
        _ => rng.range(1, dim as i64) as u32,
    };
    GD { y, m: Some(m), d: Some(d) }
}

fn gen_fraction(rng: &mut Rng) -> (u32, u32) {
    let p = rng.range(1, 6) as u32;
    let max = pow10(p) - 1;
    let f = match rng.below(8) {
        0 => 0,
        1 => max,
        2 => 1,
        3 => pow10(p) / 10,       // leading digit 1, rest 0 (or 0 for p=1: 1/10=0)
        4 => max - 1,
        5 => pow10(p - 1) - 1 + rng.below(2) as u32, // 0…099 / 100 boundary
        _ => rng.below(max as u64 + 1) as u32,
    };
    (f.min(max), p)
}

fn gen_time(rng: &mut Rng, allow_leap: bool) -> GT {
    let h = match rng.below(6) {
        0 => 0,
        1 => 23,
        _ => rng.range(0, 23) as u32,
    };
    let p = rng.below(5);
    if p == 0 {
        return GT { h, mi: None, s: None, f: None };
    }
    let mi = match rng.below(6) {
        0 => 0,
        1 => 59,
        _ => rng.range(0, 59) as u32,
    };
    if p == 1 {
        return GT { h, mi: Some(mi), s: None, f: None };
    }
    let s = match rng.below(12) {
        0 => 0,
        1 => 59,
        2 if allow_leap => 60,
        _ => rng.range(0, 59) as u32,
    };
    if p == 2 {
        return GT { h, mi: Some(mi), s: Some(s), f: None };
    }
    GT { h, mi: Some(mi), s: Some(s), f: Some(gen_fraction(rng)) }
}

fn gen_tz(rng: &mut Rng) -> i32 {
    match rng.below(10) {
        0 => 0,
        1 => -12 * 60,
        2 => 14 * 60,
        3 => *rng.pick(&[330, 345, 570, -210, 765, -570, 60, -60, -1, 1, -719, 839]),
        4..=6 => rng.range(-12, 14) as i32 * 60,
        _ => rng.range(-12 * 60, 14 * 60) as i32,
    }
}

fn gen_datetime(rng: &mut Rng, min_year: u32, allow_leap: bool, allow_invalid_day: bool) -> GDT {
    let with_time = rng.chance(2, 3);
    let date = gen_date(rng, min_year, with_time, allow_invalid_day);
    let time = if with_time { Some(gen_time(rng, allow_leap)) } else { None };
    let tz = if rng.bool() { Some(gen_tz(rng)) } else { None };
    GDT { date, time, tz }
}

// ------------------------------------------------------------------------------------------
// ranges

fn check_ranges(l: &mut Local, rng: &mut Rng, cfg: &Cfg, idx: u64) {
    let kind = idx % 3;
    let shape = (idx / 3) % 3; // 0 closed, 1 open end "A-", 2 open start "-B"
    let shape_name = ["A-B", "A-", "-B"][shape as usize];
    match kind {
        0 => {
            let mut a = gen_date(rng, 0, false, false);
            let mut b = gen_date(rng, 0, false, false);
            let ea = a.earliest();
            let lb = b.latest();
            if shape == 0 && day_number(ea.0, ea.1, ea.2) > day_number(lb.0, lb.1, lb.2) {
                std::mem::swap(&mut a, &mut b);
            }
            let text = match shape {
                0 => format!("{}-{}", a.text(), b.text()),
                1 => format!("{}-", a.text()),
                _ => format!("-{}", b.text()),
            };
            let key = |k: &str| format!("DA-range|{}|{}|{}|{}", shape_name, a.prec(), b.prec(), k);
            let replay = json!({"seed": cfg.seed, "stream": 125, "case": idx, "text": text});
            l.class(format!("range|DA|{}|{}|{}", shape_name, a.prec(), b.prec()));
            let want_s = if shape != 2 { Some(a.earliest()) } else { None };
            let want_e = if shape != 1 { Some(b.latest()) } else { None };
            for (entry, res) in [
                ("parse_date_range", guarded(|| parse_date_range(text.as_bytes()).map_err(|e| e.to_string()))),
                ("PrimitiveValue::to_date_range", guarded(|| PrimitiveValue::Str(format!("{} ", text)).to_date_range().map_err(|e| e.to_string()))),
            ] {
                l.eval();
                match res {
                    Ok(Ok(r)) => {
                        let s = r.start().map(nd).map(|(y, m, d)| (y as u32, m, d));
                        let e = r.end().map(nd).map(|(y, m, d)| (y as u32, m, d));
                        if s != want_s || e != want_e {
                            viol(l, key(&format!("{}|bounds", entry)), format!("{:?} gives {:?}..{:?}, expected {:?}..{:?}", text, s, e, want_s, want_e), &replay);
                        }
                    }
                    Ok(Err(e)) => viol(l, key(&format!("{}|error", entry)), format!("{:?} rejected: {}", text, e), &replay),
                    Err(p) => viol(l, key(&format!("{}|panic", entry)), format!("{:?} panicked: {}", text, p), &replay),
                }
            }
        }
        1 => {
            let mut a = gen_time(rng, false);
            let mut b = gen_time(rng, false);
            if shape == 0 && a.earliest() > b.latest() {
                std::mem::swap(&mut a, &mut b);
            }
            let text = match shape {
                0 => format!("{}-{}", a.text(), b.text()),
                1 => format!("{}-", a.text()),
                _ => format!("-{}", b.text()),
            };
            let key = |k: &str| format!("TM-range|{}|{}|{}|{}", shape_name, a.prec(), b.prec(), k);
            let replay = json!({"seed": cfg.seed, "stream": 125, "case": idx, "text": text});
            l.class(format!("range|TM|{}|{}|{}", shape_name, a.prec(), b.prec()));
            let want_s = if shape != 2 { Some(a.earliest()) } else { None };
            let want_e = if shape != 1 { Some(b.latest()) } else { None };
            let padded = if text.len() % 2 == 1 { format!("{} ", text) } else { text.clone() };
            for (entry, res) in [
                ("parse_time_range", guarded(|| parse_time_range(text.as_bytes()).map_err(|e| e.to_string()))),
                ("PrimitiveValue::to_time_range", guarded(|| PrimitiveValue::Str(padded.clone()).to_time_range().map_err(|e| e.to_string()))),
            ] {
                l.eval();
                match res {
                    Ok(Ok(r)) => {
                        let ok_s = match (r.start(), want_s) {
                            (None, None) => true,
                            (Some(v), Some(w)) => time_matches(v, w).is_ok(),
                            _ => false,
                        };
                        let ok_e = match (r.end(), want_e) {
                            (None, None) => true,
                            (Some(v), Some(w)) => time_matches(v, w).is_ok(),
                            _ => false,
                        };
                        if !ok_s || !ok_e {
                            viol(l, key(&format!("{}|bounds", entry)), format!("{:?} gives {:?}, expected {:?}..{:?}", text, r, want_s, want_e), &replay);
                        }
                    }
                    Ok(Err(e)) => viol(l, key(&format!("{}|error", entry)), format!("{:?} rejected: {}", text, e), &replay),
                    Err(p) => viol(l, key(&format!("{}|panic", entry)), format!("{:?} panicked: {}", text, p), &replay),
                }
            }
        }
        _ if shape == 0 && (idx / 9) % 2 == 1 => check_mixed_range(l, rng, cfg, idx),
        _ => {
            // both bounds naive or both zoned (mixed pairs: see check_mixed_range);
            // years >= 1500 keep clear of the ambiguity documented on parse_datetime_range
            let zoned = rng.bool();
            let mut a = gen_datetime(rng, 1500, false, false);
            let mut b = gen_datetime(rng, 1500, false, false);
            a.tz = if zoned { Some(gen_tz(rng)) } else { None };
            b.tz = if zoned { Some(gen_tz(rng)) } else { None };
            let inst = |s: Stamp, tz: Option<i32>| {
                (day_number(s.0 as u32, s.1, s.2) * 86400 + (s.3 * 3600 + s.4 * 60 + s.5) as i64 - tz.unwrap_or(0) as i64 * 60) * 1_000_000 + s.6 as i64
            };
            if shape == 0 && inst(dt_bounds(&a).0, a.tz) > inst(dt_bounds(&b).1, b.tz) {
                std::mem::swap(&mut a, &mut b);
            }
            let text = match shape {
                0 => format!("{}-{}", a.text(), b.text()),
                1 => format!("{}-", a.text()),
                _ => format!("-{}", b.text()),
            };
            let dashes = text.bytes().filter(|c| *c == b'-').count();
            let key = |k: &str| format!("DT-range|{}|{}|dashes={}|{}", shape_name, if zoned { "zoned" } else { "naive" }, dashes, k);
            let replay = json!({"seed": cfg.seed, "stream": 125, "case": idx, "text": text, "a": format!("{:?}", a), "b": format!("{:?}", b)});
            l.class(format!("range|DT|{}|{}|dashes={}|{}|{}", shape_name, if zoned { "zoned" } else { "naive" }, dashes, a.date.prec(), b.date.prec()));
            let want_s = if shape != 2 { Some((dt_bounds(&a).0, a.tz)) } else { None };
            let want_e = if shape != 1 { Some((dt_bounds(&b).1, b.tz)) } else { None };
            let padded = if text.len() % 2 == 1 { format!("{} ", text) } else { text.clone() };
            for (entry, res) in [
                ("parse_datetime_range", guarded(|| parse_datetime_range(text.as_bytes()).map_err(|e| e.to_string()))),
                ("PrimitiveValue::to_datetime_range", guarded(|| PrimitiveValue::Str(padded.clone()).to_datetime_range().map_err(|e| e.to_string()))),
            ] {
                l.eval();
                match res {
                    Ok(Ok(r)) => {
                        let kind_ok = matches!((&r, zoned), (DateTimeRange::Naive { .. }, false) | (DateTimeRange::TimeZone { .. }, true));
                        let ok_s = match (r.start(), want_s) {
                            (None, None) => true,
                            (Some(v), Some((w, tz))) => precise_matches(&v, w, tz).is_ok(),
                            _ => false,
                        };
                        let ok_e = match (r.end(), want_e) {
                            (None, None) => true,
                            (Some(v), Some((w, tz))) => precise_matches(&v, w, tz).is_ok(),
                            _ => false,
                        };
                        if !kind_ok || !ok_s || !ok_e {
                            viol(
                                l,
                                key(&format!("{}|bounds", entry)),
                                format!("{:?} gives {:?}, expected earliest(A)={:?} latest(B)={:?}", text, r, want_s, want_e),
                                &replay,
                            );
                        }
                    }
                    Ok(Err(e)) => viol(l, key(&format!("{}|error", entry)), format!("{:?} rejected: {}", text, e), &replay),
                    Err(p) => viol(l, key(&format!("{}|panic", entry)), format!("{:?} panicked: {}", text, p), &replay),
                }
            }
        }
    }
}

/// `A-B` where exactly one bound carries a UTC offset: the four documented resolutions of the
/// missing offset (local clock, the known offset, failure, offsets discarded).
fn check_mixed_range(l: &mut Local, rng: &mut Rng, cfg: &Cfg, idx: u64) {
    use dicom_core::value::range::{parse_datetime_range_custom, FailOnAmbiguousRange, IgnoreTimeZone, ToKnownTimeZone, ToLocalTimeZone};
    let mut a = gen_datetime(rng, 1500, false, false);
    let mut b = gen_datetime(rng, 1500, false, false);
    let naive_inst = |s: Stamp| (day_number(s.0 as u32, s.1, s.2) * 86400 + (s.3 * 3600 + s.4 * 60 + s.5) as i64) * 1_000_000 + s.6 as i64;
    if naive_inst(dt_bounds(&a).0) > naive_inst(dt_bounds(&b).1) {
        std::mem::swap(&mut a, &mut b);
    }
    // keep the bounds more than two days apart: every resolution of the missing offset
    // (offsets lie within +-14 h) then yields an ordered range
    if naive_inst(dt_bounds(&b).1) - naive_inst(dt_bounds(&a).0) < 2 * 86400 * 1_000_000 {
        l.count("mixed_ranges_skipped_too_close", 1);
        return;
    }
    let start_zoned = rng.bool();
    let known = gen_tz(rng);
    a.tz = if start_zoned { Some(known) } else { None };
    b.tz = if start_zoned { None } else { Some(known) };
    let text = format!("{}-{}", a.text(), b.text());
    let local_mins = {
        use chrono::Offset;
        chrono::Local::now().offset().fix().local_minus_utc() / 60
    };
    let side = if start_zoned { "start-zoned" } else { "end-zoned" };
    l.class(format!("range|DT|mixed|{}|{}|{}|tz{}", side, a.date.prec(), b.date.prec(), if known < 0 { "-" } else if known > 0 { "+" } else { "0" }));
    let replay = json!({"seed": cfg.seed, "stream": 125, "case": idx, "text": text, "a": format!("{:?}", a), "b": format!("{:?}", b)});
    let (sa, sb) = (dt_bounds(&a).0, dt_bounds(&b).1);
    // (name, result, expected: None = must fail, Some(tz) = both bounds with this offset / naive)
    let runs: Vec<(&str, Result<Result<DateTimeRange, String>, String>, Option<Option<i32>>)> = vec![
        ("ToKnownTimeZone", guarded(|| parse_datetime_range_custom::<ToKnownTimeZone>(text.as_bytes()).map_err(|e| e.to_string())), Some(Some(known))),
        ("IgnoreTimeZone", guarded(|| parse_datetime_range_custom::<IgnoreTimeZone>(text.as_bytes()).map_err(|e| e.to_string())), Some(None)),
        ("FailOnAmbiguousRange", guarded(|| parse_datetime_range_custom::<FailOnAmbiguousRange>(text.as_bytes()).map_err(|e| e.to_string())), None),
        ("ToLocalTimeZone", guarded(|| parse_datetime_range_custom::<ToLocalTimeZone>(text.as_bytes()).map_err(|e| e.to_string())), Some(Some(local_mins))),
        ("parse_datetime_range", guarded(|| parse_datetime_range(text.as_bytes()).map_err(|e| e.to_string())), Some(Some(local_mins))),
    ];
    for (name, res, want) in runs {
        l.eval();
        let key = |k: &str| format!("DT-range|mixed|{}|{}|{}", name, side, k);
        match (res, want) {
            (Err(p), _) => viol(l, key("panic"), format!("{:?} panicked: {}", text, p), &replay),
            (Ok(Err(_)), None) => {}
            (Ok(Ok(r)), None) => viol(l, key("accepted"), format!("{:?} accepted as {:?} by the failing parser", text, r), &replay),
            (Ok(Err(e)), Some(_)) => viol(l, key("error"), format!("{:?} rejected: {}", text, e), &replay),
            (Ok(Ok(r)), Some(w)) => {
                // the bound that carries an offset keeps it (unless offsets are discarded)
                let (wa, wb) = match w {
                    None => (None, None),
                    Some(m) => (Some(a.tz.unwrap_or(m)), Some(b.tz.unwrap_or(m))),
                };
                let ok_s = r.start().map(|v| precise_matches(&v, sa, wa).is_ok()).unwrap_or(false);
                let ok_e = r.end().map(|v| precise_matches(&v, sb, wb).is_ok()).unwrap_or(false);
                if !ok_s || !ok_e {
                    viol(l, key("bounds"), format!("{:?} gives {:?}, expected earliest(A)={:?} offset {:?}, latest(B)={:?} offset {:?}", text, r, sa, wa, sb, wb), &replay);
                }
            }
        }
    }
}

// ------------------------------------------------------------------------------------------

pub fn run(cfg: &Cfg) -> Outcome {
    if let Err(e) = self_check_calendar() {
        let mut o = Outcome::new(Local::new(), "C12");
        o.inconclusive = Some(e);
        return o;
    }
    let mut total = Local::new();

    // ---- DA: exhaustive years 0..=9999 × 12 months × days 1..=31 at 3 precisions ----------
    let da = run_parallel(
        cfg,
        121,
        RunLimits {
            cases: 10_000,
            wall: Duration::from_secs(900),
        },
        |l: &mut Local, _rng: &mut Rng, idx: u64| {
            let y = idx as u32;
            check_date(l, GD { y, m: None, d: None }, "exhaustive");
            for m in 1..=12u32 {
                check_date(l, GD { y, m: Some(m), d: None }, "exhaustive");
                for d in 1..=31u32 {
                    check_date(l, GD { y, m: Some(m), d: Some(d) }, "exhaustive");
                }
            }
            l.class(format!("DA|century={}|leap={}", y / 100, is_leap(y)));
        },
    );
    total.merge(da);
    // lists of 2-4 dates: summed length with separators
    let mut lists = Local::new();
    {
        let mut rng = Rng::derive(cfg.seed, 122, 0);
        for i in 0..20_000 {
            let n = rng.urange(2, 4);
            let kind = i % 3;
            let (pv, texts): (PrimitiveValue, Vec<String>) = match kind {
                0 => {
                    let v: Vec<GD> = (0..n).map(|_| gen_date(&mut rng, 0, false, false)).collect();
                    (PrimitiveValue::Date(v.iter().map(|g| g.build().unwrap()).collect()), v.iter().map(|g| g.text()).collect())
                }
                1 => {
                    let v: Vec<GT> = (0..n).map(|_| gen_time(&mut rng, true)).collect();
                    (PrimitiveValue::Time(v.iter().map(|g| g.text().parse::<DicomTime>().unwrap()).collect()), v.iter().map(|g| g.text()).collect())
                }
                _ => {
                    let v: Vec<GDT> = (0..n).map(|_| gen_datetime(&mut rng, 0, true, false)).collect();
                    (PrimitiveValue::DateTime(v.iter().map(|g| g.text().parse::<DicomDateTime>().unwrap()).collect()), v.iter().map(|g| g.text()).collect())
                }
            };
            lists.eval();
            let joined = texts.join("\\");
            let len = pv.calculate_byte_len();
            if len != even(joined.len()) {
                lists.violation(
                    format!("{}|list|byte-length", ["DA", "TM", "DT"][kind]),
                    format!("calculate_byte_len() = {} for {:?} ({} bytes)", len, joined, joined.len()),
                    json!({"text": joined}),
                );
            }
            lists.class(format!("list|{}|n={}|parity={}", ["DA", "TM", "DT"][kind], n, joined.len() % 2));
        }
    }
    total.merge(lists);

    // ---- TM: exhaustive h × m × s(0..=60) at H / HM / HMS -----------------------------------
    let tm = run_parallel(
        cfg,
        123,
        RunLimits {
            cases: 24 * 60,
            wall: Duration::from_secs(900),
        },
        |l: &mut Local, rng: &mut Rng, idx: u64| {
            let h = (idx / 60) as u32;
            let mi = (idx % 60) as u32;
            if mi == 0 {
                check_time(l, GT { h, mi: None, s: None, f: None }, "exhaustive");
            }
            check_time(l, GT { h, mi: Some(mi), s: None, f: None }, "exhaustive");
            for s in 0..=60u32 {
                check_time(l, GT { h, mi: Some(mi), s: Some(s), f: None }, "exhaustive");
                // boundary fractions at every precision for a few seconds of every minute
                if s % 20 == 0 || s >= 59 {
                    for p in 1..=6u32 {
                        let max = pow10(p) - 1;
                        for f in [0, 1.min(max), max, max / 2, pow10(p - 1) % (max + 1), rng.below(max as u64 + 1) as u32] {
                            check_time(l, GT { h, mi: Some(mi), s: Some(s), f: Some((f, p)) }, "boundary-fraction");
                        }
                    }
                }
            }
            l.class(format!("TM|h={}|exhaustive", h));
        },
    );
    total.merge(tm);

    let n_tm = cfg.n(300_000, 4_000_000);
    let tm2 = run_parallel(
        cfg,
        124,
        RunLimits {
            cases: n_tm,
            wall: Duration::from_secs(if cfg.thorough() { 900 } else { 120 }),
        },
        |l: &mut Local, rng: &mut Rng, idx: u64| {
            if idx % 2 == 0 {
                let mut g = gen_time(rng, true);
                if g.f.is_none() && g.s.is_some() && rng.bool() {
                    g.f = Some(gen_fraction(rng));
                }
                l.class(format!("TM|{}|leap={}", g.prec(), g.leap()));
                if l.want_sample() && idx % 5003 == 1 {
                    l.sample(json!({"TM": g.text()}));
                }
                check_time(l, g, "random");
            } else {
                let g = gen_datetime(rng, 0, true, true);
                l.class(format!(
                    "DT|{}|{}|{}",
                    g.date.prec(),
                    g.time.map(|t| t.prec()).unwrap_or_else(|| "-".into()),
                    match g.tz {
                        None => "naive",
                        Some(x) if x < 0 => "west",
                        _ => "east",
                    }
                ));
                if l.want_sample() && idx % 5003 == 2 {
                    l.sample(json!({"DT": g.text()}));
                }
                check_datetime(l, g, "random");
            }
        },
    );
    total.merge(tm2);

    // imprecise date + time must be refused by the constructors (documented)
    let mut neg = Local::new();
    for (y, m) in [(2020u16, None), (2020, Some(5u8))] {
        let d = match m {
            None => DicomDate::from_y(y).unwrap(),
            Some(m) => DicomDate::from_ym(y, m).unwrap(),
        };
        let t = DicomTime::from_h(10).unwrap();
        neg.eval();
        if DicomDateTime::from_date_and_time(d, t).is_ok()
            || DicomDateTime::from_date_and_time_with_time_zone(d, t, FixedOffset::east_opt(0).unwrap()).is_ok()
        {
            neg.violation(
                "DT|constructor|imprecise-date-with-time-accepted".to_string(),
                format!("from_date_and_time accepted the imprecise date {:?} with a time", d),
                json!({"date": format!("{:?}", d)}),
            );
        }
    }
    neg.class("DT|imprecise-date-with-time");
    total.merge(neg);

    // ---- ranges ---------------------------------------------------------------------------
    let n_rg = cfg.n(300_000, 3_000_000);
    let rg = run_parallel(
        cfg,
        125,
        RunLimits {
            cases: n_rg,
            wall: Duration::from_secs(if cfg.thorough() { 900 } else { 120 }),
        },
        |l: &mut Local, rng: &mut Rng, idx: u64| check_ranges(l, rng, cfg, idx),
    );
    total.merge(rg);

    let mut o = Outcome::new(
        total,
        "DA exhaustive: years 0-9999 × 12 months × days 1-31 at Y/YM/YMD precision (impossible days: error-not-panic only); TM exhaustive 24×60×61 at H/HM/HMS + boundary fractions of 1-6 digits + random; DT random (date precision × time precision × offsets -1200…+1400, leap seconds, impossible days); lists of 2-4 values for the summed length; checks: constructor, accessors, to_encoded/encode_* == own encoder, FromStr/parse_*_partial/PrimitiveValue::to_* round trip, calculate_byte_len == even(text length), earliest/latest/range/exact vs own calendar (leap second: error accepted, wrong instant not), UTC instant of zoned values; ranges A-B, A-, -B for DA/TM/DT (DT: both naive or both zoned, years >= 1500) through parse_*_range and PrimitiveValue::to_*_range",
    );
    o.exhaustive = false;
    o.min_evaluations = 3_000_000;
    o.min_classes = 150;
    o.extra.insert("exhaustive_parts".into(), json!(["DA years 0-9999 × months × days 1-31 × 3 precisions", "TM 24×60×61 at H/HM/HMS"]));
    o
}
