//! C20 — RLE Lossless decoding reproduces the encoded samples.
//!
//! Workload: images (8/16 bits allocated × 1/3 samples × 1–5 frames, rows/cols 1–40 plus wide rows
//! up to 300 so that runs have to be cut at 128) with byte-asymmetric sample values and constant
//! stretches, encoded by the independent Annex G encoder `gen::rle` with a random run policy
//! (greedy / random mix / literal only / shortest runs, optional -128 no-op bytes), wrapped as an
//! RLE Lossless object (one fragment per frame, empty or filled offset table), optionally written
//! to a file and read back.
//! Oracle: the generated samples as little-endian pixel-interleaved bytes (GImg::native_bytes).
//! The encoder is self-checked against its own Annex G.3.2 decoder before the object is built, so
//! an encoder mistake is reported as a harness error, never as a violation.

use crate::gen::img::*;
use crate::gen::rle::*;
use crate::report::*;
use crate::rng::Rng;
use dicom_core::{DataElement, PrimitiveValue, Tag, VR};
use dicom_pixeldata::PixelDecoder;
use serde_json::{json, Value};
use std::time::Duration;

fn mode_name(m: RunMode) -> &'static str {
    match m {
        RunMode::Greedy => "greedy",
        RunMode::Random => "random",
        RunMode::LiteralOnly => "literal-only",
        RunMode::Shortest => "shortest",
    }
}

/// Label the shape of a wrong result (diagnosis only; the verdict is inequality with the oracle).
fn diagnose(observed: &[u8], expected: &[u8], frame_bytes: usize, bps: usize) -> &'static str {
    if observed.len() != expected.len() {
        return "length";
    }
    if bps == 1 && frame_bytes >= 1 {
        let shifted = observed.chunks(frame_bytes).zip(expected.chunks(frame_bytes)).all(|(o, e)| o[0] == 0 && o[1..] == e[..e.len() - 1]);
        if shifted {
            return "shift-by-one";
        }
    }
    if bps == 2 {
        let swapped = observed.chunks(2).zip(expected.chunks(2)).all(|(o, e)| o[0] == e[1] && o[1] == e[0]);
        if swapped {
            return "big-endian";
        }
    }
    "content"
}

/// Random image for the RLE workload.
fn gen_rle_image(rng: &mut Rng) -> GImg {
    let mut o = ImgOpts::no_1bit();
    o.max_dim = 40;
    o.max_frames = 5;
    o.bigger_one_in = 0;
    o.byte_asymmetric = true;
    o.allow_partial_bits = rng.chance(1, 4);
    let mut img = gen_image(rng, &o);
    // wide rows so that replicate / literal runs must be cut at 128
    if rng.chance(1, 5) {
        img.cols = rng.range(129, 300) as u16;
        img.rows = rng.range(1, 4) as u16;
        img.frames = img.frames.min(2);
        let n = img.frames as usize * img.frame_samples();
        let mask: u32 = if img.bits_allocated == 16 { 0xFFFF } else { 0xFF };
        img.samples = (0..n).map(|_| (rng.next_u32() & mask) as u16).collect();
    }
    // constant stretches (per sample position of a pixel, so that byte planes get repeats)
    let n = img.samples.len();
    let spp = img.spp as usize;
    if n > 0 {
        let stretches = rng.usize(6);
        for _ in 0..stretches {
            let start = rng.usize(n / spp) * spp;
            let len = match rng.usize(4) {
                0 => 2,
                1 => 3,
                2 => rng.urange(2, 40),
                _ => rng.urange(100, 300),
            };
            for p in 0..len {
                let base = start + p * spp;
                if base + spp > n {
                    break;
                }
                for s in 0..spp {
                    img.samples[base + s] = img.samples[start + s];
                }
            }
        }
        // only the low or only the high byte constant over a stretch (16-bit)
        if img.bits_allocated == 16 && rng.bool() {
            let start = rng.usize(n);
            let len = rng.urange(2, 200).min(n - start);
            let hi = rng.bool();
            let v = img.samples[start];
            for p in 0..len {
                let x = &mut img.samples[start + p];
                *x = if hi { (v & 0xFF00) | (*x & 0x00FF) } else { (v & 0x00FF) | (*x & 0xFF00) };
            }
        }
    }
    if img.bits_stored < img.bits_allocated {
        let mask: u16 = (1u16 << img.bits_stored) - 1;
        for s in &mut img.samples {
            *s &= mask;
        }
    }
    img
}

struct Case<'a> {
    img: &'a GImg,
    mode: RunMode,
    noop_per_256: u32,
    filled_bot: bool,
    via_file: bool,
    planar_one: bool,
}

fn check(l: &mut Local, c: &Case, rng: &mut Rng, replay: &Value) {
    let img = c.img;
    let bps = img.bytes_per_sample();
    let opts = RleOpts { mode: c.mode, noop_per_256: c.noop_per_256 };
    let mut st = RleStats::default();
    let mut fragments: Vec<Vec<u8>> = Vec::new();
    for f in 0..img.frames {
        let frag = encode_frame(img.frame(f), img.rows as usize, img.cols as usize, img.spp as usize, bps, &opts, rng, &mut st);
        // encoder self-check (harness error, not a finding)
        match reference_decode_frame(&frag, img.rows as usize, img.cols as usize, img.spp as usize, bps) {
            Some(s) if s == img.frame(f) => {}
            _ => {
                l.note("HARNESS: reference RLE encoder failed its own round trip; case skipped");
                l.count("harness_encoder_selfcheck_failures", 1);
                return;
            }
        }
        fragments.push(frag);
    }
    l.count("rle_literal_runs", st.literal_runs);
    l.count("rle_replicate_runs", st.replicate_runs);
    l.count("rle_runs_of_exactly_128", st.runs_of_128);
    l.count("rle_repeats_longer_than_128_cut", st.repeats_cut_at_128);
    l.count("rle_noop_bytes", st.noops);
    l.count("rle_padded_segments", st.padded_segments);
    l.count("rle_segments", st.segments);
    let mut bot = Vec::new();
    if c.filled_bot {
        let mut off = 0u32;
        for f in &fragments {
            bot.push(off);
            off += 8 + f.len() as u32;
        }
    }
    let frag_hex: Vec<String> = fragments.iter().map(|f| hex_short(f, 2048)).collect();
    let mut obj = img.to_encapsulated_object(TS_RLE, bot, fragments);
    if c.planar_one && img.spp == 3 {
        obj.put(DataElement::new(Tag(0x0028, 0x0006), VR::US, PrimitiveValue::from(1u16)));
    }
    if c.via_file {
        let bytes = match write_file(&obj) {
            Ok(b) => b,
            Err(e) => {
                l.note(format!("HARNESS: writing the RLE object failed; case skipped: {}", &e[..e.len().min(160)]));
                l.count("harness_write_failures", 1);
                return;
            }
        };
        obj = match read_file(&bytes) {
            Ok(o) => o,
            Err(e) => {
                l.note(format!("HARNESS: re-reading the RLE object failed; case skipped: {}", &e[..e.len().min(160)]));
                l.count("harness_read_failures", 1);
                return;
            }
        };
    }
    let shape = format!("{}bit|spp{}", img.bits_allocated, img.spp);
    let expected = img.native_bytes();
    let fb = img.frame_bytes();
    let mut replay = replay.clone();
    replay["run_mode"] = json!(mode_name(c.mode));
    replay["noop_per_256"] = json!(c.noop_per_256);
    replay["via_file"] = json!(c.via_file);
    replay["rle_fragments_hex"] = json!(frag_hex);

    // whole-object decode
    l.eval();
    let whole: Option<Vec<u8>> = match guarded(|| obj.decode_pixel_data().map(|d| d.data().to_vec())) {
        Err(p) => {
            l.violation(format!("C20|whole|{}|panic|{}", shape, panic_loc(&p)), format!("decode_pixel_data panicked on a valid RLE object: {}", p), replay.clone());
            None
        }
        Ok(Err(e)) => {
            l.violation(format!("C20|whole|{}|error", shape), format!("decode_pixel_data failed on a valid RLE object: {}", e), replay.clone());
            None
        }
        Ok(Ok(d)) => Some(d),
    };
    if let Some(w) = &whole {
        if w != &expected {
            let d = diagnose(w, &expected, fb, bps);
            let mut r = replay.clone();
            r["expected_hex"] = json!(hex_short(&expected, 256));
            r["observed_hex"] = json!(hex_short(w, 256));
            l.violation(
                format!("C20|whole|{}|{}", shape, d),
                format!(
                    "decode_pixel_data of a {}x{}x{} frame(s) RLE image ({} bits, {} sample(s)/px) = {} .. expected {} .. ({})",
                    img.rows, img.cols, img.frames, img.bits_allocated, img.spp, hex_short(w, 12), hex_short(&expected, 12), d
                ),
                r,
            );
        }
    }
    // per-frame decode
    let mut concat: Vec<u8> = Vec::new();
    let mut all_frames = true;
    for f in 0..img.frames {
        l.eval();
        let exp_f = &expected[f as usize * fb..(f as usize + 1) * fb];
        match guarded(|| obj.decode_pixel_data_frame(f).map(|d| d.data().to_vec())) {
            Err(p) => {
                all_frames = false;
                l.violation(format!("C20|frame|{}|panic|{}", shape, panic_loc(&p)), format!("decode_pixel_data_frame({}) panicked: {}", f, p), replay.clone());
            }
            Ok(Err(e)) => {
                all_frames = false;
                l.violation(format!("C20|frame|{}|error", shape), format!("decode_pixel_data_frame({}) failed on a valid RLE object: {}", f, e), replay.clone());
            }
            Ok(Ok(d)) => {
                if d != exp_f {
                    let dg = diagnose(&d, exp_f, fb, bps);
                    let mut r = replay.clone();
                    r["frame"] = json!(f);
                    r["expected_hex"] = json!(hex_short(exp_f, 256));
                    r["observed_hex"] = json!(hex_short(&d, 256));
                    l.violation(
                        format!("C20|frame|{}|{}", shape, dg),
                        format!("decode_pixel_data_frame({}) = {} .. expected {} .. ({})", f, hex_short(&d, 12), hex_short(exp_f, 12), dg),
                        r,
                    );
                }
                concat.extend_from_slice(&d);
            }
        }
    }
    // whole == concatenation of the per-frame results
    if let (Some(w), true) = (&whole, all_frames) {
        l.eval();
        if w != &concat {
            l.violation(
                format!("C20|whole-vs-frames|{}", shape),
                "whole-object decode differs from the concatenation of the per-frame decodes".to_string(),
                replay.clone(),
            );
        }
    }
}

fn mk(rows: u16, cols: u16, frames: u32, spp: u16, bits: u16, samples: Vec<u16>) -> GImg {
    GImg {
        rows,
        cols,
        frames,
        spp,
        bits_allocated: bits,
        bits_stored: bits,
        signed: false,
        photometric: if spp == 3 { "RGB" } else { "MONOCHROME2" },
        fill: Fill::Ramp,
        samples,
        explicit_number_of_frames: frames > 1,
    }
}

pub fn run(cfg: &Cfg) -> Outcome {
    // minimal hand-made witnesses first (single-threaded), so that a finding is reported with the
    // smallest input
    let mut base = Local::new();
    if cfg.only_case.is_none() {
        let minis = vec![
            mk(2, 2, 1, 1, 8, vec![1, 2, 3, 4]),
            mk(1, 2, 1, 1, 16, vec![0x0102, 0x0304]),
            mk(1, 2, 1, 3, 8, vec![1, 2, 3, 4, 5, 6]),
            mk(1, 1, 1, 3, 16, vec![0x0102, 0x0304, 0x0506]),
            mk(1, 2, 2, 1, 8, vec![1, 2, 3, 4]),
            mk(1, 1, 2, 3, 16, vec![0x0102, 0x0304, 0x0506, 0x0708, 0x090A, 0x0B0C]),
        ];
        for (i, img) in minis.iter().enumerate() {
            let mut rng = Rng::derive(cfg.seed, 200, i as u64);
            let replay = json!({"seed": cfg.seed, "stream": 200, "case": i, "hand_made": true, "image": img.describe()});
            let c = Case { img, mode: RunMode::Greedy, noop_per_256: 0, filled_bot: true, via_file: false, planar_one: false };
            check(&mut base, &c, &mut rng, &replay);
        }
    }
    let n = cfg.n(150_000, 4_000_000);
    let local = run_parallel(
        cfg,
        20,
        RunLimits {
            cases: n,
            wall: Duration::from_secs(if cfg.thorough() { 800 } else { 50 }),
        },
        |l: &mut Local, rng: &mut Rng, idx: u64| {
            let img = gen_rle_image(rng);
            let mode = *rng.pick(&[RunMode::Greedy, RunMode::Random, RunMode::Random, RunMode::LiteralOnly, RunMode::Shortest]);
            let noop = if rng.chance(1, 3) { *rng.pick(&[4u32, 30, 128]) } else { 0 };
            let c = Case {
                img: &img,
                mode,
                noop_per_256: noop,
                filled_bot: rng.bool(),
                via_file: rng.bool(),
                planar_one: rng.bool(),
            };
            l.class(format!(
                "a{}|spp{}|f{}|{}|noop{}|{}|{}|{}",
                img.bits_allocated,
                img.spp,
                img.frames,
                mode_name(mode),
                noop,
                if img.cols > 128 { "wide" } else { "narrow" },
                if (img.rows as usize * img.cols as usize) % 2 == 1 { "oddplane" } else { "evenplane" },
                if c.via_file { "file" } else { "mem" }
            ));
            l.count(&format!("images_a{}_spp{}", img.bits_allocated, img.spp), 1);
            l.count(&format!("images_frames_{}", img.frames), 1);
            let replay = json!({"seed": cfg.seed, "stream": 20, "case": idx, "image": img.describe()});
            if l.want_sample() && idx % 977 == 0 {
                l.sample(json!({"case": idx, "image": img.describe(), "run_mode": mode_name(mode), "noop_per_256": noop}));
            }
            check(l, &c, rng, &replay);
        },
    );
    base.merge(local);
    let mut o = Outcome::new(
        base,
        "images 8/16 bits × 1/3 samples × 1–5 frames, rows/cols 1–40 (+ rows up to 300 wide), byte-asymmetric samples with constant stretches, encoded by the independent Annex G encoder (64-byte header, MSB-first byte planes, row-wise PackBits with greedy/random/literal-only/shortest run policies, runs cut at 128, optional -128 no-ops, even-padded segments), empty or filled BOT, in memory or via file: decode_pixel_data == samples as LE pixel-interleaved bytes, decode_pixel_data_frame(f) == frame f, whole == concatenation of frames; class = (alloc, spp, frames, run policy, no-op rate, wide, plane parity, mem/file)",
    );
    o.min_evaluations = 5000;
    o.min_classes = 100;
    o
}
