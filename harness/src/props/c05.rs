//! C05 — untrusted input never makes a reading entry point panic, abort or hang.
//!
//! Process model: the master (this subcommand without `--worker`) spawns worker subprocesses
//! of the same binary. A worker executes cases on a thread with an 8 MiB stack (what a CLI user
//! gets), writes the id of the case it is about to run to a progress file, catches panics, and a
//! supervisor thread measures the CPU time of the case thread. Abnormal worker exits (signal:
//! stack overflow, allocation failure abort) are attributed to the in-flight case by the master,
//! which restarts the worker after that case.

use crate::gen::ds::{gen_dataset, DsOpts};
use crate::gen::tree::*;
use crate::refenc::{self, LenMode, Ts};
use crate::report::*;
use crate::rng::Rng;
use dicom_core::value::{PixelFragmentSequence, PrimitiveValue, Value};
use dicom_core::{DataElement, Tag, VR};
use dicom_dictionary_std::StandardDataDictionary;
use dicom_object::collector::DicomCollector;
use dicom_object::file::{OpenFileOptions, ReadPreamble};
use dicom_object::meta::FileMetaTableBuilder;
use dicom_object::{FileMetaTable, InMemDicomObject};
use dicom_parser::dataset::lazy_read::LazyDataSetReader;
use dicom_parser::dataset::read::{DataSetReader, DataSetReaderOptions, OddLengthStrategy, ValueReadStrategy};
use dicom_pixeldata::{PixelDecoder, Transcode};
use dicom_transfer_syntax_registry::TransferSyntaxRegistry;
use dicom_encoding::transfer_syntax::TransferSyntaxIndex;
use serde_json::{json, Value as J};
use std::io::{BufReader, Cursor, Write};
use std::str::FromStr;
use std::sync::atomic::{AtomicBool, AtomicU64, Ordering};
use std::sync::Arc;
use std::time::{Duration, Instant};

fn cpu_budget() -> f64 { std::env::var("VERIF_C05_BUDGET").ok().and_then(|s| s.parse().ok()).unwrap_or(60.0) }
const TARGETS: [&str; 14] = [
    "from_reader", "open_options", "meta", "dataset_reader", "lazy_reader", "collector", "json",
    "pdu", "pdu_wire", "pixel", "dump", "strings", "nesting", "from_reader_big_len",
];

// ---------------------------------------------------------------- seeds

fn image_file(rng: &mut Rng) -> Option<Vec<u8>> {
    let bits = *rng.pick(&[8u16, 16]);
    let spp = *rng.pick(&[1u16, 1, 3]);
    let rows = rng.range(1, 12) as u16;
    let cols = rng.range(1, 12) as u16;
    let frames = rng.range(1, 3) as u32;
    let n = rows as usize * cols as usize * spp as usize * frames as usize * (bits as usize / 8);
    let px = rng.bytes(n);
    let mut e: Vec<DataElement<InMemDicomObject>> = vec![
        DataElement::new(Tag(0x0008, 0x0016), VR::UI, PrimitiveValue::from("1.2.840.10008.5.1.4.1.1.7")),
        DataElement::new(Tag(0x0008, 0x0018), VR::UI, PrimitiveValue::from("1.2.3.4.5")),
        DataElement::new(Tag(0x0028, 0x0002), VR::US, PrimitiveValue::from(spp)),
        DataElement::new(Tag(0x0028, 0x0004), VR::CS, PrimitiveValue::from(if spp == 3 { "RGB" } else { "MONOCHROME2" })),
        DataElement::new(Tag(0x0028, 0x0008), VR::IS, PrimitiveValue::from(frames.to_string())),
        DataElement::new(Tag(0x0028, 0x0010), VR::US, PrimitiveValue::from(rows)),
        DataElement::new(Tag(0x0028, 0x0011), VR::US, PrimitiveValue::from(cols)),
        DataElement::new(Tag(0x0028, 0x0100), VR::US, PrimitiveValue::from(bits)),
        DataElement::new(Tag(0x0028, 0x0101), VR::US, PrimitiveValue::from(bits)),
        DataElement::new(Tag(0x0028, 0x0102), VR::US, PrimitiveValue::from(bits - 1)),
        DataElement::new(Tag(0x0028, 0x0103), VR::US, PrimitiveValue::from(0u16)),
    ];
    if spp == 3 {
        e.push(DataElement::new(Tag(0x0028, 0x0006), VR::US, PrimitiveValue::from(0u16)));
    }
    if rng.bool() {
        e.push(DataElement::new(Tag(0x0028, 0x1052), VR::DS, PrimitiveValue::from("-1024")));
        e.push(DataElement::new(Tag(0x0028, 0x1053), VR::DS, PrimitiveValue::from("1.5")));
        e.push(DataElement::new(Tag(0x0028, 0x1050), VR::DS, PrimitiveValue::from("40")));
        e.push(DataElement::new(Tag(0x0028, 0x1051), VR::DS, PrimitiveValue::from("400")));
    }
    let kind = rng.usize(6);
    let mut ts_uid = "1.2.840.10008.1.2.1";
    if kind == 5 {
        // hand-made RLE Lossless frames (literal runs only)
        ts_uid = "1.2.840.10008.1.2.5";
        let bpp = bits as usize / 8;
        let frame_px = rows as usize * cols as usize;
        let mut frags = Vec::new();
        for f in 0..frames as usize {
            let nseg = spp as usize * bpp;
            let mut segs: Vec<Vec<u8>> = Vec::new();
            for s in 0..spp as usize {
                for b in (0..bpp).rev() {
                    let plane: Vec<u8> = (0..frame_px).map(|i| px[((f * frame_px + i) * spp as usize + s) * bpp + b]).collect();
                    let mut seg = Vec::new();
                    for ch in plane.chunks(128) {
                        seg.push((ch.len() - 1) as u8);
                        seg.extend_from_slice(ch);
                    }
                    if seg.len() % 2 == 1 { seg.push(0x80); }
                    segs.push(seg);
                }
            }
            let mut frag = vec![0u8; 64];
            frag[0..4].copy_from_slice(&(nseg as u32).to_le_bytes());
            let mut off = 64u32;
            for (i, s) in segs.iter().enumerate() {
                frag[4 + 4 * i..8 + 4 * i].copy_from_slice(&off.to_le_bytes());
                off += s.len() as u32;
            }
            for s in segs { frag.extend_from_slice(&s); }
            frags.push(frag);
        }
        e.push(DataElement::new(Tag(0x7FE0, 0x0010), VR::OB, Value::PixelSequence(PixelFragmentSequence::new(Vec::<u32>::new(), frags))));
    } else if bits == 8 {
        e.push(DataElement::new(Tag(0x7FE0, 0x0010), VR::OB, PrimitiveValue::from(px)));
    } else {
        let w: Vec<u16> = px.chunks(2).map(|c| u16::from_le_bytes([c[0], c[1]])).collect();
        e.push(DataElement::new(Tag(0x7FE0, 0x0010), VR::OW, PrimitiveValue::U16(w.into())));
    }
    let obj = InMemDicomObject::from_element_iter(e);
    let meta = FileMetaTableBuilder::new().transfer_syntax(ts_uid).media_storage_sop_class_uid("1.2.840.10008.5.1.4.1.1.7").media_storage_sop_instance_uid("1.2.3.4.5");
    let mut f = obj.with_meta(meta).ok()?;
    // real encoded fragments from the repository's own encoders
    let target = match kind {
        1 => Some("1.2.840.10008.1.2.1.98"),  // encapsulated uncompressed
        2 => Some("1.2.840.10008.1.2.8.1"),   // deflated image frame
        3 => Some("1.2.840.10008.1.2.4.50"),  // JPEG baseline
        4 => Some("1.2.840.10008.1.2.4.70"),  // JPEG lossless (decoder only; encoder may refuse)
        _ => None,
    };
    if let Some(uid) = target {
        if let Some(ts) = TransferSyntaxRegistry.get(uid) {
            let _ = guarded(|| f.transcode(ts));
        }
    }
    let mut out = Vec::new();
    f.write_all(&mut out).ok()?;
    Some(out)
}

fn ds_file(rng: &mut Rng) -> (Vec<u8>, usize) {
    let mut o = DsOpts::default();
    o.big = false;
    o.max_elems = 10;
    o.zero_frags = true;
    let ds = gen_dataset(rng, &o);
    let ti = rng.usize(4);
    let uid = ["1.2.840.10008.1.2", "1.2.840.10008.1.2.1", "1.2.840.10008.1.2.2", "1.2.840.10008.1.2.1.99"][ti];
    let meta = FileMetaTableBuilder::new().transfer_syntax(uid).media_storage_sop_class_uid("1.2.840.10008.5.1.4.1.1.7").media_storage_sop_instance_uid("1.2.3");
    let mut out = Vec::new();
    if let Ok(f) = to_object(&ds).with_meta(meta) {
        let _ = f.write_all(&mut out);
    }
    (out, ti)
}

fn ds_stream(rng: &mut Rng) -> (Vec<u8>, Ts, Vec<refenc::Pos>) {
    let mut o = DsOpts::default();
    o.big = false;
    o.max_elems = 10;
    o.typed = false;
    o.explicit_marks = true;
    o.zero_frags = true;
    let ds = gen_dataset(rng, &o);
    let ts = *rng.pick(&Ts::ALL);
    let ds = if ts == Ts::ImplicitLe { crate::props::c01::undefine_foreign_sq(&ds) } else { ds };
    let enc = refenc::encode(&ds, ts, LenMode::AsMarked);
    (enc.bytes, ts, enc.pos)
}

// ---------------------------------------------------------------- mutators (G-MUT)

const SPECIAL_LENGTHS: [u32; 12] = [0, 1, 3, 0xFFFE, 0xFFFF, 0x1_0000, 0x7FFF_FFFF, 0x8000_0000, 0xFFFF_FFFD, 0xFFFF_FFFE, 0xFFFF_FFFF, 0x00FF_FFFF];

fn mutate(rng: &mut Rng, data: &[u8], other: &[u8], allow_huge: bool) -> (Vec<u8>, &'static str) {
    let mut d = data.to_vec();
    if d.is_empty() {
        return (rng.bytes(16), "random");
    }
    let k = rng.usize(10);
    match k {
        0 => { for _ in 0..rng.urange(1, 4) { let i = rng.usize(d.len()); d[i] ^= 1 << rng.usize(8); } (d, "bitflip") }
        1 => { for _ in 0..rng.urange(1, 6) { let i = rng.usize(d.len()); d[i] = rng.next_u32() as u8; } (d, "byteset") }
        2 => { let n = rng.usize(d.len() + 1); d.truncate(n); (d, "truncate") }
        3 | 4 => {
            // overwrite a 2/4-byte window with a special length value
            let v = *rng.pick(&SPECIAL_LENGTHS);
            let v = if !allow_huge && v >= 0x7FFF_FFFF { 0x00FF_FFFF } else { v };
            let big = rng.chance(1, 4);
            if d.len() >= 4 {
                let i = rng.usize(d.len() - 3);
                let b = if big { v.to_be_bytes() } else { v.to_le_bytes() };
                if rng.bool() { d[i..i + 4].copy_from_slice(&b); } else { d[i..i + 2].copy_from_slice(&b[..2]); }
            }
            (d, "length-rewrite")
        }
        5 => { let i = rng.usize(d.len() + 1); let j = rng.usize(other.len() + 1); d.truncate(i); d.extend_from_slice(&other[j..]); (d, "splice") }
        6 => {
            let i = rng.usize(d.len() + 1);
            let delim: &[u8] = *rng.pick(&[&[0xFE, 0xFF, 0x0D, 0xE0, 0, 0, 0, 0][..], &[0xFE, 0xFF, 0xDD, 0xE0, 0, 0, 0, 0][..], &[0xFE, 0xFF, 0x00, 0xE0, 0xFF, 0xFF, 0xFF, 0xFF][..], &[0xFE, 0xFF, 0x00, 0xE0, 0, 0, 0, 0][..]]);
            let tail = d.split_off(i); d.extend_from_slice(delim); d.extend_from_slice(&tail); (d, "delimiter-insert")
        }
        7 => { let i = rng.usize(d.len()); let n = rng.urange(1, 16).min(d.len() - i); d.drain(i..i + n); (d, "delete") }
        8 => { if d.len() >= 6 { let i = rng.usize(d.len() - 1); let vr = *rng.pick(&["SQ", "UN", "OB", "UT", "US", "AT", "DA", "xx", "OW", "FD"]); d[i..i + 2].copy_from_slice(vr.as_bytes()); } (d, "vr-swap") }
        _ => { let i = rng.usize(d.len()); let n = rng.urange(1, 64).min(d.len() - i); let chunk = d[i..i + n].to_vec(); let at = rng.usize(d.len()); for (o, b) in chunk.into_iter().enumerate() { d.insert(at + o, b); } (d, "duplicate") }
    }
}

fn nested(depth: usize, explicit_vr: bool) -> Vec<u8> {
    // SQ(undefined) + Item(undefined) repeated
    let mut d = Vec::with_capacity(depth * 20);
    for _ in 0..depth {
        d.extend_from_slice(&[0x08, 0x00, 0x40, 0x11]);
        if explicit_vr { d.extend_from_slice(b"SQ\0\0"); }
        d.extend_from_slice(&[0xFF; 4]);
        d.extend_from_slice(&[0xFE, 0xFF, 0x00, 0xE0, 0xFF, 0xFF, 0xFF, 0xFF]);
    }
    d
}

// ---------------------------------------------------------------- targets

fn drain_reader(bytes: &[u8], ts_uid: &str, flexible: bool, vrs: ValueReadStrategy, odd: OddLengthStrategy) {
    let Some(ts) = TransferSyntaxRegistry.get(ts_uid) else { return };
    let mut o = DataSetReaderOptions::default().value_read(vrs).flexible_decoding(flexible);
    o.odd_length = odd;
    let src: Box<dyn std::io::Read> = match ts.codec() {
        dicom_encoding::transfer_syntax::Codec::Dataset(Some(a)) => a.adapt_reader(Box::new(bytes)),
        _ => Box::new(bytes),
    };
    if let Ok(r) = DataSetReader::new_with_ts_options(src, ts, o) {
        let mut n = 0u64;
        for t in r {
            if t.is_err() { break; }
            n += 1;
            if n > 5_000_000 { break; }
        }
    }
}

fn run_target(target: &str, rng: &mut Rng, allow_huge: bool) -> (String, J) {
    // returns (generator name, replay input description); the call itself happens inside
    let hexin = |b: &[u8]| json!(hex_short(b, 4096));
    match target {
        "from_reader" | "open_options" | "pixel" | "dump" | "collector" | "meta" => {
            let (seed, gen0) = if target == "pixel" || rng.chance(1, 3) { (image_file(rng).unwrap_or_default(), "image") } else { (ds_file(rng).0, "ds-file") };
            let other = ds_file(rng).0;
            let (mut data, mname) = if rng.chance(1, 12) { (seed.clone(), "valid") } else { mutate(rng, &seed, &other, false) };
            // keep the file header intact most of the time so that the data set is reached
            if rng.chance(3, 4) && data.len() > 400 && seed.len() > 400 && mname != "valid" && target != "meta" {
                let keep = 132 + 12 + rng.usize(200);
                let keep = keep.min(seed.len()).min(data.len());
                data[..keep].copy_from_slice(&seed[..keep]);
            }
            let gname = format!("{}+{}", gen0, mname);
            let input = json!({"file_hex": hexin(&data), "len": data.len()});
            match target {
                "from_reader" => {
                    let variant = rng.usize(3);
                    let d: Vec<u8> = match variant { 0 => data.clone(), 1 => data.get(128..).unwrap_or(&[]).to_vec(), _ => { let mut p = rng.bytes(128); p.extend_from_slice(data.get(128..).unwrap_or(&[])); p } };
                    let _ = dicom_object::from_reader(&d[..]);
                }
                "open_options" => {
                    let mut o = OpenFileOptions::new();
                    o = o.odd_length_strategy(*rng.pick(&[OddLengthStrategy::Accept, OddLengthStrategy::NextEven, OddLengthStrategy::Fail]));
                    o = o.read_preamble(*rng.pick(&[ReadPreamble::Auto, ReadPreamble::Never, ReadPreamble::Always]));
                    match rng.usize(3) { 0 => o = o.read_until(Tag(0x7FE0, 0x0010)), 1 => o = o.read_to(Tag(rng.next_u32() as u16, rng.next_u32() as u16)), _ => {} }
                    let _ = o.from_reader(&data[..]);
                }
                "meta" => {
                    let d = data.get(128..).unwrap_or(&[]);
                    let _ = FileMetaTable::from_reader(d);
                    let _ = FileMetaTable::from_reader(&data[..]);
                }
                "collector" => {
                    let mut c = DicomCollector::new(BufReader::new(Cursor::new(&data[..])));
                    let mut to = InMemDicomObject::new_empty();
                    for _ in 0..rng.urange(1, 6) {
                        match rng.usize(7) {
                            0 => { let _ = c.read_file_meta().map(|_| ()); }
                            1 => { let _ = c.read_dataset_up_to(Tag(rng.next_u32() as u16 & 0x7FFF, rng.next_u32() as u16), &mut to); }
                            2 => { let _ = c.read_dataset_up_to_pixeldata(&mut to); }
                            3 => { let mut v = Vec::new(); let _ = c.read_basic_offset_table(&mut v); }
                            4 => { let mut v = Vec::new(); let _ = c.read_next_fragment(&mut v); }
                            5 => { let _ = c.read_preamble(); }
                            _ => { let _ = c.read_dataset_to_end(&mut to); }
                        }
                    }
                }
                "pixel" => {
                    if let Ok(obj) = dicom_object::from_reader(&data[..]) {
                        if let Ok(dec) = obj.decode_pixel_data() {
                            let _ = dec.to_vec::<u8>();
                            let _ = dec.to_vec::<u16>();
                            let _ = dec.to_vec_frame::<f32>(0);
                            let _ = dec.to_dynamic_image(0);
                        }
                        for f in [0u32, 1, 7, u32::MAX] {
                            let _ = obj.decode_pixel_data_frame(f).map(|d| d.to_vec::<i32>().map(|v| v.len()));
                        }
                    }
                }
                _ => {
                    let dbg = std::env::var("VERIF_DEBUG").is_ok();
                    let t0 = std::time::Instant::now();
                    if let Ok(obj) = dicom_object::from_reader(&data[..]) {
                        if dbg { eprintln!("[dump] input {} bytes read in {:?}", data.len(), t0.elapsed()); }
                        let mut sink = Vec::new();
                        let _ = dicom_dump::DumpOptions::new().color_mode(dicom_dump::ColorMode::Never).dump_file_to(&mut sink, &obj);
                        if dbg { eprintln!("[dump] text dump {} bytes at {:?}", sink.len(), t0.elapsed()); }
                        sink.clear();
                        let _ = dicom_dump::DumpOptions::new().format(dicom_dump::DumpFormat::Json).dump_file_to(&mut sink, &obj);
                        if dbg { eprintln!("[dump] json dump {} bytes at {:?}", sink.len(), t0.elapsed()); }
                        sink.clear();
                        let _ = dicom_dump::DumpOptions::new().width(20).no_text_limit(true).dump_object_to(&mut sink, &obj);
                        if dbg { eprintln!("[dump] wide dump {} bytes at {:?}", sink.len(), t0.elapsed()); }
                    }
                }
            }
            (gname, input)
        }
        "dataset_reader" | "lazy_reader" => {
            let (seed, ts, _) = ds_stream(rng);
            let (other, _, _) = ds_stream(rng);
            let (data, mname) = if rng.chance(1, 15) { ({ let k = rng.usize(200); rng.bytes(k) }, "random") } else { mutate(rng, &seed, &other, false) };
            let uids = ["1.2.840.10008.1.2", "1.2.840.10008.1.2.1", "1.2.840.10008.1.2.2", "1.2.840.10008.1.2.1.99", "1.2.840.10008.1.2.4.50", "1.2.840.10008.1.2.5", "1.2.840.10008.1.2.1.98", "1.2.840.10008.1.2.4.95"];
            let uid = if rng.chance(2, 3) { ts.uid() } else { *rng.pick(&uids) };
            let input = json!({"stream_hex": hexin(&data), "ts": uid});
            if target == "dataset_reader" {
                let vrs = *rng.pick(&[ValueReadStrategy::Interpreted, ValueReadStrategy::Preserved, ValueReadStrategy::Raw]);
                let odd = *rng.pick(&[OddLengthStrategy::Accept, OddLengthStrategy::NextEven, OddLengthStrategy::Fail]);
                drain_reader(&data, uid, rng.bool(), vrs, odd);
                if let Some(ts) = TransferSyntaxRegistry.get(uid) { let _ = InMemDicomObject::read_dataset_with_ts(&data[..], ts); }
            } else if let Some(t) = TransferSyntaxRegistry.get(uid) {
                if let Ok(mut r) = LazyDataSetReader::new_with_ts(Cursor::new(&data[..]), t) {
                    let mut n = 0;
                    while let Some(tok) = r.advance() {
                        let Ok(tok) = tok else { break };
                        match rng.usize(3) { 0 => { if tok.skip().is_err() { break; } } 1 => { if tok.into_owned().is_err() { break; } } _ => { drop(tok); } }
                        n += 1;
                        if n > 1_000_000 { break; }
                    }
                }
            }
            (format!("ds-stream+{}", mname), input)
        }
        "json" => {
            let mut o = DsOpts::default();
            o.big = false; o.encapsulated = false; o.max_elems = 8;
            let ds = gen_dataset(rng, &o);
            let text = dicom_json::to_string(&to_object(&ds)).unwrap_or_default();
            let b = text.as_bytes();
            let (m, mname) = match rng.usize(5) { 0 => ({ let k = rng.usize(64); rng.bytes(k) }, "random"), 4 => (crate::props::c23::member_order_doc(rng).into_bytes(), "member-order"), _ => mutate(rng, b, b"{\"00080005\":{\"vr\":\"CS\",\"Value\":[null,1e999,{}]}}", false) };
            let s = String::from_utf8_lossy(&m).to_string();
            let _ = dicom_json::from_str::<InMemDicomObject>(&s);
            let _ = dicom_json::from_slice::<InMemDicomObject>(&m);
            if let Ok(v) = serde_json::from_slice::<J>(&m) { let _ = dicom_json::from_value::<InMemDicomObject>(v); }
            (format!("json+{}", mname), json!({"json": s.chars().take(3000).collect::<String>()}))
        }
        "pdu" | "pdu_wire" => {
            let p = crate::gen::pdu::gen_pdu(rng, &Default::default());
            let mut enc = Vec::new();
            let _ = dicom_ul::pdu::write_pdu(&mut enc, &p);
            let p2 = crate::gen::pdu::gen_pdu(rng, &Default::default());
            let mut enc2 = Vec::new();
            let _ = dicom_ul::pdu::write_pdu(&mut enc2, &p2);
            let (data, mname) = if rng.chance(1, 10) { ({ let k = rng.usize(64); rng.bytes(k) }, "random") } else { mutate(rng, &enc, &enc2, false) };
            let input = json!({"pdu_hex": hexin(&data)});
            if target == "pdu" {
                for strict in [true, false] {
                    for max in [1018u32, 16384, 0x7FFF_FFFF, 0, 17] {
                        let _ = dicom_ul::pdu::read_pdu(&data[..], max, strict);
                    }
                }
            } else {
                let mut src = &data[..];
                let mut buf = bytes::BytesMut::new();
                for _ in 0..4 { if dicom_ul::association::read_pdu_from_wire(&mut src, &mut buf, 16384, rng.bool()).is_err() { break; } }
            }
            (format!("pdu+{}", mname), input)
        }
        "strings" => {
            let s: String = match rng.usize(6) {
                0 => { let n = rng.usize(17); (0..n).map(|_| char::from_u32(rng.below(0x3000) as u32).unwrap_or('x')).collect() }
                1 => { let mut t: Vec<char> = "(0008,0010)".chars().collect(); let i = rng.usize(t.len()); t[i] = *rng.pick(&['é', '山', '\u{0}', ')', '(', ',', 'g', ' ']); t.into_iter().collect() }
                2 => { let mut t: Vec<char> = "00080010".chars().collect(); let i = rng.usize(t.len()); t[i] = *rng.pick(&['é', 'ß', '山', '-', '+']); t.into_iter().collect() }
                3 => { let mut t: Vec<char> = "20240229123059.123456+0100".chars().collect(); for _ in 0..rng.urange(0, 3) { let i = rng.usize(t.len()); t[i] = *rng.pick(&['é', '-', '.', '9', 'a', ' ', '+', '6']); } let n = rng.usize(t.len() + 1); t.truncate(n); t.into_iter().collect() }
                4 => { let mut t: Vec<char> = "(0040,A730)[1].(0008,1140)[99999999999].PatientName".chars().collect(); for _ in 0..rng.urange(0, 3) { let i = rng.usize(t.len()); t[i] = *rng.pick(&['é', '[', ']', '.', '(', ')', '9', ' ', '\u{10FFFF}']); } t.into_iter().collect() }
                _ => { let t = "20200101-20211231"; let mut t: Vec<char> = t.chars().collect(); for _ in 0..rng.urange(0, 3) { let i = rng.usize(t.len()); t[i] = *rng.pick(&['é', '-', '9', '0', '.', '+']); } t.into_iter().collect() }
            };
            use dicom_core::dictionary::DataDictionary;
            let _ = Tag::from_str(&s);
            let _ = StandardDataDictionary.parse_tag(&s);
            let _ = StandardDataDictionary.parse_selector(&s);
            let _ = dicom_core::value::DicomDate::from_str(&s);
            let _ = dicom_core::value::DicomTime::from_str(&s);
            let _ = dicom_core::value::DicomDateTime::from_str(&s);
            let b = s.as_bytes();
            let _ = dicom_core::value::range::parse_date_range(b);
            let _ = dicom_core::value::range::parse_time_range(b);
            let _ = dicom_core::value::range::parse_datetime_range(b);
            let _ = dicom_core::value::deserialize::parse_date_partial(b);
            let _ = dicom_core::value::deserialize::parse_time_partial(b);
            let _ = dicom_core::value::deserialize::parse_datetime_partial(b);
            let _ = dicom_core::value::deserialize::parse_date(b);
            let _ = dicom_core::value::deserialize::parse_time(b);
            ("string".into(), json!({"text": s}))
        }
        "nesting" => {
            let depth = 1usize << rng.range(4, 17);
            let explicit = rng.bool();
            let d = nested(depth, explicit);
            let uid = if explicit { "1.2.840.10008.1.2.1" } else { "1.2.840.10008.1.2" };
            match rng.usize(3) {
                0 => { if let Some(ts) = TransferSyntaxRegistry.get(uid) { let _ = InMemDicomObject::read_dataset_with_ts(&d[..], ts); } }
                1 => drain_reader(&d, uid, false, ValueReadStrategy::Preserved, OddLengthStrategy::Accept),
                _ => { if let Some(t) = TransferSyntaxRegistry.get(uid) { if let Ok(mut r) = LazyDataSetReader::new_with_ts(Cursor::new(&d[..]), t) { while let Some(tok) = r.advance() { if tok.is_err() { break; } } } } }
            }
            (format!("nesting-2^{}", depth.trailing_zeros()), json!({"depth": depth, "explicit_vr": explicit}))
        }
        "from_reader_big_len" => {
            // a valid small file whose one declared length is rewritten to a value near 2^32
            let seed = ds_file(rng).0;
            let mut data = seed.clone();
            if data.len() > 160 && allow_huge {
                let i = 140 + rng.usize(data.len() - 150);
                let v = *rng.pick(&[0xFFFF_FFFEu32, 0xFFFF_FFFC, 0x8000_0000, 0xF000_0000]);
                data[i..i + 4].copy_from_slice(&v.to_le_bytes());
            }
            let _ = dicom_object::from_reader(&data[..]);
            ("ds-file+huge-length".into(), json!({"file_hex": hexin(&data)}))
        }
        _ => ("?".into(), json!({})),
    }
}

// ---------------------------------------------------------------- worker

fn thread_cpu_seconds(tid: i32) -> Option<f64> {
    let s = std::fs::read_to_string(format!("/proc/self/task/{}/stat", tid)).ok()?;
    let rest = s.rsplit(')').next()?;
    let f: Vec<&str> = rest.split_whitespace().collect();
    let ut: f64 = f.get(11)?.parse().ok()?;
    let st: f64 = f.get(12)?.parse().ok()?;
    Some((ut + st) / 100.0)
}

fn worker(cfg: &Cfg) -> Outcome {
    let from: u64 = cfg.opt("--from").and_then(|s| s.parse().ok()).unwrap_or(0);
    let to: u64 = cfg.opt("--to").and_then(|s| s.parse().ok()).unwrap_or(0);
    let step: u64 = cfg.opt("--step").and_then(|s| s.parse().ok()).unwrap_or(1);
    let progress = cfg.opt("--progress").expect("--progress");
    let allow_huge = cfg.has_flag("--allow-huge");
    let only_target = cfg.opt("--target");
    let current = Arc::new(AtomicU64::new(u64::MAX));
    let tid_cell = Arc::new(AtomicU64::new(0));
    let done = Arc::new(AtomicBool::new(false));
    let hung = Arc::new(AtomicBool::new(false));
    // supervisor: CPU budget of the case thread
    {
        let (current, tid_cell, done, hung) = (current.clone(), tid_cell.clone(), done.clone(), hung.clone());
        let progress = progress.clone();
        std::thread::spawn(move || {
            let mut last_case = u64::MAX;
            let mut base = 0.0;
            loop {
                std::thread::sleep(Duration::from_millis(200));
                if done.load(Ordering::SeqCst) { return; }
                let c = current.load(Ordering::SeqCst);
                let tid = tid_cell.load(Ordering::SeqCst) as i32;
                if tid == 0 { continue; }
                let Some(cpu) = thread_cpu_seconds(tid) else { continue };
                if c != last_case { last_case = c; base = cpu; continue; }
                if cpu - base > cpu_budget() {
                    hung.store(true, Ordering::SeqCst);
                    let _ = std::fs::write(format!("{}.hang", progress), format!("{}", c));
                    // cannot stop the thread: leave the process, the master restarts after this case
                    std::process::exit(97);
                }
            }
        });
    }
    let cfg2 = cfg.clone();
    let (cur2, tid2) = (current.clone(), tid_cell.clone());
    let handle = std::thread::Builder::new().stack_size(8 * 1024 * 1024).spawn(move || {
        tid2.store(unsafe_gettid() as u64, Ordering::SeqCst);
        let mut l = Local::new();
        l.sample_cap = 3;
        let mut idx = from;
        let stop_after: f64 = cfg2.opt("--stop-after").and_then(|s| s.parse().ok()).unwrap_or(f64::MAX);
        let worker_start = std::time::Instant::now();
        let mut pf = std::fs::OpenOptions::new().create(true).write(true).truncate(true).open(&progress).expect("progress file");
        while idx < to && worker_start.elapsed().as_secs_f64() < stop_after {
            let mut rng = Rng::derive(cfg2.seed, 5, idx);
            let target = match &only_target { Some(t) => t.as_str().to_string(), None => TARGETS[(rng.next_u64() % TARGETS.len() as u64) as usize].to_string() };
            // the rare, expensive targets are thinned out
            let target = if (target == "nesting" && idx % 8 != 0) || (target == "from_reader_big_len" && (idx % 16 != 0 || !allow_huge)) { "from_reader".to_string() } else { target };
            {
                use std::io::{Seek, SeekFrom};
                let _ = pf.seek(SeekFrom::Start(0));
                let _ = write!(pf, "{:020} {:<24}", idx, target);
                let _ = pf.flush();
            }
            cur2.store(idx, Ordering::SeqCst);
            let t0 = Instant::now();
            let mut rng2 = rng.clone();
            let r = guarded(|| run_target(&target, &mut rng2, allow_huge));
            l.eval();
            match r {
                Ok((g, input)) => {
                    l.class(format!("{}|{}", target, g));
                    l.count(&format!("cases|{}", target), 1);
                    if l.want_sample() && idx % 1009 == 0 { l.sample(json!({"case": idx, "target": target, "generator": g, "input": input})); }
                }
                Err(p) => {
                    // regenerate the input description for the witness (deterministic)
                    l.violation(format!("panic|{}|{}", target, panic_loc(&p)), format!("{} panicked: {}", target, p), json!({"seed": cfg2.seed, "stream": 5, "case": idx, "target": target}));
                }
            }
            let el = t0.elapsed().as_secs_f64();
            if el > 5.0 { l.count("cases_slower_than_5s_wall", 1); }
            idx += step;
        }
        l
    }).expect("spawn case thread");
    let local = handle.join().unwrap_or_else(|_| Local::new());
    done.store(true, Ordering::SeqCst);
    Outcome::new(local, "worker")
}

fn unsafe_gettid() -> i32 {
    unsafe { libc::syscall(libc::SYS_gettid) as i32 }
}

// ---------------------------------------------------------------- master

/// Cost, right now on this machine, of what the readers legitimately do with a declared length
/// of 4 GiB: allocate and fill it. In this VM that takes between 1 s and more than a minute of
/// CPU time depending on the state of the (hypervisor-backed) memory and on the load.
fn calibrate_fill() -> f64 {
    let tid = unsafe_gettid();
    let t0 = thread_cpu_seconds(tid).unwrap_or(0.0);
    let n: usize = 4usize << 30;
    let mut v: Vec<u8> = Vec::new();
    if v.try_reserve_exact(n).is_ok() {
        v.resize(n, 1);
        std::hint::black_box(&v);
    }
    drop(v);
    (thread_cpu_seconds(tid).unwrap_or(0.0) - t0).max(0.0)
}

pub fn run(cfg: &Cfg) -> Outcome {
    if cfg.has_flag("--calibrate") {
        let t = calibrate_fill();
        let _ = std::fs::write(format!("{}/calibrate.txt", cfg.out), format!("{}", t));
        let mut o = Outcome::new(Local::new(), "calibration");
        o.min_evaluations = 0;
        o.min_classes = 0;
        return o;
    }
    if cfg.has_flag("--worker") {
        let mut o = worker(cfg);
        o.min_evaluations = 0;
        o.min_classes = 0;
        return o;
    }
    let total = cfg.n(30_000, 4_000_000);
    let mem_gib = std::fs::read_to_string("/proc/meminfo").ok().and_then(|s| s.lines().find(|l| l.starts_with("MemTotal")).and_then(|l| l.split_whitespace().nth(1).and_then(|x| x.parse::<u64>().ok()))).unwrap_or(0) / (1024 * 1024);
    let allow_huge = mem_gib >= 48;
    let nworkers = 8usize.min(cfg.threads.max(1));
    let exe = std::env::current_exe().expect("exe");
    let wall = Duration::from_secs(if cfg.thorough() { 2400 } else { 100 });
    let start = Instant::now();
    let mut total_local = Local::new();
    total_local.note(format!("MemTotal {} GiB: length rewrites >= 2^31 {}", mem_gib, if allow_huge { "enabled" } else { "disabled (reduced coverage)" }));
    if let Some(c) = cfg.only_case {
        // replay: one case, in a subprocess
        let progress = format!("{}/replay.progress", cfg.out);
        let st = std::process::Command::new(&exe)
            .env("GLIBC_TUNABLES", "glibc.malloc.hugetlb=1")
            .args(["C05", "--worker", "--seed", &cfg.seed.to_string(), "--out", &cfg.out, "--result", "replay_worker.json", "--from", &c.to_string(), "--to", &(c + 1).to_string(), "--step", "1", "--progress", &progress])
            .args(if allow_huge { vec!["--allow-huge"] } else { vec![] })
            .stderr(std::process::Stdio::null()).status();
        if let Ok(s) = st {
            if !s.success() {
                total_local.violation(format!("abort|replay|status={:?}", s.code()), format!("worker died on case {}: {:?}", c, s), json!({"seed": cfg.seed, "stream": 5, "case": c}));
            } else if let Ok(t) = std::fs::read_to_string(format!("{}/replay_worker.json", cfg.out)) {
                merge_worker(&mut total_local, &t);
            }
        }
        let mut o = Outcome::new(total_local, "replay");
        o.min_evaluations = 0; o.min_classes = 0;
        return o;
    }
    let hang_candidates: std::sync::Mutex<Vec<(u64, String, String)>> = std::sync::Mutex::new(Vec::new());
    let hang_candidates = &hang_candidates;
    // each worker owns the residue class idx ≡ w (mod nworkers)
    let results: Vec<Local> = std::thread::scope(|s| {
        let hs: Vec<_> = (0..nworkers).map(|w| {
            let exe = exe.clone();
            let cfg = cfg.clone();
            s.spawn(move || {
                let mut l = Local::new();
                let mut from = w as u64;
                let mut restarts = 0;
                while from < total && start.elapsed() < wall && restarts < 200 {
                    let progress = format!("{}/w{}.progress", cfg.out, w);
                    let res = format!("w{}.json", w);
                    let _ = std::fs::remove_file(format!("{}/{}", cfg.out, res));
                    let _ = std::fs::remove_file(format!("{}.hang", progress));
                    // run in slices so that the wall budget is respected
                    let slice_to = (from + 1500 * nworkers as u64).min(total);
                    let mut cmd = std::process::Command::new(&exe);
                    // transparent huge pages for large allocations: the library zero-fills
                    // declared lengths (up to 4 GiB) before reading; with 4 KiB pages that costs
                    // ~20 s of page faults per case in this VM, with 2 MiB pages ~1 s
                    cmd.env("GLIBC_TUNABLES", "glibc.malloc.hugetlb=1");
                    cmd.args(["C05", "--worker", "--seed", &cfg.seed.to_string(), "--out", &cfg.out, "--result", &res, "--from", &from.to_string(), "--to", &slice_to.to_string(), "--step", &nworkers.to_string(), "--progress", &progress]);
                    if allow_huge { cmd.arg("--allow-huge"); }
                    // the worker stops taking new cases when the wall budget of the run is used up
                    let remaining = wall.saturating_sub(start.elapsed()).as_secs_f64().max(1.0);
                    cmd.args(["--stop-after", &format!("{:.0}", remaining)]);
                    let out = cmd.stderr(std::process::Stdio::piped()).stdout(std::process::Stdio::null()).output();
                    let Ok(out) = out else { l.note("could not spawn worker"); break };
                    if out.status.success() {
                        if let Ok(t) = std::fs::read_to_string(format!("{}/{}", cfg.out, res)) { merge_worker(&mut l, &t); }
                        from = slice_to + ((w as u64 + nworkers as u64 - slice_to % nworkers as u64) % nworkers as u64);
                        continue;
                    }
                    // abnormal exit: attribute to the in-flight case
                    restarts += 1;
                    let prog = std::fs::read_to_string(&progress).unwrap_or_default();
                    let mut it = prog.split_whitespace();
                    let case: u64 = it.next().and_then(|x| x.parse().ok()).unwrap_or(from);
                    let target = it.next().unwrap_or("?").to_string();
                    use std::os::unix::process::ExitStatusExt;
                    let stderr_tail: String = String::from_utf8_lossy(&out.stderr).chars().rev().take(400).collect::<String>().chars().rev().collect();
                    let hang = std::path::Path::new(&format!("{}.hang", progress)).exists();
                    let gen = case_generator(cfg.seed, case, &target, allow_huge);
                    if hang {
                        // not a verdict yet: with several workers zero-filling gigabytes at the same
                        // time a slow case can exceed the budget; it is re-run alone afterwards
                        hang_candidates.lock().unwrap().push((case, target.clone(), gen.clone()));
                    } else if let Some(sig) = out.status.signal() {
                        let kind = if stderr_tail.contains("overflowed its stack") { "stack-overflow".to_string() } else if stderr_tail.contains("memory allocation") { "alloc-failure".to_string() } else { format!("signal{}", sig) };
                        if sig == 9 {
                            // SIGKILL: the kernel's OOM killer (or an operator): never a verdict
                            l.note(format!("worker {} was killed (SIGKILL) on case {} ({}): inconclusive for that case", w, case, target));
                            l.count("cases_inconclusive_sigkill", 1);
                        } else {
                            l.violation(format!("abort|{}|{}|gen={}", kind, target, gen), format!("{} aborted the process (signal {}) on case {}: {}", target, sig, case, stderr_tail.replace('\n', " ")), json!({"seed": cfg.seed, "stream": 5, "case": case, "target": target}));
                        }
                    } else {
                        l.note(format!("worker {} exited with {:?} on case {}", w, out.status.code(), case));
                        l.count("worker_unexplained_exits", 1);
                    }
                    // partial results of the dead worker are lost; count the case and go on
                    l.eval();
                    from = case + nworkers as u64;
                }
                l
            })
        }).collect();
        hs.into_iter().map(|h| h.join().unwrap_or_else(|_| Local::new())).collect()
    });
    for r in results { total_local.merge(r); }
    // cases that exceeded the CPU budget: re-run each one alone (nothing else running) with twice
    // the budget; only a case that exceeds it again is reported as a hang
    let mut cands = hang_candidates.lock().unwrap().clone();
    cands.sort();
    cands.dedup();
    if cands.len() > 6 {
        total_local.note(format!("{} hang candidates; only the first 6 are re-run alone, the rest stay unjudged", cands.len()));
        total_local.count("hang_candidates_not_rerun", cands.len() as u64 - 6);
        cands.truncate(6);
    }
    for (case, target, gen) in cands {
        // calibrate immediately before: the budget of the isolated re-run is at least ten times the
        // present cost of filling 4 GiB (a case performs at most a handful of such fills)
        let _ = std::fs::remove_file(format!("{}/calibrate.txt", cfg.out));
        let _ = std::process::Command::new(&exe).env("GLIBC_TUNABLES", "glibc.malloc.hugetlb=1")
            .args(["C05", "--calibrate", "--out", &cfg.out, "--result", "calibrate.json"])
            .stderr(std::process::Stdio::null()).stdout(std::process::Stdio::null()).status();
        let t_cal: f64 = std::fs::read_to_string(format!("{}/calibrate.txt", cfg.out)).ok().and_then(|t| t.trim().parse().ok()).unwrap_or(0.0);
        let alone_budget = (2.0 * cpu_budget()).max(10.0 * t_cal);
        total_local.note(format!("hang candidate case {}: 4 GiB fill costs {:.1} s CPU right now; budget alone {:.0} s", case, t_cal, alone_budget));
        let progress = format!("{}/confirm.progress", cfg.out);
        let _ = std::fs::remove_file(format!("{}.hang", progress));
        let mut cmd = std::process::Command::new(&exe);
        cmd.env("GLIBC_TUNABLES", "glibc.malloc.hugetlb=1");
        cmd.env("VERIF_C05_BUDGET", format!("{}", alone_budget));
        cmd.args(["C05", "--worker", "--seed", &cfg.seed.to_string(), "--out", &cfg.out, "--result", "confirm_worker.json", "--from", &case.to_string(), "--to", &(case + 1).to_string(), "--step", "1", "--progress", &progress]);
        if allow_huge { cmd.arg("--allow-huge"); }
        let st = cmd.stderr(std::process::Stdio::null()).stdout(std::process::Stdio::null()).status();
        let hung_again = std::path::Path::new(&format!("{}.hang", progress)).exists();
        match st {
            Ok(_) if hung_again => {
                total_local.violation(format!("hang|{}|gen={}", target, gen), format!("{} exceeded the CPU budget of {} s on case {} (and {:.0} s when re-run alone; filling 4 GiB cost {:.1} s at that moment)", target, cpu_budget(), case, alone_budget, t_cal), json!({"seed": cfg.seed, "stream": 5, "case": case, "target": target}));
            }
            Ok(_) => {
                total_local.count("cases_slow_only_under_contention", 1);
                total_local.note(format!("case {} ({}) exceeded the CPU budget next to other workers but not when re-run alone: not a hang", case, target));
            }
            Err(_) => total_local.note("could not spawn the confirmation worker"),
        }
    }
    if start.elapsed() >= wall { total_local.note("wall budget reached; remaining cases not run"); }
    let mut o = Outcome::new(
        total_local,
        "seeded structure-aware mutation of valid files (G-DS in 4 syntaxes; images: native, encapsulated uncompressed, deflated frame, JPEG from the repository's encoders, hand-made RLE), data set streams, JSON documents, PDUs and strings; 14 entry-point targets (from_reader ± preamble, OpenFileOptions variants, FileMetaTable, DataSetReader × TS × flexible × value strategies × odd-length strategies, lazy reader with skip/into_owned, collector operations in random order, JSON from_str/from_slice/from_value, read_pdu strict/non-strict at 5 maxima, read_pdu_from_wire, pixel decoding whole/per frame/to_vec/to_dynamic_image, dump in text and JSON, tag/selector/date/time/range parsers, deep nesting, declared lengths near 2^32); each case in a worker subprocess on an 8 MiB-stack thread: panic = violation, abnormal process exit = violation attributed to the in-flight case, thread CPU time over the budget (60 s, and 120 s again when the case is re-run alone) = violation; SIGKILL and wall watchdog = inconclusive; class = (target, seed kind + mutator)",
    );
    // floors against a vacuous run; low enough for a heavily loaded machine
    o.min_evaluations = if cfg.thorough() { 20_000 } else { 1_500 };
    o.min_classes = 60;
    o
}

fn case_generator(seed: u64, case: u64, target: &str, _allow_huge: bool) -> String {
    // cheap, deterministic re-derivation of the generator class for crash witnesses
    if target == "nesting" {
        let mut rng = Rng::derive(seed, 5, case);
        let _ = rng.next_u64();
        let depth = 1usize << rng.range(4, 17);
        return format!("nesting-2^{}", depth.trailing_zeros());
    }
    if target == "from_reader_big_len" { return "huge-length".into(); }
    "mutated".into()
}

fn merge_worker(l: &mut Local, text: &str) {
    let Ok(v) = serde_json::from_str::<J>(text) else { return };
    l.evaluations += v["evaluations"].as_u64().unwrap_or(0);
    if let Some(c) = v["classes_head"].as_array() { for x in c { if let Some(s) = x.as_str() { l.class(s.to_string()); } } }
    if let Some(c) = v["counters"].as_object() { for (k, x) in c { l.count(k, x.as_u64().unwrap_or(0)); } }
    if let Some(s) = v["samples"].as_array() { for x in s { l.sample(x.clone()); } }
    if let Some(vs) = v["violations"].as_array() {
        for x in vs {
            let key = x["key"].as_str().unwrap_or("?").to_string();
            let e = l.violations.entry(key).or_default();
            if e.count == 0 { e.what = x["what"].as_str().unwrap_or("").to_string(); e.replay = x["replay"].clone(); }
            e.count += x["count"].as_u64().unwrap_or(1);
        }
    }
}
