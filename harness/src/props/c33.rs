use crate::report::*;
pub fn run(_cfg: &Cfg) -> Outcome {
    Outcome::new(Local::new(), "stub")
}
