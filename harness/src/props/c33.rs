//! C33 — the storage SCU sends each file on a matching presentation context.
//!
//! Observation: the real `dicom-storescu` binary (synchronous, and asynchronous with `-c N`; with
//! and without `--never-transcode`) sending 1–6 generated files to a *recording acceptor* that the
//! harness implements on the PDU level (dicom-ul `read_pdu_from_wire` / `write_pdu` over a loopback
//! TcpListener on an ephemeral port). The acceptor's policy is a random matrix
//! abstract syntax -> accepted transfer syntaxes (or promiscuous), which a global-list acceptor
//! could not express. For every C-STORE-RQ it records the presentation context id of the command
//! and of every data fragment, the command set and the reassembled data set bytes.
//!
//! Monitor, per recorded C-STORE:
//!  * the context id must be one the acceptor accepted on that association   (`ctx-not-accepted`)
//!  * data fragments travel on the command's context                         (`data-on-other-context`)
//!  * the context's abstract syntax must be the file's SOP class            (`abstract-syntax-mismatch`)
//!  * the bytes, decoded in the context's transfer syntax (dicom-object), must equal the file's data
//!    set (cmp, N1-N4); when the file had encapsulated pixel data and the context is native, pixel
//!    data must be the decoded frames (little endian, frame after frame)     (`decode-*`)
//! O-PARSE leg (driver): for sends in the file's own transfer syntax, file body vs received bytes.

use crate::cmp::{cmp_dataset, Ctx};
use crate::gen::ds::{gen_dataset, DsOpts};
use crate::gen::tree::*;
use crate::proc::{self, RunError, Scratch};
use crate::props::c32::{gen_instance_ds, is_encapsulated, parse_command, sq_tag_list};
use crate::props::c35::{ts_name, write_file, TS_BE, TS_DEFLATED, TS_ENCAP_UNCOMPRESSED, TS_EXPLICIT, TS_IMPLICIT, TS_RLE};
use crate::report::*;
use crate::rng::Rng;
use bytes::BytesMut;
use dicom_core::value::Value as DValue;
use dicom_core::{dicom_value, DataElement, Tag, VR};
use dicom_dictionary_std::tags;
use dicom_encoding::TransferSyntaxIndex;
use dicom_object::InMemDicomObject;
use dicom_transfer_syntax_registry::entries::IMPLICIT_VR_LITTLE_ENDIAN;
use dicom_transfer_syntax_registry::TransferSyntaxRegistry;
use dicom_ul::association::read_pdu_from_wire;
use dicom_ul::pdu::{
    AssociationAC, PDataValue, PDataValueType, PresentationContextResult, PresentationContextResultReason,
    UserVariableItem,
};
use dicom_ul::{write_pdu, Pdu};
use serde_json::{json, Value};
use std::collections::{BTreeMap, BTreeSet};
use std::io::Write;
use std::net::{TcpListener, TcpStream};
use std::path::Path;
use std::process::Command;
use std::sync::atomic::{AtomicBool, Ordering};
use std::sync::{Arc, Mutex};
use std::time::{Duration, Instant};

const CLASSES: [&str; 6] = [
    "1.2.840.10008.5.1.4.1.1.2",     // CT
    "1.2.840.10008.5.1.4.1.1.4",     // MR
    "1.2.840.10008.5.1.4.1.1.7",     // Secondary Capture
    "1.2.840.10008.5.1.4.1.1.1.1",   // DX for presentation
    "1.2.840.10008.5.1.4.1.1.88.11", // Basic Text SR
    "1.2.826.0.1.3680043.9.7777.2",  // private class
];
const ALL_TS: [&str; 6] = [TS_IMPLICIT, TS_EXPLICIT, TS_BE, TS_DEFLATED, TS_ENCAP_UNCOMPRESSED, TS_RLE];

// ------------------------------------------------------------------------------------------------
// acceptor
// ------------------------------------------------------------------------------------------------

#[derive(Clone, Debug)]
struct Policy {
    kind: &'static str,
    /// abstract syntax -> accepted transfer syntaxes (in the acceptor's order of preference)
    matrix: BTreeMap<String, Vec<String>>,
    /// accepted for abstract syntaxes not in the matrix (None = reject them)
    promiscuous: Option<Vec<String>>,
    /// pick the requestor's first acceptable TS (true) or the acceptor's preferred one
    requestor_order: bool,
    max_pdu: u32,
}

impl Policy {
    fn decide(&self, abstract_syntax: &str, proposed: &[String]) -> Result<String, PresentationContextResultReason> {
        let acc = match self.matrix.get(abstract_syntax) {
            Some(a) => a,
            None => match &self.promiscuous {
                Some(a) => a,
                None => return Err(PresentationContextResultReason::AbstractSyntaxNotSupported),
            },
        };
        let hit = if self.requestor_order {
            proposed.iter().find(|t| acc.iter().any(|a| a == *t)).cloned()
        } else {
            acc.iter().find(|a| proposed.iter().any(|t| t == *a)).cloned()
        };
        hit.ok_or(PresentationContextResultReason::TransferSyntaxesNotSupported)
    }
    fn json(&self) -> Value {
        json!({"kind": self.kind, "matrix": self.matrix.iter().map(|(k, v)| (k.clone(), json!(v.iter().map(|t| ts_name(t)).collect::<Vec<_>>()))).collect::<serde_json::Map<_, _>>(),
               "promiscuous": self.promiscuous.as_ref().map(|v| v.iter().map(|t| ts_name(t)).collect::<Vec<_>>()),
               "requestor_order": self.requestor_order, "max_pdu": self.max_pdu})
    }
}

#[derive(Debug, Default, Clone)]
struct StoreRec {
    cmd_ctx: u8,
    data_ctxs: BTreeSet<u8>,
    cmd: Vec<u8>,
    data: Vec<u8>,
    data_pdvs: usize,
    complete: bool,
}

#[derive(Debug, Default, Clone)]
struct AssocRec {
    proposed: Vec<(u8, String, Vec<String>)>,
    accepted: BTreeMap<u8, (String, String)>,
    stores: Vec<StoreRec>,
    end: String,
}

fn trim_uid(s: &str) -> String {
    s.trim_end_matches(['\0', ' ']).to_string()
}

fn store_rsp(class: &str, inst: &str, msg_id: u16, status: u16) -> Vec<u8> {
    let obj = InMemDicomObject::command_from_element_iter([
        DataElement::new(tags::AFFECTED_SOP_CLASS_UID, VR::UI, dicom_value!(Str, class)),
        DataElement::new(tags::COMMAND_FIELD, VR::US, dicom_value!(U16, [0x8001])),
        DataElement::new(tags::MESSAGE_ID_BEING_RESPONDED_TO, VR::US, dicom_value!(U16, [msg_id])),
        DataElement::new(tags::COMMAND_DATA_SET_TYPE, VR::US, dicom_value!(U16, [0x0101])),
        DataElement::new(tags::STATUS, VR::US, dicom_value!(U16, [status])),
        DataElement::new(tags::AFFECTED_SOP_INSTANCE_UID, VR::UI, dicom_value!(Str, inst)),
    ]);
    let mut v = Vec::new();
    obj.write_dataset_with_ts(&mut v, &IMPLICIT_VR_LITTLE_ENDIAN.erased()).expect("response");
    v
}

fn send(stream: &mut TcpStream, pdu: &Pdu) -> std::io::Result<()> {
    let mut buf = Vec::new();
    write_pdu(&mut buf, pdu).map_err(|e| std::io::Error::other(format!("{}", e)))?;
    stream.write_all(&buf)
}

fn cmd_str(o: &InMemDicomObject, t: Tag) -> String {
    o.element(t).ok().and_then(|e| e.to_str().ok().map(|s| trim_uid(&s))).unwrap_or_default()
}

/// One association on the acceptor side; returns what was observed.
fn serve(mut stream: TcpStream, policy: &Policy) -> AssocRec {
    let mut rec = AssocRec::default();
    let _ = stream.set_read_timeout(Some(Duration::from_secs(20)));
    let _ = stream.set_write_timeout(Some(Duration::from_secs(20)));
    let _ = stream.set_nodelay(true);
    let mut buf = BytesMut::with_capacity(65536);
    let max = dicom_ul::pdu::MAXIMUM_PDU_SIZE;
    let rq = match read_pdu_from_wire(&mut stream, &mut buf, max, false) {
        Ok(Pdu::AssociationRQ(rq)) => rq,
        Ok(other) => {
            rec.end = format!("unexpected first PDU {}", other.short_description());
            return rec;
        }
        Err(e) => {
            rec.end = format!("no association request: {}", e);
            return rec;
        }
    };
    let mut results = Vec::new();
    for pc in &rq.presentation_contexts {
        let a = trim_uid(&pc.abstract_syntax);
        let tss: Vec<String> = pc.transfer_syntaxes.iter().map(|t| trim_uid(t)).collect();
        rec.proposed.push((pc.id, a.clone(), tss.clone()));
        match policy.decide(&a, &tss) {
            Ok(ts) => {
                rec.accepted.insert(pc.id, (a, ts.clone()));
                results.push(PresentationContextResult {
                    id: pc.id,
                    reason: PresentationContextResultReason::Acceptance,
                    transfer_syntax: ts,
                });
            }
            Err(reason) => results.push(PresentationContextResult {
                id: pc.id,
                reason,
                transfer_syntax: TS_IMPLICIT.to_string(),
            }),
        }
    }
    let ac = Pdu::AssociationAC(AssociationAC {
        protocol_version: 1,
        calling_ae_title: rq.calling_ae_title.clone(),
        called_ae_title: rq.called_ae_title.clone(),
        application_context_name: rq.application_context_name.clone(),
        presentation_contexts: results,
        user_variables: vec![
            UserVariableItem::MaxLength(policy.max_pdu),
            UserVariableItem::ImplementationClassUID("1.2.826.0.1.3680043.9.7777.0".into()),
            UserVariableItem::ImplementationVersionName("VERIF-ACCEPTOR".into()),
        ],
    });
    if let Err(e) = send(&mut stream, &ac) {
        rec.end = format!("could not send AC: {}", e);
        return rec;
    }
    let mut cmd_buf: Vec<u8> = Vec::new();
    let mut cmd_ctx = 0u8;
    let mut current: Option<(StoreRec, String, String, u16)> = None;
    loop {
        let pdu = match read_pdu_from_wire(&mut stream, &mut buf, max, false) {
            Ok(p) => p,
            Err(e) => {
                let msg = format!("{:?}", e);
                rec.end = if msg.contains("TimedOut") || msg.contains("WouldBlock") {
                    "timeout".into()
                } else {
                    "closed".into()
                };
                break;
            }
        };
        match pdu {
            Pdu::PData { data } => {
                for pdv in data {
                    match pdv.value_type {
                        PDataValueType::Command => {
                            if cmd_buf.is_empty() {
                                cmd_ctx = pdv.presentation_context_id;
                            }
                            cmd_buf.extend_from_slice(&pdv.data);
                            if !pdv.is_last {
                                continue;
                            }
                            let cmd = std::mem::take(&mut cmd_buf);
                            let Some(obj) = parse_command(&cmd) else { continue };
                            let field = obj.element(tags::COMMAND_FIELD).ok().and_then(|e| e.to_int::<u16>().ok());
                            let msg_id = obj.element(tags::MESSAGE_ID).ok().and_then(|e| e.to_int::<u16>().ok()).unwrap_or(0);
                            let has_data = obj
                                .element(tags::COMMAND_DATA_SET_TYPE)
                                .ok()
                                .and_then(|e| e.to_int::<u16>().ok())
                                .map(|v| v != 0x0101)
                                .unwrap_or(true);
                            if field == Some(0x0001) {
                                if let Some((s, ..)) = current.take() {
                                    rec.stores.push(s); // previous one never completed
                                }
                                let s = StoreRec { cmd_ctx, cmd: cmd.clone(), ..Default::default() };
                                let class = cmd_str(&obj, tags::AFFECTED_SOP_CLASS_UID);
                                let inst = cmd_str(&obj, tags::AFFECTED_SOP_INSTANCE_UID);
                                current = Some((s, class, inst, msg_id));
                                if !has_data {
                                    let (s, ..) = current.take().unwrap();
                                    rec.stores.push(s);
                                }
                            }
                        }
                        PDataValueType::Data => {
                            let Some((s, class, inst, msg_id)) = current.as_mut() else { continue };
                            s.data_ctxs.insert(pdv.presentation_context_id);
                            s.data.extend_from_slice(&pdv.data);
                            s.data_pdvs += 1;
                            if pdv.is_last {
                                s.complete = true;
                                let rsp = Pdu::PData {
                                    data: vec![PDataValue {
                                        presentation_context_id: s.cmd_ctx,
                                        value_type: PDataValueType::Command,
                                        is_last: true,
                                        data: store_rsp(class, inst, *msg_id, 0),
                                    }],
                                };
                                let (s, ..) = current.take().unwrap();
                                rec.stores.push(s);
                                if send(&mut stream, &rsp).is_err() {
                                    rec.end = "could not send response".into();
                                    return rec;
                                }
                            }
                        }
                    }
                }
            }
            Pdu::ReleaseRQ => {
                let _ = send(&mut stream, &Pdu::ReleaseRP);
                rec.end = "release".into();
                break;
            }
            Pdu::AbortRQ { .. } => {
                rec.end = "abort".into();
                break;
            }
            _ => {}
        }
    }
    if let Some((s, ..)) = current.take() {
        rec.stores.push(s);
    }
    rec
}

// ------------------------------------------------------------------------------------------------
// files
// ------------------------------------------------------------------------------------------------

struct FileSpec {
    name: String,
    class: String,
    inst: String,
    ts: String,
    /// tree as written to the file
    ds: GDataset,
    /// for files with an image in an encapsulated TS: native pixel bytes after decoding
    native_pixels: Option<Vec<u8>>,
    image: Option<String>,
}

fn us(tag: (u16, u16), v: u16) -> GElem {
    GElem { tag, vr: VR::US, val: GVal::U16(vec![v]) }
}
fn txt(tag: (u16, u16), vr: VR, v: &str) -> GElem {
    GElem { tag, vr, val: GVal::Strs(vec![v.to_string()]) }
}

/// PackBits, row by row (PS3.5 Annex G.3/G.4), mixing replicate and literal runs
fn packbits(rows: &[&[u8]]) -> Vec<u8> {
    let mut out = Vec::new();
    for row in rows {
        let mut i = 0;
        while i < row.len() {
            let mut run = 1;
            while i + run < row.len() && row[i + run] == row[i] && run < 128 {
                run += 1;
            }
            if run >= 2 {
                out.push((257 - run) as u8);
                out.push(row[i]);
                i += run;
            } else {
                let start = i;
                i += 1;
                while i < row.len() && i - start < 128 && !(i + 1 < row.len() && row[i] == row[i + 1]) {
                    i += 1;
                }
                out.push((i - start - 1) as u8);
                out.extend_from_slice(&row[start..i]);
            }
        }
    }
    if out.len() % 2 == 1 {
        out.push(0);
    }
    out
}

/// one RLE frame: 64-byte header + segments (byte planes, most significant byte first)
fn rle_frame(samples: &[u16], rows: usize, cols: usize, bits: u16) -> Vec<u8> {
    let nbytes = (bits / 8) as usize;
    let mut segs: Vec<Vec<u8>> = Vec::new();
    for b in (0..nbytes).rev() {
        let plane: Vec<u8> = samples.iter().map(|s| (s >> (8 * b)) as u8).collect();
        let rws: Vec<&[u8]> = (0..rows).map(|r| &plane[r * cols..(r + 1) * cols]).collect();
        segs.push(packbits(&rws));
    }
    let mut out = vec![0u8; 64];
    out[0..4].copy_from_slice(&(segs.len() as u32).to_le_bytes());
    let mut off = 64u32;
    for (i, s) in segs.iter().enumerate() {
        out[4 + 4 * i..8 + 4 * i].copy_from_slice(&off.to_le_bytes());
        off += s.len() as u32;
    }
    for s in segs {
        out.extend_from_slice(&s);
    }
    out
}

/// A file with a coherent monochrome image in an encapsulated transfer syntax.
fn gen_image_file(rng: &mut Rng, ts: &str, class: &str, inst: &str) -> (GDataset, Vec<u8>, String) {
    let mut o = DsOpts::default();
    o.pixel = false;
    o.xs_case = false;
    o.big = false;
    o.max_elems = 10;
    let mut ds: Vec<GElem> = gen_dataset(rng, &o)
        .into_iter()
        .filter(|e| {
            !(e.tag.0 == 0x0028
                || e.tag.0 == 0x5200
                || e.tag.0 == 0x7FE0
                || e.tag == (0x0008, 0x0016)
                || e.tag == (0x0008, 0x0018))
        })
        .collect();
    let bits: u16 = *rng.pick(&[8u16, 16]);
    let (rows, cols) = (rng.urange(1, 12), rng.urange(1, 12));
    let frames = rng.urange(1, 3);
    let n = rows * cols;
    let all: Vec<Vec<u16>> = (0..frames)
        .map(|_| {
            (0..n)
                .map(|i| {
                    // runs and byte-asymmetric values
                    let v = if rng.chance(1, 3) { 0x0102 } else { rng.next_u32() as u16 };
                    let v = if i % 5 == 4 { 0x0304 } else { v };
                    if bits == 8 {
                        v & 0xFF
                    } else {
                        v
                    }
                })
                .collect()
        })
        .collect();
    let frame_bytes = |f: &Vec<u16>| -> Vec<u8> {
        if bits == 8 {
            f.iter().map(|x| *x as u8).collect()
        } else {
            f.iter().flat_map(|x| x.to_le_bytes()).collect()
        }
    };
    let native: Vec<u8> = all.iter().flat_map(|f| frame_bytes(f)).collect();
    let frags: Vec<Vec<u8>> = if ts == TS_RLE {
        all.iter().map(|f| rle_frame(f, rows, cols, bits)).collect()
    } else {
        all.iter().map(|f| frame_bytes(f)).collect()
    };
    let bot: Vec<u32> = if rng.bool() {
        let mut t = Vec::new();
        let mut off = 0u32;
        for f in &frags {
            t.push(off);
            off += 8 + (f.len() + f.len() % 2) as u32;
        }
        t
    } else {
        Vec::new()
    };
    ds.push(txt((0x0008, 0x0016), VR::UI, class));
    ds.push(txt((0x0008, 0x0018), VR::UI, inst));
    ds.push(us((0x0028, 0x0002), 1));
    ds.push(txt((0x0028, 0x0004), VR::CS, *rng.pick(&["MONOCHROME2", "MONOCHROME1"])));
    ds.push(txt((0x0028, 0x0008), VR::IS, &frames.to_string()));
    ds.push(us((0x0028, 0x0010), rows as u16));
    ds.push(us((0x0028, 0x0011), cols as u16));
    ds.push(us((0x0028, 0x0100), bits));
    ds.push(us((0x0028, 0x0101), bits));
    ds.push(us((0x0028, 0x0102), bits - 1));
    ds.push(us((0x0028, 0x0103), 0));
    ds.push(GElem { tag: (0x7FE0, 0x0010), vr: VR::OB, val: GVal::Pix { bot, frags } });
    ds.sort_by_key(|e| e.tag);
    ds.dedup_by_key(|e| e.tag);
    let parity = if (n * (bits as usize / 8)) % 2 == 1 { "odd" } else { "even" };
    (ds, native, format!("bits={}|frame-bytes={}|frames={}", bits, parity, if frames == 1 { "1" } else { "n" }))
}

fn gen_file(rng: &mut Rng, k: usize, idx: u64, class: &str, ts: &str) -> FileSpec {
    let inst = format!("1.2.826.0.1.3680043.9.33.{}.{}.{}", idx + 1, k + 1, rng.below(1_000_000));
    let (ds, native, image) = if is_encapsulated(ts) && rng.chance(3, 4) {
        let (ds, native, info) = gen_image_file(rng, ts, class, &inst);
        (ds, Some(native), Some(info))
    } else {
        // any data set; an encapsulated TS then carries arbitrary fragments (or no pixel data),
        // which can only be sent as they are
        (gen_instance_ds(rng, ts, class, &inst, false), None, None)
    };
    FileSpec { name: format!("f{}.dcm", k), class: class.to_string(), inst, ts: ts.to_string(), ds, native_pixels: native, image }
}

// ------------------------------------------------------------------------------------------------
// scenario
// ------------------------------------------------------------------------------------------------

fn random_subset(rng: &mut Rng, of: &[&str], p_num: u64, p_den: u64) -> Vec<String> {
    let mut v: Vec<String> = of.iter().filter(|_| rng.chance(p_num, p_den)).map(|s| s.to_string()).collect();
    rng.shuffle(&mut v);
    v
}

fn gen_policy(rng: &mut Rng, files: &[FileSpec], directed: bool) -> Policy {
    let max_pdu = *rng.pick(&[1018u32, 4096, 16378, 16378, 65536]);
    let requestor_order = rng.bool();
    let classes: BTreeSet<String> = files.iter().map(|f| f.class.clone()).collect();
    if directed && classes.len() >= 2 {
        // the suspected weakness: class A (first file) is offered nothing it can use directly,
        // another class is accepted with Implicit VR LE
        let a = files[0].class.clone();
        let mut matrix = BTreeMap::new();
        let variant = rng.usize(3);
        match variant {
            0 => {} // class A not supported at all
            1 => {
                matrix.insert(a.clone(), vec![TS_IMPLICIT.to_string()]);
            }
            _ => {
                matrix.insert(a.clone(), vec![TS_BE.to_string()]); // never proposed for this file
            }
        }
        for c in classes.iter().filter(|c| **c != a) {
            matrix.insert(c.clone(), vec![TS_IMPLICIT.to_string()]);
        }
        return Policy {
            kind: match variant {
                0 => "directed:A-rejected,B-implicit",
                1 => "directed:A-implicit,B-implicit",
                _ => "directed:A-unusable-ts,B-implicit",
            },
            matrix,
            promiscuous: None,
            requestor_order,
            max_pdu,
        };
    }
    match rng.usize(5) {
        0 => Policy {
            kind: "promiscuous",
            matrix: BTreeMap::new(),
            promiscuous: Some({
                let mut v = random_subset(rng, &ALL_TS, 1, 2);
                if v.is_empty() {
                    v.push(TS_IMPLICIT.to_string());
                }
                v
            }),
            requestor_order,
            max_pdu,
        },
        1 => {
            // global lists, like ServerAssociationOptions
            let tss = {
                let mut v = random_subset(rng, &ALL_TS, 1, 2);
                if v.is_empty() {
                    v.push(TS_EXPLICIT.to_string());
                }
                v
            };
            let mut matrix = BTreeMap::new();
            for c in CLASSES {
                if rng.chance(2, 3) {
                    matrix.insert(c.to_string(), tss.clone());
                }
            }
            Policy { kind: "global-lists", matrix, promiscuous: None, requestor_order, max_pdu }
        }
        _ => {
            let mut matrix = BTreeMap::new();
            for c in CLASSES {
                if rng.chance(4, 5) {
                    let v = match rng.usize(4) {
                        0 => vec![TS_IMPLICIT.to_string()],
                        1 => vec![TS_EXPLICIT.to_string()],
                        _ => random_subset(rng, &ALL_TS, 2, 5),
                    };
                    matrix.insert(c.to_string(), v);
                }
            }
            Policy {
                kind: "matrix",
                matrix,
                promiscuous: if rng.chance(1, 5) { Some(vec![TS_IMPLICIT.to_string()]) } else { None },
                requestor_order,
                max_pdu,
            }
        }
    }
}

fn pixel_bytes_of(obj: &InMemDicomObject) -> Option<Vec<u8>> {
    let e = obj.element(Tag(0x7FE0, 0x0010)).ok()?;
    match e.value() {
        DValue::Primitive(p) => Some(p.to_bytes().to_vec()),
        _ => None,
    }
}

fn one_case(cfg: &Cfg, l: &mut Local, rng: &mut Rng, idx: u64, oparse: &Mutex<Option<std::fs::File>>) {
    let Ok(storescu) = proc::tool(cfg, "dicom-storescu") else {
        l.count("tools_missing", 1);
        return;
    };
    let directed = rng.chance(1, 4);
    // files
    let n_files = if directed { rng.urange(2, 4) } else { rng.urange(1, 6) };
    let mut files: Vec<FileSpec> = Vec::new();
    let n_classes = rng.urange(1, 3);
    let mut pool: Vec<&str> = CLASSES.to_vec();
    rng.shuffle(&mut pool);
    for k in 0..n_files {
        let (class, ts) = if directed && k == 0 {
            (pool[0], *rng.pick(&[TS_RLE, TS_ENCAP_UNCOMPRESSED, TS_DEFLATED, TS_RLE, TS_ENCAP_UNCOMPRESSED]))
        } else if directed && k == 1 {
            (pool[1], *rng.pick(&ALL_TS))
        } else {
            (pool[rng.usize(n_classes.max(if directed { 2 } else { 1 }))], *rng.pick(&ALL_TS))
        };
        files.push(gen_file(rng, k, idx, class, ts));
    }
    let policy = gen_policy(rng, &files, directed);
    let never_transcode = rng.chance(1, 3);
    let concurrency: Option<usize> = if rng.bool() { Some(rng.urange(1, 3)) } else { None };
    let mode = if concurrency.is_some() { "async" } else { "sync" };
    let fail_first = rng.chance(1, 5);
    let verbose = rng.chance(1, 4);
    let scu_max_pdu = *rng.pick(&[1018u32, 16378, 16378, 65536]);
    let as_directory = rng.chance(1, 4);

    let Ok(tmp) = Scratch::new(cfg, "c33", idx) else {
        l.count("scratch_errors", 1);
        return;
    };
    let fdir = tmp.path().join("files");
    let _ = std::fs::create_dir_all(&fdir);
    for f in &files {
        if let Err(e) = write_file(&f.ds, &f.ts, &f.class, &f.inst, &fdir.join(&f.name)) {
            l.note(format!("harness could not write an input file: {}", e));
            l.count("harness_errors", 1);
            return;
        }
    }
    let base_replay = json!({
        "seed": cfg.seed, "stream": 33, "case": idx,
        "storescu": {"mode": mode, "concurrency": concurrency, "never_transcode": never_transcode,
                     "fail_first": fail_first, "max_pdu_length": scu_max_pdu, "files_as_directory": as_directory},
        "acceptor_policy": policy.json(),
        "files": files.iter().map(|f| json!({"name": f.name, "sop_class": f.class, "sop_instance": f.inst,
                                               "ts": ts_name(&f.ts), "image": f.image})).collect::<Vec<_>>(),
    });

    // acceptor
    let Ok(listener) = TcpListener::bind("127.0.0.1:0") else {
        l.count("harness_errors", 1);
        return;
    };
    let port = listener.local_addr().map(|a| a.port()).unwrap_or(0);
    let _ = listener.set_nonblocking(true);
    let stop = Arc::new(AtomicBool::new(false));
    let records: Arc<Mutex<Vec<AssocRec>>> = Arc::new(Mutex::new(Vec::new()));
    let acceptor = {
        let stop = stop.clone();
        let records = records.clone();
        let policy = policy.clone();
        std::thread::spawn(move || {
            let mut handlers = Vec::new();
            while !stop.load(Ordering::Relaxed) {
                match listener.accept() {
                    Ok((s, _)) => {
                        let _ = s.set_nonblocking(false);
                        let policy = policy.clone();
                        let records = records.clone();
                        handlers.push(std::thread::spawn(move || {
                            let r = serve(s, &policy);
                            records.lock().unwrap().push(r);
                        }));
                    }
                    Err(_) => std::thread::sleep(Duration::from_millis(2)),
                }
            }
            for h in handlers {
                let _ = h.join();
            }
        })
    };

    // the tool
    let mut cmd = Command::new(&storescu);
    cmd.current_dir(tmp.path()).env("RUST_LOG", "info");
    cmd.arg(format!("127.0.0.1:{}", port));
    if as_directory {
        cmd.arg(&fdir);
    } else {
        for f in &files {
            cmd.arg(fdir.join(&f.name));
        }
    }
    cmd.arg("--max-pdu-length").arg(scu_max_pdu.to_string());
    if never_transcode {
        cmd.arg("--never-transcode");
    }
    if let Some(c) = concurrency {
        cmd.arg("-c").arg(c.to_string());
    }
    if fail_first {
        cmd.arg("--fail-first");
    }
    if verbose {
        cmd.arg("-v");
    }
    let started = Instant::now();
    let fin = proc::run_bounded(&mut cmd, &tmp.path().join("storescu"), Duration::from_secs(60));
    stop.store(true, Ordering::Relaxed);
    let _ = acceptor.join();
    let recs = std::mem::take(&mut *records.lock().unwrap());
    let fin = match fin {
        Ok(f) => f,
        Err(RunError::Timeout) => {
            l.count("watchdog_fired", 1);
            l.note("dicom-storescu exceeded the 60 s watchdog (scenario inconclusive; recorded stores are still checked)");
            proc::Finished { status: std::process::ExitStatus::default(), stdout: String::new(), stderr: "watchdog".into() }
        }
        Err(RunError::Spawn(e)) => {
            l.note(format!("could not spawn dicom-storescu: {}", e));
            l.count("spawn_errors", 1);
            return;
        }
    };
    let _ = started;
    l.count(&format!("scu_runs_{}", mode), 1);
    l.count(if fin.status.success() { "scu_exit_zero" } else { "scu_exit_nonzero" }, 1);
    l.count("associations", recs.len() as u64);
    l.count(&format!("policy_{}", policy.kind.split(':').next().unwrap_or("")), 1);
    if recs.iter().any(|r| r.end == "timeout") {
        l.count("watchdog_fired", 1);
        l.note("an acceptor connection saw no traffic for 20 s");
    }

    // --- monitor ---
    let mut sent_files: BTreeSet<usize> = BTreeSet::new();
    l.eval(); // the scenario itself (possibly without any store)
    for (ai, rec) in recs.iter().enumerate() {
        l.count("contexts_proposed", rec.proposed.len() as u64);
        l.count("contexts_accepted", rec.accepted.len() as u64);
        for st in &rec.stores {
            l.eval();
            l.count("cstore_received", 1);
            if !st.complete {
                l.count("cstore_incomplete", 1);
            }
            let cmd = parse_command(&st.cmd);
            let aff_inst = cmd.as_ref().map(|o| cmd_str(o, tags::AFFECTED_SOP_INSTANCE_UID)).unwrap_or_default();
            let aff_class = cmd.as_ref().map(|o| cmd_str(o, tags::AFFECTED_SOP_CLASS_UID)).unwrap_or_default();
            let ctx = rec.accepted.get(&st.cmd_ctx).cloned();
            let fi = files.iter().position(|f| f.inst == aff_inst);
            let mut replay = base_replay.clone();
            replay["association"] = json!({
                "index": ai,
                "proposed": rec.proposed.iter().map(|(id, a, t)| json!({"id": id, "abstract_syntax": a, "ts": t.iter().map(|x| ts_name(x)).collect::<Vec<_>>()})).collect::<Vec<_>>(),
                "accepted": rec.accepted.iter().map(|(id, (a, t))| json!({"id": id, "abstract_syntax": a, "ts": ts_name(t)})).collect::<Vec<_>>(),
            });
            replay["store"] = json!({
                "context_id": st.cmd_ctx, "data_context_ids": st.data_ctxs, "affected_sop_class_uid": aff_class,
                "affected_sop_instance_uid": aff_inst, "data_bytes": st.data.len(), "data_pdvs": st.data_pdvs,
                "complete": st.complete, "command_hex": hex(&st.cmd), "data_hex": hex_short(&st.data, 2048),
            });
            let ftag = |f: Option<usize>| f.map(|i| ts_name(&files[i].ts)).unwrap_or("?");
            // (a) accepted context
            let Some((ctx_as, ctx_ts)) = ctx else {
                l.violation(
                    format!("C33|ctx-not-accepted|mode={}", mode),
                    format!(
                        "C-STORE-RQ for {} on presentation context {} which the acceptor did not accept (accepted: {:?})",
                        aff_inst, st.cmd_ctx, rec.accepted.keys().collect::<Vec<_>>()
                    ),
                    replay,
                );
                continue;
            };
            // (b) data on the same context
            if st.data_ctxs.iter().any(|c| *c != st.cmd_ctx) {
                l.violation(
                    format!("C33|data-on-other-context|mode={}", mode),
                    format!("data fragments on contexts {:?}, command on {}", st.data_ctxs, st.cmd_ctx),
                    replay.clone(),
                );
            }
            // (c) which file
            let Some(fi) = fi else {
                l.violation(
                    format!("C33|unidentified-store|mode={}", mode),
                    format!("C-STORE-RQ with Affected SOP Instance UID {:?} which is none of the files", aff_inst),
                    replay,
                );
                continue;
            };
            let f = &files[fi];
            sent_files.insert(fi);
            let relation = if ctx_ts == f.ts {
                "own-ts"
            } else if !is_encapsulated(&f.ts) && !is_encapsulated(&ctx_ts) {
                "re-encoded"
            } else if is_encapsulated(&f.ts) && !is_encapsulated(&ctx_ts) {
                "pixel-decoded"
            } else {
                "pixel-encoded"
            };
            l.count(&format!("sent_{}", relation), 1);
            l.count(&format!("file_ts_{}", ts_name(&f.ts)), 1);
            l.count(&format!("ctx_ts_{}", ts_name(&ctx_ts)), 1);
            l.class(format!(
                "{}|nt={}|file={}|ctx={}|{}|{}|{}",
                mode,
                never_transcode as u8,
                ts_name(&f.ts),
                ts_name(&ctx_ts),
                relation,
                policy.kind,
                f.image.as_deref().unwrap_or("no-image")
            ));
            replay["file"] = json!({"name": f.name, "sop_class": f.class, "ts": ts_name(&f.ts), "image": f.image,
                                     "dataset": ds_json(&f.ds)});
            // (d) abstract syntax
            if ctx_as != f.class {
                let mut r = replay.clone();
                r["expected"] = json!({"abstract_syntax": f.class});
                r["observed"] = json!({"abstract_syntax": ctx_as, "transfer_syntax": ctx_ts});
                l.violation(
                    format!("C33|abstract-syntax-mismatch|ctx-ts={}|mode={}", ts_name(&ctx_ts), mode),
                    format!(
                        "file {} (SOP class {}, {}) was sent on context {} negotiated for abstract syntax {} ({}); acceptor policy {}",
                        f.name, f.class, ts_name(&f.ts), st.cmd_ctx, ctx_as, ts_name(&ctx_ts), policy.kind
                    ),
                    r,
                );
            }
            if aff_class != f.class {
                l.count("affected_sop_class_differs_from_file", 1);
            }
            if !st.complete {
                continue;
            }
            // (e) the bytes decode to the file's data set in the context's TS
            l.eval();
            let keyp = format!("file-ts={}|ctx-ts={}|mode={}", ts_name(&f.ts), ts_name(&ctx_ts), mode);
            let Some(ts) = TransferSyntaxRegistry.get(&ctx_ts) else {
                l.count("ctx_ts_unknown_to_harness", 1);
                continue;
            };
            let obj = match guarded(|| InMemDicomObject::read_dataset_with_ts(&st.data[..], ts)) {
                Ok(Ok(o)) => o,
                Ok(Err(e)) => {
                    let mut r = replay.clone();
                    r["observed"] = json!(format!("{:?}", e).chars().take(400).collect::<String>());
                    l.violation(
                        format!("C33|decode-error|{}", keyp),
                        format!("data set bytes of {} do not decode in {}: {}", f.name, ts_name(&ctx_ts), e),
                        r,
                    );
                    continue;
                }
                Err(p) => {
                    l.violation(
                        format!("C33|decode-panic|{}|{}", panic_loc(&p), keyp),
                        format!("decoding the received bytes panicked: {}", p),
                        replay.clone(),
                    );
                    continue;
                }
            };
            let cctx = Ctx { implicit: f.ts == TS_IMPLICIT || ctx_ts == TS_IMPLICIT, ..Default::default() };
            match relation {
                "own-ts" | "re-encoded" => {
                    if let Ok(Err(m)) = guarded(|| cmp_dataset(&f.ds, &obj, &cctx, "")) {
                        let mut r = replay.clone();
                        r["path"] = json!(m.path);
                        l.violation(
                            format!("C33|decode-mismatch|{}|{}|{}", m.key(), relation, keyp),
                            format!("received data set of {} differs from the file at {}: {}", f.name, m.path, m.detail),
                            r,
                        );
                    }
                }
                "pixel-decoded" => {
                    // everything but pixel data must be unchanged; pixel data = decoded frames
                    let exp: Vec<GElem> = f.ds.iter().filter(|e| e.tag != (0x7FE0, 0x0010)).cloned().collect();
                    let mut act = obj.clone();
                    act.remove_element(Tag(0x7FE0, 0x0010));
                    if let Ok(Err(m)) = guarded(|| cmp_dataset(&exp, &act, &cctx, "")) {
                        let mut r = replay.clone();
                        r["path"] = json!(m.path);
                        l.violation(
                            format!("C33|decode-mismatch|{}|{}|{}", m.key(), relation, keyp),
                            format!("received data set of {} (transcoded) differs from the file at {}: {}", f.name, m.path, m.detail),
                            r,
                        );
                    }
                    match (&f.native_pixels, pixel_bytes_of(&obj)) {
                        (Some(want), Some(got)) => {
                            let ok = got == *want || (want.len() % 2 == 1 && got.len() == want.len() + 1 && got[..want.len()] == want[..]);
                            if !ok {
                                let mut r = replay.clone();
                                r["expected"] = json!({"bytes": want.len(), "head": hex_short(want, 96)});
                                r["observed"] = json!({"bytes": got.len(), "head": hex_short(&got, 96)});
                                l.violation(
                                    // root cause lies in the pixel decoder: keyed on the image shape only
                                    format!(
                                        "C33|decode-mismatch|pixels|file-ts={}|{}",
                                        ts_name(&f.ts),
                                        f.image.as_deref().unwrap_or("")
                                    ),
                                    format!(
                                        "pixel data of {} transcoded from {} to {}: {} bytes expected, {} received; first difference at byte {:?}",
                                        f.name, ts_name(&f.ts), ts_name(&ctx_ts), want.len(), got.len(),
                                        want.iter().zip(got.iter()).position(|(a, b)| a != b)
                                    ),
                                    r,
                                );
                            }
                        }
                        (Some(_), None) => {
                            l.violation(
                                format!("C33|decode-mismatch|pixels-not-native|{}", keyp),
                                format!("{}: pixel data still encapsulated (or missing) on a native context", f.name),
                                replay.clone(),
                            );
                        }
                        (None, _) => {
                            // a file without a decodable image cannot be transcoded; the tool chose
                            // to send something anyway: all we can say is covered above
                            l.count("pixel_decoded_without_image_model", 1);
                        }
                    }
                }
                _ => {
                    l.count("pixel_encoded_not_modelled", 1);
                }
            }
            // O-PARSE record: own-TS sends, file body vs received bytes
            if relation == "own-ts" && st.data.len() < 300_000 {
                if let Ok(fb) = std::fs::read(fdir.join(&f.name)) {
                    if let Some(fh) = oparse.lock().unwrap().as_mut() {
                        let (sq_tags, amb) = sq_tag_list(&f.ds);
                        let rec = json!({
                            "prop": "C33", "stream": 33, "kind": "stream-vs-file", "case": idx, "seed": cfg.seed,
                            "mode": mode, "ts_uid": ctx_ts, "ts": ts_name(&ctx_ts), "sq_tags": sq_tags,
                            "sq_ambiguous": amb, "ref_file_hex": hex(&fb), "stream_hex": hex(&st.data),
                        });
                        let _ = writeln!(fh, "{}", rec);
                    }
                }
            }
        }
    }
    l.count("files_given", files.len() as u64);
    l.count("files_sent", sent_files.len() as u64);
    if l.want_sample() && idx % 5 == 0 {
        l.sample(json!({
            "case": idx, "mode": mode, "never_transcode": never_transcode, "policy": policy.json(),
            "files": files.iter().map(|f| format!("{}:{}:{}", f.name, f.class, ts_name(&f.ts))).collect::<Vec<_>>(),
            "stores": recs.iter().flat_map(|r| r.stores.iter().map(|s| json!({"ctx": s.cmd_ctx,
                "ctx_as_ts": r.accepted.get(&s.cmd_ctx).map(|(a, t)| format!("{} {}", a, ts_name(t))), "bytes": s.data.len()}))).collect::<Vec<_>>(),
            "exit": format!("{:?}", fin.status),
        }));
    }
}

pub fn run(cfg: &Cfg) -> Outcome {
    let rule = "real dicom-storescu (sync / -c N async; +/- --never-transcode, --fail-first, file list or directory) sending 1-6 generated files (6 SOP classes; Implicit/Explicit LE, Explicit BE, Deflated, Encapsulated Uncompressed, RLE with real mono images) to a PDU-level recording acceptor with a random abstract-syntax x transfer-syntax acceptance matrix (incl. the directed scenario: class A unusable, class B Implicit VR); per C-STORE: context accepted, abstract syntax = file's SOP class, bytes decode in the context TS to the file's data set (pixel data decoded for encapsulated->native); class = (mode, never-transcode, file TS, context TS, relation, policy kind, image shape)";
    if let Err(e) = proc::tool(cfg, "dicom-storescu") {
        let mut o = Outcome::new(Local::new(), rule);
        o.inconclusive = Some(e);
        return o;
    }
    let path = Path::new(&cfg.out).join("c33_oparse.jsonl");
    let oparse = Mutex::new(std::fs::File::create(&path).ok());
    let n = cfg.n(400, 9000);
    let local = run_parallel(
        cfg,
        33,
        RunLimits { cases: n, wall: Duration::from_secs(if cfg.thorough() { 780 } else { 100 }) },
        |l, rng, idx| one_case(cfg, l, rng, idx, &oparse),
    );
    let stores = local.counters.get("cstore_received").copied().unwrap_or(0);
    let watchdogs = local.counters.get("watchdog_fired").copied().unwrap_or(0);
    let mut o = Outcome::new(local, rule);
    o.min_evaluations = 200;
    o.min_classes = 30;
    if cfg.only_case.is_some() {
        // replay of a single scenario: no floors
    } else if stores < 50 {
        o.inconclusive = Some(format!("only {} C-STORE requests were received", stores));
    } else if watchdogs * 5 > n {
        o.inconclusive = Some(format!("{} scenarios hit a watchdog", watchdogs));
    }
    o
}
