//! C07 — odd declared lengths: `Accept` consumes exactly the declared bytes for every VR and
//! carries on at the right position, `NextEven` consumes one more byte, `Fail` errors; after
//! every token the reader's reported position equals the bytes consumed from the source.

use crate::gen::ds::{gen_dataset, pools, DsOpts, ALL_VRS};
use crate::gen::tree::*;
use crate::mon::probe::{CountingReader, Probe};
use crate::props::c01::four_ts;
use crate::refenc::{self, LenMode, OddOpts, Ts};
use crate::report::*;
use crate::rng::Rng;
use dicom_core::header::{HasLength, Header};
use dicom_core::value::PrimitiveValue;
use dicom_core::VR;
use dicom_parser::dataset::lazy_read::{LazyDataSetReader, LazyDataSetReaderOptions};
use dicom_parser::dataset::read::{DataSetReader, DataSetReaderOptions, OddLengthStrategy, ValueReadStrategy};
use dicom_parser::dataset::{DataToken, LazyDataToken};
use dicom_parser::StatefulDecoder;
use serde_json::json;
use std::cell::Cell;
use std::collections::HashSet;
use std::rc::Rc;
use std::time::Duration;

fn is_text(vr: VR) -> bool {
    refenc::pad_byte(vr) == b' ' || vr == VR::UI
}

fn sample_size(vr: VR) -> usize {
    match vr {
        VR::US | VR::SS | VR::OW => 2,
        VR::UL | VR::SL | VR::FL | VR::OL | VR::OF | VR::AT => 4,
        VR::FD | VR::OD | VR::SV | VR::UV | VR::OV => 8,
        _ => 1,
    }
}

/// raw value bytes of odd length for any VR
fn odd_raw(rng: &mut Rng, vr: VR, k: usize) -> Vec<u8> {
    if is_text(vr) {
        let alpha: &[u8] = match vr {
            VR::IS => b"0123456789",
            VR::DS => b"0123456789",
            VR::DA | VR::TM | VR::DT | VR::AS | VR::UI => b"0123456789",
            VR::CS => b"ABCDEFGHIJKLMNOPQRSTUVWXYZ_0123456789",
            _ => b"abcdefghijklmnopqrstuvwxyzABCDEFGHIJKLMNOPQRSTUVWXYZ0123456789",
        };
        let mut v: Vec<u8> = (0..k).map(|_| *rng.pick(alpha)).collect();
        if (vr == VR::IS || vr == VR::DS) && !v.is_empty() && v[0] == b'0' {
            v[0] = b'1';
        }
        v
    } else {
        rng.bytes(k)
    }
}

/// What the reader must report for `raw` under VR `vr` (Preserved strategy), as normalised text.
fn expected_value(vr: VR, raw: &[u8], big: bool) -> String {
    let n = raw.len();
    let s = sample_size(vr);
    if is_text(vr) {
        let t = String::from_utf8_lossy(raw).to_string();
        let t = t.trim_end_matches([' ', '\0']).to_string();
        return format!("text:{}", t);
    }
    let k = n / s;
    let mut out = String::new();
    match s {
        1 => return format!("bytes:{}", hex(raw)),
        _ => {
            for i in 0..k {
                let c = &raw[i * s..(i + 1) * s];
                let mut c = c.to_vec();
                if vr == VR::AT {
                    // two 16-bit halves
                    if big { c = vec![c[1], c[0], c[3], c[2]]; }
                    out += &format!("{},", hex(&c));
                    continue;
                }
                if big { c.reverse(); }
                out += &format!("{},", hex(&c));
            }
        }
    }
    format!("samples{}:{}", s, out)
}

fn actual_value(vr: VR, p: &PrimitiveValue) -> String {
    fn le<T: AsRef<[u8]>>(x: T) -> String { hex(x.as_ref()) }
    match p {
        PrimitiveValue::Empty => {
            if is_text(vr) { "text:".into() } else if sample_size(vr) == 1 { "bytes:".into() } else { format!("samples{}:", sample_size(vr)) }
        }
        PrimitiveValue::Strs(v) => format!("text:{}", v.join("\\").trim_end_matches([' ', '\0'])),
        PrimitiveValue::Str(s) => format!("text:{}", s.trim_end_matches([' ', '\0'])),
        PrimitiveValue::U8(v) => format!("bytes:{}", hex(v)),
        PrimitiveValue::U16(v) => format!("samples2:{}", v.iter().map(|x| le(x.to_le_bytes()) + ",").collect::<String>()),
        PrimitiveValue::I16(v) => format!("samples2:{}", v.iter().map(|x| le(x.to_le_bytes()) + ",").collect::<String>()),
        PrimitiveValue::U32(v) => format!("samples4:{}", v.iter().map(|x| le(x.to_le_bytes()) + ",").collect::<String>()),
        PrimitiveValue::I32(v) => format!("samples4:{}", v.iter().map(|x| le(x.to_le_bytes()) + ",").collect::<String>()),
        PrimitiveValue::F32(v) => format!("samples4:{}", v.iter().map(|x| le(x.to_le_bytes()) + ",").collect::<String>()),
        PrimitiveValue::U64(v) => format!("samples8:{}", v.iter().map(|x| le(x.to_le_bytes()) + ",").collect::<String>()),
        PrimitiveValue::I64(v) => format!("samples8:{}", v.iter().map(|x| le(x.to_le_bytes()) + ",").collect::<String>()),
        PrimitiveValue::F64(v) => format!("samples8:{}", v.iter().map(|x| le(x.to_le_bytes()) + ",").collect::<String>()),
        PrimitiveValue::Tags(v) => format!("samples4:{}", v.iter().map(|t| { let mut b = t.0.to_le_bytes().to_vec(); b.extend_from_slice(&t.1.to_le_bytes()); hex(&b) + "," }).collect::<String>()),
        other => format!("other:{:?}", other),
    }
}

/// Expected event list (pre-order) computed from the abstract description.
fn expected_events(ds: &[GElem], path: &str, odd: &HashSet<String>, strat: OddLengthStrategy, big: bool, out: &mut Vec<String>) {
    for e in ds {
        let p = format!("{}{:04X}{:04X}", path, e.tag.0, e.tag.1);
        match &e.val {
            GVal::Seq(s) => {
                out.push(format!("seq {:04X}{:04X}", e.tag.0, e.tag.1));
                for (i, it) in s.items.iter().enumerate() {
                    out.push("item".into());
                    expected_events(&it.elems, &format!("{}[{}].", p, i), odd, strat, big, out);
                    out.push("item-end".into());
                }
                out.push("seq-end".into());
            }
            GVal::U8(raw) => {
                let mut bytes = raw.clone();
                let mut len = raw.len();
                if odd.contains(&p) && len % 2 == 1 {
                    if strat == OddLengthStrategy::NextEven {
                        bytes.push(refenc::pad_byte(e.vr));
                        len += 1;
                    }
                } else if len % 2 == 1 {
                    bytes.push(refenc::pad_byte(e.vr));
                    len += 1;
                }
                out.push(format!("hdr {:04X}{:04X} len={}", e.tag.0, e.tag.1, len));
                if len > 0 {
                    out.push(format!("val {}", expected_value(e.vr, &bytes, big)));
                } else {
                    out.push("val empty".into());
                }
            }
            GVal::Pix { frags, .. } => {
                out.push("pix-start".into());
                out.push("item".into());
                out.push("item-end".into());
                for f in frags {
                    let mut b = f.clone();
                    if b.len() % 2 == 1 && strat == OddLengthStrategy::NextEven { b.push(0); }
                    out.push("item".into());
                    out.push(format!("frag {}", hex(&b)));
                    out.push("item-end".into());
                }
                out.push("seq-end".into());
            }
            _ => unreachable!("C07 data sets hold raw values only"),
        }
    }
}

fn gen_case(rng: &mut Rng, implicit: bool, depth: usize) -> Vec<GElem> {
    let p = pools();
    let mut map = std::collections::BTreeMap::new();
    let n = rng.urange(1, if depth == 0 { 8 } else { 4 });
    for _ in 0..n {
        let vr = *rng.pick(&ALL_VRS);
        if vr == VR::SQ {
            if depth < 2 {
                let Some(pool) = p.by_vr.get(&VR::SQ) else { continue };
                let tag = *rng.pick(pool);
                let items = (0..rng.urange(0, 2)).map(|_| GItem { elems: gen_case(rng, implicit, depth + 1), explicit: rng.bool() }).collect();
                map.insert(tag, GElem { tag, vr: VR::SQ, val: GVal::Seq(GSeq { items, explicit: rng.bool() }) });
            }
            continue;
        }
        let tag = match p.by_vr.get(&vr) {
            Some(pool) if !pool.is_empty() => *rng.pick(pool),
            _ => {
                if implicit && vr != VR::UN { continue; }
                ((0x0009 + 2 * rng.below(8)) as u16, 0x1000 | rng.below(0x100) as u16)
            }
        };
        if implicit && vr == VR::UN && tag.0 & 1 == 0 { continue; }
        // even and odd lengths mixed; odd ones over-represented
        let k = if rng.chance(2, 3) { *rng.pick(&[1usize, 3, 5, 7, 9, 11, 17]) } else { *rng.pick(&[0usize, 2, 4, 8, 16]) };
        let raw = odd_raw(rng, vr, k.max(0));
        let raw = if k == 0 { Vec::new() } else { raw };
        map.insert(tag, GElem { tag, vr, val: GVal::U8(raw) });
    }
    if depth == 0 && rng.chance(1, 4) {
        // encapsulated pixel data: empty offset table, 1-3 fragments of odd and even sizes
        let frags = (0..rng.urange(1, 3)).map(|_| { let k = *rng.pick(&[1usize, 3, 5, 9, 2, 4, 8]); rng.bytes(k) }).collect();
        map.insert((0x7FE0, 0x0010), GElem { tag: (0x7FE0, 0x0010), vr: VR::OB, val: GVal::Pix { bot: Vec::new(), frags } });
    }
    map.into_values().collect()
}

fn odd_paths(ds: &[GElem], path: &str, out: &mut HashSet<String>) {
    for e in ds {
        let p = format!("{}{:04X}{:04X}", path, e.tag.0, e.tag.1);
        match &e.val {
            GVal::Seq(s) => {
                for (i, it) in s.items.iter().enumerate() {
                    odd_paths(&it.elems, &format!("{}[{}].", p, i), out);
                }
            }
            GVal::U8(raw) if raw.len() % 2 == 1 => { out.insert(p); }
            GVal::Pix { frags, .. } if frags.iter().any(|f| f.len() % 2 == 1) => { out.insert(p); }
            _ => {}
        }
    }
}

#[derive(Debug)]
struct Obs {
    events: Vec<String>,
    error: Option<String>,
    /// first token index after which position != consumed
    desync: Option<(usize, u64, u64)>,
    consumed: u64,
}

fn strat_name(s: OddLengthStrategy) -> &'static str {
    match s {
        OddLengthStrategy::Accept => "Accept",
        OddLengthStrategy::NextEven => "NextEven",
        OddLengthStrategy::Fail => "Fail",
        _ => "?",
    }
}

fn observe_eager(bytes: &[u8], tc: &crate::props::c01::TsCase, strat: OddLengthStrategy, vread: ValueReadStrategy) -> Obs {
    let consumed = Rc::new(Cell::new(0u64));
    let pos = Rc::new(Cell::new(0u64));
    let src = CountingReader { data: bytes, at: 0, consumed: consumed.clone() };
    let dec = StatefulDecoder::new_with_ts(src, &tc.ts, 0).expect("decoder");
    let probe = Probe { inner: dec, pos: pos.clone() };
    let mut o = DataSetReaderOptions::default();
    o.odd_length = strat;
    o.value_read = vread;
    let reader = DataSetReader::new(probe, o);
    let mut obs = Obs { events: Vec::new(), error: None, desync: None, consumed: 0 };
    let mut last_vr = VR::UN;
    for (i, t) in reader.enumerate() {
        match t {
            Err(e) => { obs.error = Some(err_chain(&e)); break; }
            Ok(tok) => {
                match &tok {
                    DataToken::ElementHeader(h) => { last_vr = h.vr(); obs.events.push(format!("hdr {:04X}{:04X} len={}", h.tag().0, h.tag().1, h.length().0)); }
                    DataToken::SequenceStart { tag, .. } => obs.events.push(format!("seq {:04X}{:04X}", tag.0, tag.1)),
                    DataToken::ItemStart { .. } => obs.events.push("item".into()),
                    DataToken::ItemEnd => obs.events.push("item-end".into()),
                    DataToken::SequenceEnd => obs.events.push("seq-end".into()),
                    DataToken::PrimitiveValue(v) => obs.events.push(if matches!(v, PrimitiveValue::Empty) { "val empty".into() } else { format!("val {}", actual_value(last_vr, v)) }),
                    DataToken::PixelSequenceStart => obs.events.push("pix-start".into()),
                    DataToken::OffsetTable(t) => { if !t.is_empty() { obs.events.push(format!("bot {}", t.len())); } }
                    DataToken::ItemValue(b) => obs.events.push(format!("frag {}", hex(b))),
                    other => obs.events.push(format!("other {:?}", other)),
                }
                if obs.desync.is_none() && pos.get() != consumed.get() {
                    obs.desync = Some((i, pos.get(), consumed.get()));
                    // stop here: past a desynchronisation the reader interprets garbage
                    // (possibly multi-gigabyte declared lengths)
                    break;
                }
            }
        }
    }
    obs.consumed = consumed.get();
    obs
}

fn observe_lazy(bytes: &[u8], tc: &crate::props::c01::TsCase, strat: OddLengthStrategy, skip: bool) -> Obs {
    let consumed = Rc::new(Cell::new(0u64));
    let pos = Rc::new(Cell::new(0u64));
    let src = CountingReader { data: bytes, at: 0, consumed: consumed.clone() };
    let dec = StatefulDecoder::new_with_ts(src, &tc.ts, 0).expect("decoder");
    let probe = Probe { inner: dec, pos: pos.clone() };
    let mut o = LazyDataSetReaderOptions::default();
    o.odd_length = strat;
    let mut reader = LazyDataSetReader::new_with_options(probe, o);
    let mut obs = Obs { events: Vec::new(), error: None, desync: None, consumed: 0 };
    let mut i = 0usize;
    while let Some(t) = reader.advance() {
        match t {
            Err(e) => { obs.error = Some(err_chain(&e)); break; }
            Ok(tok) => {
                match tok {
                    LazyDataToken::ElementHeader(h) => obs.events.push(format!("hdr {:04X}{:04X} len={}", h.tag().0, h.tag().1, h.length().0)),
                    LazyDataToken::SequenceStart { tag, .. } => obs.events.push(format!("seq {:04X}{:04X}", tag.0, tag.1)),
                    LazyDataToken::ItemStart { .. } => obs.events.push("item".into()),
                    LazyDataToken::ItemEnd => obs.events.push("item-end".into()),
                    LazyDataToken::SequenceEnd => obs.events.push("seq-end".into()),
                    t @ LazyDataToken::LazyValue { .. } => {
                        let LazyDataToken::LazyValue { header, .. } = &t else { unreachable!() };
                        let vr = header.vr();
                        let empty = header.length().0 == 0;
                        if skip {
                            if let Err(e) = t.skip() { obs.error = Some(format!("skip: {}", err_chain(&e))); break; }
                            obs.events.push("val <skipped>".into());
                        } else {
                            match t.into_value() {
                                Ok(v) => obs.events.push(if empty || matches!(v, PrimitiveValue::Empty) { "val empty".into() } else { format!("val {}", actual_value(vr, &v)) }),
                                Err(e) => { obs.error = Some(format!("into_value: {}", err_chain(&e))); break; }
                            }
                        }
                    }
                    LazyDataToken::PixelSequenceStart => obs.events.push("pix-start".into()),
                    t @ LazyDataToken::LazyItemValue { .. } => {
                        let LazyDataToken::LazyItemValue { len, .. } = &t else { unreachable!() };
                        let len = *len;
                        if let Err(e) = t.skip() { obs.error = Some(format!("skip: {}", err_chain(&e))); break; }
                        if len > 0 { obs.events.push(format!("itemval len={}", len)); }
                    }
                    other => { let _ = other.skip(); obs.events.push("other".into()); }
                }
                if obs.desync.is_none() && pos.get() != consumed.get() {
                    obs.desync = Some((i, pos.get(), consumed.get()));
                    // stop here: past a desynchronisation the reader interprets garbage
                    // (possibly multi-gigabyte declared lengths)
                    break;
                }
            }
        }
        i += 1;
    }
    obs.consumed = consumed.get();
    obs
}

/// Blank (all-space) values on the VRs that the interpreting value reader parses.
fn blank_some(ds: &mut Vec<GElem>, rng: &mut Rng, n: &mut u64) {
    for e in ds.iter_mut() {
        match &mut e.val {
            GVal::Seq(sq) => for it in sq.items.iter_mut() { blank_some(&mut it.elems, rng, n); },
            _ => {
                if matches!(e.vr, VR::DA | VR::TM | VR::DT | VR::IS | VR::DS) && rng.bool() {
                    e.val = GVal::Str(" ".repeat(rng.urange(1, 4)));
                    *n += 1;
                }
            }
        }
    }
}

fn structure(ev: &[String]) -> Vec<String> {
    ev.iter().map(|e| if e.starts_with("val ") { "val".to_string() } else { e.clone() }).collect()
}

/// Position accounting under every value reading strategy (Interpreted, Preserved, Raw) on
/// well-formed streams that also carry blank date/time/number values inside explicit-length items.
fn run_vread(cfg: &Cfg) -> Local {
    let tss = four_ts();
    let n = cfg.n(6_000, 150_000);
    run_parallel(
        cfg,
        71,
        RunLimits { cases: n, wall: Duration::from_secs(if cfg.thorough() { 600 } else { 60 }) },
        |l: &mut Local, rng: &mut Rng, idx: u64| {
            let ti = rng.usize(3);
            let tc = &tss[ti];
            let ts = Ts::ALL[ti];
            let mut opts = DsOpts::default();
            opts.explicit_marks = true;
            opts.pixel = false;
            opts.big = false;
            opts.foreign_sq = false;
            opts.vrs = Some(vec![VR::DA, VR::TM, VR::DT, VR::IS, VR::DS, VR::SQ, VR::SQ, VR::LO, VR::US, VR::UI, VR::FD, VR::AT]);
            let mut ds = gen_dataset(rng, &opts);
            let mut blanks = 0u64;
            blank_some(&mut ds, rng, &mut blanks);
            l.count("vread_blank_values", blanks);
            let enc = refenc::encode(&ds, ts, LenMode::AsMarked);
            let replay = json!({"seed": cfg.seed, "stream": 71, "case": idx, "leg": "vread", "ts": tc.name, "stream_hex": hex_short(&enc.bytes, 2048)});
            let mut preserved: Option<Obs> = None;
            for (vname, vs) in [("Preserved", ValueReadStrategy::Preserved), ("Interpreted", ValueReadStrategy::Interpreted), ("Raw", ValueReadStrategy::Raw)] {
                l.eval();
                let obs = match guarded(|| observe_eager(&enc.bytes, tc, OddLengthStrategy::Accept, vs)) {
                    Ok(o) => o,
                    Err(p) => { l.violation(format!("vread|{}|{}|panic|{}", tc.name, vname, panic_loc(&p)), p, replay.clone()); continue; }
                };
                l.class(format!("vread|{}|{}|blank{}|err{}", tc.name, vname, blanks.min(3), obs.error.is_some() as u8));
                if let Some((i, p, c)) = obs.desync {
                    let vr = obs.events.iter().take(i + 1).rev().find(|e| e.starts_with("hdr ")).and_then(|h| {
                        let tag = &h[4..12];
                        enc.pos.iter().find(|q| format!("{:04X}{:04X}", q.tag.0, q.tag.1) == tag).map(|q| q.vr.to_string().to_owned())
                    }).unwrap_or_else(|| "-".into());
                    l.violation(format!("vread|{}|{}|position|vr={}", tc.name, vname, vr), format!("value reading strategy {}: after token {} ({:?}) the reader reports position {} but {} bytes were consumed", vname, i, obs.events.get(i), p, c), replay.clone());
                    continue;
                }
                if let Some(e) = &obs.error {
                    if vname == "Preserved" {
                        l.violation(format!("vread|{}|Preserved|error|{}", tc.name, err_class(e)), format!("reading a well-formed stream failed: {}", e), replay.clone());
                    } else {
                        // the interpreting reader may reject text the preserving reader keeps
                        l.count("vread_strategy_errors", 1);
                        if preserved.as_ref().map(|p| p.error.is_none()).unwrap_or(false) && vname == "Raw" {
                            l.violation(format!("vread|{}|Raw|error|{}", tc.name, err_class(e)), format!("the raw value reader failed on a well-formed stream: {}", e), replay.clone());
                        }
                    }
                } else {
                    if obs.consumed != enc.bytes.len() as u64 {
                        l.violation(format!("vread|{}|{}|consumed", tc.name, vname), format!("{} of {} bytes consumed", obs.consumed, enc.bytes.len()), replay.clone());
                    }
                    if let Some(p) = &preserved {
                        if p.error.is_none() && structure(&p.events) != structure(&obs.events) {
                            l.violation(format!("vread|{}|{}|structure", tc.name, vname), format!("token structure under {} differs from the preserving reader", vname), replay.clone());
                        }
                    }
                }
                if vname == "Preserved" { preserved = Some(obs); }
            }
        },
    )
}

pub fn run(cfg: &Cfg) -> Outcome {
    let tss = four_ts();
    let n = cfg.n(20_000, 500_000);
    let local = run_parallel(
        cfg,
        7,
        RunLimits { cases: n, wall: Duration::from_secs(if cfg.thorough() { 900 } else { 90 }) },
        |l: &mut Local, rng: &mut Rng, idx: u64| {
            let ti = rng.usize(3);
            let tc = &tss[ti];
            let ts = Ts::ALL[ti];
            let ds = gen_case(rng, ts == Ts::ImplicitLe, 0);
            let mut odd = HashSet::new();
            odd_paths(&ds, "", &mut odd);
            if odd.is_empty() { l.count("cases_without_odd_value", 1); }
            let first_odd_is_last = false;
            let _ = first_odd_is_last;
            for strat in [OddLengthStrategy::Accept, OddLengthStrategy::NextEven, OddLengthStrategy::Fail] {
                // under NextEven every other case declares container lengths as the sum of the
                // declared lengths (odd item / sequence lengths one short of the actual size)
                let decl_sum = strat == OddLengthStrategy::NextEven && idx % 2 == 1;
                let opts = OddOpts { paths: odd.clone(), trailing_pad: strat == OddLengthStrategy::NextEven, decl_sum, frag_odd: true };
                let enc = refenc::encode_odd(&ds, ts, LenMode::AsMarked, &opts);
                let mut want = Vec::new();
                expected_events(&ds, "", &odd, strat, ts.big(), &mut want);
                walk(&ds, 0, &mut |e, d| match &e.val {
                    GVal::U8(r) => l.class(format!("{}|{}|{}|len{}|d{}", tc.name, strat_name(strat), e.vr, r.len().min(18), d)),
                    GVal::Pix { frags, .. } => for f in frags { l.class(format!("{}|{}|fragment|len{}", tc.name, strat_name(strat), f.len())); },
                    _ => {}
                });
                if decl_sum { l.count("next_even_cases_with_declared_sum_lengths", 1); }
                let replay = json!({"seed": cfg.seed, "stream": 7, "case": idx, "ts": tc.name, "strategy": strat_name(strat),
                    "stream_hex": hex_short(&enc.bytes, 2048),
                    "elements": enc.pos.iter().map(|p| json!({"path": p.path, "vr": p.vr.to_string(), "declared_len": p.len, "at": p.header_at})).collect::<Vec<_>>()});
                for reader in ["eager", "lazy", "lazy-skip"] {
                    l.eval();
                    let obs = match guarded(|| match reader {
                        "eager" => observe_eager(&enc.bytes, tc, strat, ValueReadStrategy::Preserved),
                        "lazy" => observe_lazy(&enc.bytes, tc, strat, false),
                        _ => observe_lazy(&enc.bytes, tc, strat, true),
                    }) {
                        Ok(o) => o,
                        Err(p) => { l.violation(format!("{}|{}|{}|panic|{}", reader, tc.name, strat_name(strat), panic_loc(&p)), p, replay.clone()); continue; }
                    };
                    let kp = format!("{}|{}|{}", reader, tc.name, strat_name(strat));
                    // position monitor (all strategies, all tokens delivered)
                    if let Some((i, p, c)) = obs.desync {
                        let vr = obs.events.iter().take(i + 1).rev().find(|e| e.starts_with("hdr ")).and_then(|h| {
                            let tag = &h[4..12];
                            enc.pos.iter().find(|q| format!("{:04X}{:04X}", q.tag.0, q.tag.1) == tag).map(|q| q.vr.to_string().to_owned())
                        }).unwrap_or_else(|| "-".into());
                        l.violation(format!("{}|position|vr={}", kp, vr), format!("after token {} ({:?}) the reader reports position {} but {} bytes were consumed from the source", i, obs.events.get(i), p, c), replay.clone());
                        continue;
                    }
                    if strat == OddLengthStrategy::Fail {
                        if odd.is_empty() {
                            if obs.error.is_some() { l.violation(format!("{}|error-without-odd", kp), format!("{:?}", obs.error), replay.clone()); }
                        } else if obs.error.is_none() {
                            l.violation(format!("{}|no-error", kp), "the failing strategy read a stream with odd-length values without reporting an error".to_string(), replay.clone());
                        } else {
                            l.count("fail_strategy_errors_observed", 1);
                        }
                        continue;
                    }
                    if let Some(e) = &obs.error {
                        l.violation(format!("{}|error|{}", kp, err_class(e)), format!("reading failed: {}", e), replay.clone());
                        continue;
                    }
                    let lazy_frag = |w: &String| if let Some(h) = w.strip_prefix("frag ") { format!("itemval len={}", h.len() / 2) } else { w.clone() };
                    let want_r: Vec<String> = match reader {
                        "lazy-skip" => want.iter().map(|w| if w.starts_with("val ") { "val <skipped>".to_string() } else { lazy_frag(w) }).collect(),
                        "lazy" => want.iter().map(lazy_frag).collect(),
                        _ => want.clone(),
                    };
                    if obs.events != want_r {
                        let i = obs.events.iter().zip(want_r.iter()).position(|(a, b)| a != b).unwrap_or(obs.events.len().min(want_r.len()));
                        // VR of the element at or before the first difference
                        let vr = want_r.iter().take(i + 1).rev().find(|e| e.starts_with("hdr ")).and_then(|h| {
                            let tag = &h[4..12];
                            enc.pos.iter().find(|q| format!("{:04X}{:04X}", q.tag.0, q.tag.1) == tag).map(|q| q.vr.to_string().to_owned())
                        }).unwrap_or_else(|| "-".into());
                        let kind = want_r.get(i).map(|w| w.split(' ').next().unwrap_or("?").to_string()).unwrap_or_else(|| "end".into());
                        l.violation(format!("{}|events|{}|vr={}", kp, kind, vr), format!("event {} is {:?}, expected {:?}", i, obs.events.get(i), want_r.get(i)), replay.clone());
                        continue;
                    }
                    if obs.consumed != enc.bytes.len() as u64 {
                        l.violation(format!("{}|consumed", kp), format!("{} of {} bytes consumed", obs.consumed, enc.bytes.len()), replay.clone());
                    }
                }
            }
            if l.want_sample() && idx % 301 == 0 {
                let enc = refenc::encode_odd(&ds, ts, LenMode::AsMarked, &OddOpts { paths: odd.clone(), trailing_pad: false, decl_sum: false, frag_odd: true });
                l.sample(json!({"case": idx, "ts": tc.name, "odd_elements": odd.iter().collect::<Vec<_>>(), "stream_hex": hex_short(&enc.bytes, 200)}));
            }
        },
    );
    let mut local = local;
    if cfg.only_case.is_none() || cfg.has_flag("--vread") {
        let v = run_vread(cfg);
        if cfg.has_flag("--vread") { local = Local::new(); }
        local.merge(v);
    }
    let mut o = Outcome::new(
        local,
        "reference-encoded streams with odd declared lengths on values of every VR (text, byte and multi-byte-sample VRs; lengths 1..17; top level and inside explicit/undefined-length items) × 3 transfer syntaxes × 3 odd-length strategies × {eager, lazy, lazy with skip}; monitors: reported position == bytes consumed after every token (probe decoder + counting source), event sequence (headers with their lengths, structure tokens, values) == expectation computed from the description, Fail strategy errs; class = (TS, strategy, VR, length, depth) || well-formed streams with blank DA/TM/DT/IS/DS values inside explicit-length items read with each value reading strategy (Preserved, Interpreted, Raw): position == consumed after every token, same token structure, whole stream consumed",
    );
    o.min_evaluations = 5000;
    o.min_classes = 300;
    o
}
