//! C06 — the lazy token reader and the collector agree with the eager reader; fragments and the
//! basic offset table retrieved one by one equal those of the fully read object; read_until /
//! read_to yield exactly the top-level elements below / up to the tag.

use crate::gen::ds::{gen_dataset, gen_pixel_fragments, DsOpts};
use crate::gen::tree::*;
use crate::objeq::same_object;
use crate::props::c01::four_ts;
use crate::report::*;
use crate::rng::Rng;
use dicom_core::header::Header;
use dicom_core::value::Value;
use dicom_core::{Tag, VR};
use dicom_object::collector::DicomCollector;
use dicom_object::file::OpenFileOptions;
use dicom_object::meta::FileMetaTableBuilder;
use dicom_object::{FileDicomObject, InMemDicomObject};
use dicom_parser::dataset::lazy_read::LazyDataSetReader;
use dicom_parser::dataset::read::DataSetReader;
use dicom_parser::dataset::DataToken;
use serde_json::json;
use std::io::{BufReader, Cursor};
use std::time::Duration;

const UIDS: [&str; 4] = [
    "1.2.840.10008.1.2",
    "1.2.840.10008.1.2.1",
    "1.2.840.10008.1.2.2",
    "1.2.840.10008.1.2.1.99",
];

fn tok_text(t: &DataToken, big: bool) -> String {
    match t {
        // documented normalisation: the lazy reader has no offset-table token and yields the
        // first pixel item as an item value
        DataToken::OffsetTable(v) => {
            let mut b = Vec::new();
            // (bytes in the byte order of the stream)
            for x in v {
                if big { b.extend_from_slice(&x.to_be_bytes()) } else { b.extend_from_slice(&x.to_le_bytes()) }
            }
            format!("ItemValue({})", hex(&b))
        }
        DataToken::ItemValue(v) => format!("ItemValue({})", hex(v)),
        other => format!("{:?}", other),
    }
}

fn top_tags(o: &InMemDicomObject) -> Vec<Tag> {
    o.tags().collect()
}

fn make_file(ds: &[GElem], ti: usize) -> Option<Vec<u8>> {
    let meta = FileMetaTableBuilder::new()
        .transfer_syntax(UIDS[ti])
        .media_storage_sop_class_uid("1.2.840.10008.5.1.4.1.1.7")
        .media_storage_sop_instance_uid("1.2.3.4");
    let fobj = to_object(ds).with_meta(meta).ok()?;
    let mut file = Vec::new();
    fobj.write_all(&mut file).ok()?;
    Some(file)
}

fn collect_with(file: &[u8], cuts: &[Tag]) -> Result<(dicom_object::FileMetaTable, InMemDicomObject), String> {
    let mut c = DicomCollector::new(BufReader::new(Cursor::new(file)));
    let m = c.read_file_meta().map_err(|e| format!("read_file_meta: {:?}", e))?.clone();
    let mut to = InMemDicomObject::new_empty();
    for t in cuts {
        c.read_dataset_up_to(*t, &mut to).map_err(|e| format!("read_dataset_up_to({}): {:?}", t, e))?;
        // everything collected so far must be strictly below the stop tag
        if let Some(bad) = to.tags().find(|x| x >= t) {
            return Err(format!("stop-tag: element {} collected by read_dataset_up_to({})", bad, t));
        }
    }
    c.read_dataset_to_end(&mut to).map_err(|e| format!("read_dataset_to_end: {:?}", e))?;
    Ok((m, to))
}

fn err_kind(e: &str) -> String {
    e.split([':', '(']).next().unwrap_or("?").to_string()
}

pub fn run(cfg: &Cfg) -> Outcome {
    let tss = four_ts();
    let n = cfg.n(6_000, 150_000);
    let local = run_parallel(
        cfg,
        6,
        RunLimits { cases: n, wall: Duration::from_secs(if cfg.thorough() { 1200 } else { 120 }) },
        |l: &mut Local, rng: &mut Rng, idx: u64| {
            let mut opts = DsOpts::default();
            opts.zero_frags = rng.chance(1, 3);
            opts.big = rng.chance(1, 10);
            opts.nested_pixel = idx % 3 == 2;
            let mut ds = gen_dataset(rng, &opts);
            // make encapsulated pixel data frequent in this property
            if rng.chance(1, 2) {
                ds.retain(|e| e.tag != (0x7FE0, 0x0010));
                let pos = ds.iter().position(|e| e.tag > (0x7FE0, 0x0010)).unwrap_or(ds.len());
                ds.insert(pos, GElem { tag: (0x7FE0, 0x0010), vr: VR::OB, val: { let z = rng.bool(); gen_pixel_fragments(rng, z) } });
                if rng.chance(1, 3) && !ds.iter().any(|e| e.tag == (0xFFFC, 0xFFFC)) {
                    ds.push(GElem { tag: (0xFFFC, 0xFFFC), vr: VR::OB, val: GVal::U8(rng.bytes(4)) });
                }
            }
            let obj = to_object(&ds);
            // the property quantifies over the uncompressed transfer syntaxes
            let ti = rng.usize(3);
            let tc = &tss[ti];
            let base = json!({"seed": cfg.seed, "stream": 6, "case": idx, "ts": tc.name, "dataset": ds_json(&ds)});
            let pix = ds.iter().find(|e| e.tag == (0x7FE0, 0x0010)).map(|e| match &e.val {
                GVal::Pix { bot, frags } => format!("encaps|bot{}|frags{}|zero{}", bot.len().min(2), frags.len().min(3), frags.iter().any(|f| f.is_empty())),
                _ => "native".to_string(),
            }).unwrap_or_else(|| "none".into());
            l.class(format!("{}|pix={}|depth{}|after={}", tc.name, pix, depth(&ds).min(4), ds.iter().any(|e| e.tag > (0x7FE0, 0x0010))));

            // ---------- (a) lazy token stream == eager token stream (uncompressed syntaxes)
            if ti < 3 {
                let mut bytes = Vec::new();
                if obj.write_dataset_with_ts(&mut bytes, &tc.ts).is_err() {
                    return; // C01's business
                }
                let eager: Result<Vec<String>, String> = (|| {
                    let r = DataSetReader::new_with_ts(&bytes[..], &tc.ts).map_err(|e| format!("{:?}", e))?;
                    let mut v = Vec::new();
                    for t in r {
                        v.push(tok_text(&t.map_err(|e| format!("{:?}", e))?, ti == 2));
                    }
                    Ok(v)
                })();
                let lazy: Result<Vec<String>, String> = guarded(|| {
                    let mut r = LazyDataSetReader::new_with_ts(Cursor::new(&bytes[..]), &tc.ts).map_err(|e| format!("{:?}", e))?;
                    let mut v = Vec::new();
                    while let Some(t) = r.advance() {
                        let t = t.map_err(|e| format!("{:?}", e))?;
                        let owned = t.into_owned().map_err(|e| format!("{:?}", e))?;
                        v.push(tok_text(&owned, ti == 2));
                    }
                    Ok(v)
                }).unwrap_or_else(|p| Err(format!("panic: {}", p)));
                l.eval();
                match (&eager, &lazy) {
                    (Ok(e), Ok(z)) => {
                        l.count("tokens_compared", e.len() as u64);
                        if e != z {
                            let i = e.iter().zip(z.iter()).position(|(a, b)| a != b).unwrap_or(e.len().min(z.len()));
                            let kind = e.get(i).map(|s| s.split(['(', ' ', '{']).next().unwrap_or("?").to_string()).unwrap_or_else(|| "end".into());
                            let mut r = base.clone();
                            r["stream_hex"] = json!(hex_short(&bytes, 4096));
                            l.violation(
                                format!("lazy-vs-eager|{}|token={}", tc.name, kind),
                                format!("token {} differs: eager {:?} lazy {:?} (eager {} tokens, lazy {})", i, e.get(i).map(|s| s.chars().take(120).collect::<String>()), z.get(i).map(|s| s.chars().take(120).collect::<String>()), e.len(), z.len()),
                                r,
                            );
                        }
                    }
                    (Ok(_), Err(x)) => {
                        let variant: String = x.chars().take_while(|c| c.is_alphanumeric() || *c == ':' || *c == ' ').take(24).collect();
                        l.violation(format!("lazy-vs-eager|{}|lazy-error|{}", tc.name, variant.trim()), format!("lazy reader failed where the eager reader succeeded: {}", x.chars().take(300).collect::<String>()), base.clone());
                    }
                    (Err(_), _) => { l.count("eager_failed_skipped", 1); }
                }
            }

            // ---------- file level
            let meta = FileMetaTableBuilder::new()
                .transfer_syntax(UIDS[ti])
                .media_storage_sop_class_uid("1.2.840.10008.5.1.4.1.1.7")
                .media_storage_sop_instance_uid(format!("1.2.3.{}", idx));
            let Ok(fobj) = obj.clone().with_meta(meta) else { return };
            let mut file = Vec::new();
            if fobj.write_all(&mut file).is_err() {
                return;
            }
            let full: FileDicomObject<InMemDicomObject> = match dicom_object::from_reader(&file[..]) {
                Ok(o) => o,
                Err(_) => { l.count("full_read_failed_skipped", 1); return; }
            };

            // ---------- (b) collector in portions
            let present = top_tags(&full);
            let mut cuts: Vec<Tag> = Vec::new();
            for _ in 0..rng.usize(4) {
                let t = match rng.usize(4) {
                    0 if !present.is_empty() => *rng.pick(&present),
                    1 => Tag(0x7FE0, 0x0010),
                    2 if !present.is_empty() => { let t = *rng.pick(&present); Tag(t.0, t.1.wrapping_add(1)) }
                    _ => Tag(rng.next_u32() as u16 & 0x7FFE, rng.next_u32() as u16),
                };
                cuts.push(t);
            }
            cuts.sort();
            cuts.dedup();
            l.eval();
            let coll = guarded(|| collect_with(&file, &cuts));
            let cutclass = format!("cuts{}", cuts.len());
            l.class(format!("collector|{}|{}|pix={}", tc.name, cutclass, pix));
            match coll {
                Err(p) => l.violation(format!("collector|panic|{}", panic_loc(&p)), p, base.clone()),
                Ok(Err(e)) => {
                    let kind = err_kind(&e);
                    let mut r = base.clone();
                    r["cuts"] = json!(cuts.iter().map(|t| t.to_string()).collect::<Vec<_>>());
                    // minimise the witness
                    let small = crate::gen::shrink::shrink(&ds, &|cand| {
                        match make_file(cand, ti) {
                            Some(f) => matches!(guarded(|| collect_with(&f, &cuts)), Ok(Err(e2)) if err_kind(&e2) == kind),
                            None => false,
                        }
                    }, 3000);
                    r["minimal_dataset"] = ds_json(&small);
                    l.violation(format!("collector|{}|error|{}", tc.name, kind), e.chars().take(300).collect::<String>(), r);
                }
                Ok(Ok((m, to))) => {
                    if &m != full.meta() {
                        l.violation(format!("collector|{}|meta-differs", tc.name), "file meta table from the collector differs from the one of the fully read file", base.clone());
                    }
                    if let Err(d) = same_object(&to, &full, "") {
                        let mut r = base.clone();
                        r["cuts"] = json!(cuts.iter().map(|t| t.to_string()).collect::<Vec<_>>());
                        let kind = if d.contains("fragment") { "fragments" } else if d.contains("offset table") { "bot" } else if d.contains("tag lists") { "tags" } else { "value" };
                        l.violation(format!("collector|{}|dataset-differs|{}", tc.name, kind), d, r);
                    }
                }
            }

            // ---------- (c) fragments one by one
            // A data set that also carries (7FE0,0010) inside a sequence item (an icon image)
            // gets its own violation key: the collector takes the first pixel data it meets.
            fn nested_pixel(ds: &[GElem], depth: usize) -> bool {
                ds.iter().any(|e| match &e.val {
                    GVal::Seq(s) => s.items.iter().any(|it| nested_pixel(&it.elems, depth + 1)),
                    _ => depth > 0 && e.tag == (0x7FE0, 0x0010),
                })
            }
            let nested = nested_pixel(&ds, 0);
            let fkey = |k: String| if nested { format!("fragments|{}|nested-pixel-data-in-an-item", tc.name) } else { k };
            if let Some(pe) = full.get(Tag(0x7FE0, 0x0010)) {
                if let Value::PixelSequence(ps) = pe.value() {
                    for with_bot in [true, false] {
                        l.eval();
                        let res = guarded(|| -> Result<(Option<Vec<u32>>, Vec<Vec<u8>>), String> {
                            let mut c = DicomCollector::new(BufReader::new(Cursor::new(&file[..])));
                            let mut bot = None;
                            if with_bot {
                                let mut t = Vec::new();
                                let r = c.read_basic_offset_table(&mut t).map_err(|e| format!("read_basic_offset_table: {:?}", e))?;
                                match r {
                                    Some(n) if n as usize == 4 * t.len() => {}
                                    other => return Err(format!("bot-len: read_basic_offset_table returned {:?} with {} entries", other, t.len())),
                                }
                                bot = Some(t);
                            }
                            let mut frags = Vec::new();
                            loop {
                                let mut f = Vec::new();
                                match c.read_next_fragment(&mut f).map_err(|e| format!("read_next_fragment: {:?}", e))? {
                                    Some(n) => {
                                        if n as usize != f.len() {
                                            return Err(format!("frag-len: read_next_fragment returned {} but appended {} bytes", n, f.len()));
                                        }
                                        frags.push(f);
                                    }
                                    None => break,
                                }
                                if frags.len() > 64 {
                                    return Err("frag-count: more than 64 fragments returned".into());
                                }
                            }
                            Ok((bot, frags))
                        });
                        let mode = if with_bot { "bot-first" } else { "fragments-only" };
                        l.class(format!("fragments|{}|{}|{}|nested={}", tc.name, mode, pix, nested));
                        let mut r = base.clone();
                        r["mode"] = json!(mode);
                        match res {
                            Err(p) => l.violation(format!("fragments|panic|{}", panic_loc(&p)), p, r),
                            Ok(Err(e)) => {
                                let kind: String = e.split(':').next().unwrap_or("?").to_string();
                                l.violation(fkey(format!("fragments|{}|{}|{}", tc.name, mode, kind)), e.chars().take(300).collect::<String>(), r)
                            }
                            Ok(Ok((bot, mut frags))) => {
                                let mut want: Vec<Vec<u8>> = ps.fragments().to_vec();
                                if let Some(b) = &bot {
                                    if &b[..] != ps.offset_table() {
                                        l.violation(fkey(format!("fragments|{}|{}|bot-differs", tc.name, mode)), format!("offset table {:?} vs {:?} in the fully read object", b, ps.offset_table()), r.clone());
                                    }
                                } else {
                                    // documented: the first fragment is the offset table's bytes
                                    let mut b = Vec::new();
                                    for x in ps.offset_table() { if ti == 2 { b.extend_from_slice(&x.to_be_bytes()) } else { b.extend_from_slice(&x.to_le_bytes()) } }
                                    want.insert(0, b);
                                }
                                // elements after the pixel data are not fragments
                                let la: Vec<usize> = frags.iter().map(|f| f.len()).collect();
                                let lw: Vec<usize> = want.iter().map(|f| f.len()).collect();
                                if frags != want {
                                    let kind = if la.len() > lw.len() { "extra" } else if la.len() < lw.len() { "missing" } else { "content" };
                                    frags.truncate(8);
                                    l.violation(
                                        fkey(format!("fragments|{}|{}|{}|bot-empty={}", tc.name, mode, kind, ps.offset_table().is_empty())),
                                        format!("fragments retrieved one by one have lengths {:?}, the fully read object has {:?} (offset table {:?})", la, lw, ps.offset_table()),
                                        r,
                                    );
                                }
                            }
                        }
                    }
                }
            }

            // ---------- (d) read_until / read_to
            for _ in 0..2 {
                let t = match rng.usize(3) {
                    0 if !present.is_empty() => *rng.pick(&present),
                    1 => Tag(0x7FE0, 0x0010),
                    _ => Tag(rng.next_u32() as u16 & 0x7FFE, rng.next_u32() as u16),
                };
                for inclusive in [false, true] {
                    l.eval();
                    let o = if inclusive { OpenFileOptions::new().read_to(t) } else { OpenFileOptions::new().read_until(t) };
                    let name = if inclusive { "read_to" } else { "read_until" };
                    let hit = present.contains(&t);
                    l.class(format!("{}|{}|hit={}|pixtag={}", name, tc.name, hit, t == Tag(0x7FE0, 0x0010)));
                    let mut r = base.clone();
                    r["stop_tag"] = json!(t.to_string());
                    match guarded(|| o.from_reader(&file[..])) {
                        Err(p) => l.violation(format!("{}|panic|{}", name, panic_loc(&p)), p, r),
                        Ok(Err(e)) => l.violation(format!("{}|{}|error", name, tc.name), format!("{:?}", e).chars().take(300).collect::<String>(), r),
                        Ok(Ok(part)) => {
                            let want: Vec<Tag> = present.iter().copied().filter(|x| if inclusive { *x <= t } else { *x < t }).collect();
                            let got = top_tags(&part);
                            if got != want {
                                l.violation(
                                    format!("{}|{}|tags|hit={}", name, tc.name, hit),
                                    format!("{}({}) yielded {:?}, expected {:?}", name, t, got, want).chars().take(400).collect::<String>(),
                                    r,
                                );
                            } else {
                                for e in part.iter() {
                                    if let Err(d) = crate::objeq::same_element(e, full.get(e.tag()).unwrap(), "") {
                                        l.violation(format!("{}|{}|value", name, tc.name), d, r.clone());
                                        break;
                                    }
                                }
                            }
                        }
                    }
                }
            }
            if l.want_sample() && idx % 173 == 0 {
                l.sample(json!({"case": idx, "ts": tc.name, "cuts": cuts.iter().map(|t| t.to_string()).collect::<Vec<_>>(), "dataset": ds_json(&ds)}));
            }
        },
    );
    let mut o = Outcome::new(
        local,
        "G-DS files (encapsulated pixel data with empty/non-empty offset tables and zero-length fragments in half the cases, elements after pixel data) written by the real writer in 4 transfer syntaxes; monitors: (a) lazy vs eager token streams, (b) collector (meta + 0-3 ascending stop tags + to_end) vs from_reader, (c) read_basic_offset_table/read_next_fragment vs the fully read object, (d) OpenFileOptions read_until/read_to vs the top-level elements of the full object; the eager reader is the reference",
    );
    o.min_evaluations = 1000;
    o.min_classes = 60;
    o
}
