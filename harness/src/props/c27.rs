//! C27 — PDU reception is independent of how the byte stream is segmented (fault_enumeration).
//!
//! The public receivers `dicom_ul::association::read_pdu_from_wire` (sync, `Read`) and
//! `read_pdu_from_wire_async` (tokio `AsyncRead`) are driven over *scripted* sources that deliver
//! the concatenated encodings of 1–8 PDUs in a prescribed segmentation (the async source may also
//! answer `Poll::Pending` after waking itself), with ONE `BytesMut` shared by all receives.
//!
//! Oracle (from the property text): the list of PDUs returned, in order, equals the list sent;
//! no error before the stream is exhausted; the end of the stream is reported as the
//! `ConnectionClosed` error, only after every PDU was returned, with nothing left in the buffer.
//!
//! Legs:
//!  * `exh` (stream 1): catalogue of short streams; **all 2^(n−1) segmentations** for streams of
//!    n ≤ 16 (thorough: 20) bytes, all single, double (and for n ≤ 64 triple) cuts beyond.
//!  * `rnd` (stream 2): G-PDU random sequences of 1–8 PDUs (up to ~200 KiB) × segmentation kinds
//!    {whole, bytewise, per-PDU, PDU boundary ± d, inside every header, fixed k, k PDUs per read,
//!    random sparse/dense} × {strict, non-strict, several maxima} × initial buffer capacities,
//!    random Pending patterns; a few runs on a multi-thread runtime; streams with a truncated
//!    last PDU (must end in an error, never in a made-up PDU).
//!  * `net` (stream 3): see the section "leg net" below (real associations over loopback TCP).

use crate::gen::pdu::*;
use crate::props::c25::encode;
use crate::report::*;
use crate::rng::Rng;
use bytes::BytesMut;
use dicom_ul::association::{read_pdu_from_wire, read_pdu_from_wire_async, Error as AssocError};
use dicom_ul::pdu::{
    read_pdu, AbortRQSource, AssociationRJ, AssociationRJResult, AssociationRJServiceUserReason,
    AssociationRJSource, PDataValue, PDataValueType, Pdu, DEFAULT_MAX_PDU, MAXIMUM_PDU_SIZE,
    MINIMUM_PDU_SIZE,
};
use serde_json::{json, Value};
use std::io::Read;
use std::pin::Pin;
use std::sync::Arc;
use std::task::{Context, Poll};
use std::time::Duration;
use tokio::io::{AsyncRead, ReadBuf};

// ---------------------------------------------------------------------------------------------
// scripted sources

/// Delivery state shared by the sync and async sources: `segs` are the sizes of the successive
/// reads the "network" offers; a read into a smaller buffer takes only part of a segment and the
/// rest of that segment is offered by the next read (as a socket would).
struct Feed {
    data: Arc<Vec<u8>>,
    segs: Arc<Vec<usize>>,
    pos: usize,
    si: usize,
    left: usize,
    reads: u64,
    eof_reads: u64,
    budget: u64,
    budget_hit: bool,
}

impl Feed {
    fn new(data: Arc<Vec<u8>>, segs: Arc<Vec<usize>>) -> Feed {
        let budget = data.len() as u64 * 2 + 64;
        Feed {
            data,
            segs,
            pos: 0,
            si: 0,
            left: 0,
            reads: 0,
            eof_reads: 0,
            budget,
            budget_hit: false,
        }
    }
    /// copy the next piece into `dst`, returns the number of bytes (0 = end of stream)
    fn next(&mut self, dst: &mut [u8]) -> std::io::Result<usize> {
        self.reads += 1;
        if self.reads > self.budget || self.eof_reads > 8 {
            self.budget_hit = true;
            return Err(std::io::Error::other("harness: read budget exceeded (receiver does not stop)"));
        }
        if self.pos >= self.data.len() {
            self.eof_reads += 1;
            return Ok(0);
        }
        if dst.is_empty() {
            return Ok(0);
        }
        if self.left == 0 {
            self.left = if self.si < self.segs.len() {
                self.segs[self.si]
            } else {
                self.data.len() - self.pos
            };
            self.si += 1;
        }
        let n = self.left.min(dst.len()).min(self.data.len() - self.pos);
        dst[..n].copy_from_slice(&self.data[self.pos..self.pos + n]);
        self.pos += n;
        self.left -= n;
        Ok(n)
    }
}

struct SyncSrc(Feed);

impl Read for SyncSrc {
    fn read(&mut self, buf: &mut [u8]) -> std::io::Result<usize> {
        self.0.next(buf)
    }
}

/// When to answer Pending (after waking the task): bit i of the pattern decides for poll i
/// (cyclic); never twice in a row, so progress is guaranteed.
#[derive(Clone, Copy, Debug)]
struct PendPlan {
    pattern: u64,
    period: u32,
}

impl PendPlan {
    const NONE: PendPlan = PendPlan { pattern: 0, period: 1 };
    const ALWAYS: PendPlan = PendPlan { pattern: 1, period: 1 };
}

struct AsyncSrc {
    feed: Feed,
    plan: PendPlan,
    polls: u64,
    just_pended: bool,
    pendings: u64,
}

impl AsyncRead for AsyncSrc {
    fn poll_read(mut self: Pin<&mut Self>, cx: &mut Context<'_>, buf: &mut ReadBuf<'_>) -> Poll<std::io::Result<()>> {
        let me = &mut *self;
        let i = me.polls;
        me.polls += 1;
        let want_pending = (me.plan.pattern >> (i % me.plan.period as u64)) & 1 == 1;
        if want_pending && !me.just_pended {
            me.just_pended = true;
            me.pendings += 1;
            cx.waker().wake_by_ref();
            return Poll::Pending;
        }
        me.just_pended = false;
        let dst = buf.initialize_unfilled();
        match me.feed.next(dst) {
            Ok(n) => {
                buf.advance(n);
                Poll::Ready(Ok(()))
            }
            Err(e) => Poll::Ready(Err(e)),
        }
    }
}

// ---------------------------------------------------------------------------------------------
// one observed reception

#[derive(Debug)]
struct Seen {
    got: Vec<Pdu>,
    /// error that ended the loop: (is ConnectionClosed, variant path)
    err: Option<(bool, String)>,
    /// result of one more receive after the first error
    again_ok: bool,
    consumed: usize,
    leftover: usize,
    reads: u64,
    pendings: u64,
    budget_hit: bool,
}

fn err_path(e: &AssocError) -> (bool, String) {
    let closed = matches!(e, AssocError::ConnectionClosed { .. });
    if closed {
        // (Debug-formatting an error walks its Backtrace field, which costs a getcwd syscall)
        return (true, "ConnectionClosed".to_string());
    }
    let d = format!("{:?}", e);
    let ident = |s: &str| -> String { s.chars().take_while(|c| c.is_alphanumeric() || *c == '_').collect() };
    let mut path = ident(&d);
    let mut rest = d.as_str();
    for _ in 0..2 {
        if let Some(i) = rest.find("source: ") {
            rest = &rest[i + 8..];
            let id = ident(rest);
            if id.is_empty() || id == "Os" || id == "Custom" || id == "Kind" {
                break;
            }
            path.push('/');
            path.push_str(&id);
        } else {
            break;
        }
    }
    (closed, path)
}

#[derive(Clone, Copy, Debug)]
struct RxCfg {
    cap: usize,
    max: u32,
    strict: bool,
}

fn receive_sync(data: Arc<Vec<u8>>, segs: Arc<Vec<usize>>, n_sent: usize, rx: RxCfg) -> Seen {
    let mut src = SyncSrc(Feed::new(data, segs));
    let mut buf = BytesMut::with_capacity(rx.cap);
    let mut got = Vec::new();
    let mut err = None;
    let mut again_ok = false;
    loop {
        match read_pdu_from_wire(&mut src, &mut buf, rx.max, rx.strict) {
            Ok(p) => {
                got.push(p);
                if got.len() > n_sent + 2 {
                    break;
                }
            }
            Err(e) => {
                err = Some(err_path(&e));
                again_ok = read_pdu_from_wire(&mut src, &mut buf, rx.max, rx.strict).is_ok();
                break;
            }
        }
    }
    Seen {
        got,
        err,
        again_ok,
        consumed: src.0.pos,
        leftover: buf.len(),
        reads: src.0.reads,
        pendings: 0,
        budget_hit: src.0.budget_hit,
    }
}

async fn receive_async(data: Arc<Vec<u8>>, segs: Arc<Vec<usize>>, n_sent: usize, rx: RxCfg, plan: PendPlan) -> Seen {
    let mut src = AsyncSrc {
        feed: Feed::new(data, segs),
        plan,
        polls: 0,
        just_pended: false,
        pendings: 0,
    };
    src.feed.budget *= 2;
    let mut buf = BytesMut::with_capacity(rx.cap);
    let mut got = Vec::new();
    let mut err = None;
    let mut again_ok = false;
    loop {
        match read_pdu_from_wire_async(&mut src, &mut buf, rx.max, rx.strict).await {
            Ok(p) => {
                got.push(p);
                if got.len() > n_sent + 2 {
                    break;
                }
            }
            Err(e) => {
                err = Some(err_path(&e));
                again_ok = read_pdu_from_wire_async(&mut src, &mut buf, rx.max, rx.strict).await.is_ok();
                break;
            }
        }
    }
    Seen {
        got,
        err,
        again_ok,
        consumed: src.feed.pos,
        leftover: buf.len(),
        reads: src.feed.reads,
        pendings: src.pendings,
        budget_hit: src.feed.budget_hit,
    }
}

thread_local! {
    static RT: tokio::runtime::Runtime = tokio::runtime::Builder::new_current_thread()
        .build()
        .expect("tokio current-thread runtime");
}

fn mt_runtime() -> &'static tokio::runtime::Runtime {
    static MT: std::sync::OnceLock<tokio::runtime::Runtime> = std::sync::OnceLock::new();
    MT.get_or_init(|| {
        tokio::runtime::Builder::new_multi_thread()
            .worker_threads(2)
            .build()
            .expect("tokio multi-thread runtime")
    })
}

/// Compare what was received with what was sent. `truncated_tail` = the stream ends with a
/// strict prefix of one more PDU (then any error is acceptable at the end, but no extra PDU).
fn judge(sent: &[Pdu], stream_len: usize, seen: &Seen, truncated_tail: bool) -> Option<(String, String)> {
    let n = sent.len();
    let common = seen.got.iter().zip(sent).take_while(|(a, b)| a == b).count();
    if common < seen.got.len() || seen.got.len() > n {
        // a PDU that was not sent at this position
        let i = common;
        if i >= n {
            return Some((
                "extra-pdu".into(),
                format!("{} PDUs sent, receive #{} returned one more: {}", n, i + 1, pdu_brief(&seen.got[i])),
            ));
        }
        let g = &seen.got[i];
        let class = if i > 0 && g == &sent[i - 1] {
            "pdu-duplicated"
        } else if sent[i + 1..].iter().any(|s| s == g) {
            if seen.got[i + 1..].iter().any(|x| x == &sent[i]) {
                "pdu-reordered"
            } else {
                "pdu-lost"
            }
        } else {
            "pdu-altered"
        };
        return Some((
            class.into(),
            format!("receive #{} of {} returned {} — sent was {}", i + 1, n, pdu_brief(g), pdu_brief(&sent[i])),
        ));
    }
    // got is a prefix of sent
    let (closed, path) = match &seen.err {
        Some(e) => e.clone(),
        None => return Some(("no-end-report".into(), "the receive loop ended without an error".into())),
    };
    if seen.got.len() < n {
        let class = if seen.budget_hit {
            "receiver-does-not-stop".to_string()
        } else if closed {
            "early-connection-closed".to_string()
        } else {
            // (the variant depends on which garbage was parsed; it is in the description only)
            "early-error".to_string()
        };
        return Some((
            class,
            format!(
                "only {} of {} PDUs were returned, then {} ({} of {} stream bytes delivered, {} left in the buffer)",
                seen.got.len(),
                n,
                path,
                seen.consumed,
                stream_len,
                seen.leftover
            ),
        ));
    }
    // all PDUs returned; now the end report
    if seen.budget_hit {
        return Some(("receiver-does-not-stop".into(), format!("{} reads issued, end of stream never reported", seen.reads)));
    }
    if seen.again_ok {
        return Some(("pdu-after-end".into(), "a receive after the end-of-stream error returned a PDU".into()));
    }
    if truncated_tail {
        return None;
    }
    if !closed {
        return Some((
            format!("end-not-connection-closed|{}", path),
            format!("after all {} PDUs the end of the stream was reported as {} instead of ConnectionClosed", n, path),
        ));
    }
    if seen.consumed != stream_len {
        return Some((
            "connection-closed-before-end".into(),
            format!("ConnectionClosed after {} of {} stream bytes", seen.consumed, stream_len),
        ));
    }
    if seen.leftover != 0 {
        return Some((
            "leftover-bytes".into(),
            format!("{} bytes left in the shared buffer after all PDUs were returned", seen.leftover),
        ));
    }
    None
}

struct Case<'a> {
    sent: &'a [Pdu],
    data: &'a Arc<Vec<u8>>,
    offsets: &'a [usize],
    truncated_tail: bool,
    solo_ok: bool,
    segkind: &'a str,
    leg: &'a str,
    stream: u64,
    idx: u64,
    seed: u64,
}

fn replay_doc(c: &Case, segs: &[usize], rx: RxCfg, api: &str, plan: Option<PendPlan>, seen: &Seen) -> Value {
    let segs_short: Vec<usize> = segs.iter().take(300).cloned().collect();
    json!({
        "seed": c.seed, "stream": c.stream, "case": c.idx, "leg": c.leg,
        "api": api,
        "sent": c.sent.iter().map(pdu_json).collect::<Vec<_>>(),
        "pdu_offsets": c.offsets,
        "stream_len": c.data.len(),
        "stream_hex": hex_short(&c.data[..], 1024),
        "segmentation_kind": c.segkind,
        "segment_sizes": segs_short,
        "segments": segs.len(),
        "initial_capacity": rx.cap, "max_pdu_length": rx.max, "strict": rx.strict,
        "pending_pattern": plan.map(|p| json!({"bits": p.pattern, "period": p.period})),
        "received": seen.got.iter().map(pdu_brief).collect::<Vec<_>>(),
        "ended_with": seen.err.as_ref().map(|e| e.1.clone()),
        "bytes_delivered": seen.consumed,
        "left_in_buffer": seen.leftover,
    })
}

/// Run one (stream, segmentation) through both receivers.
fn run_both(l: &mut Local, c: &Case, segs: Arc<Vec<usize>>, rx: RxCfg, plan: PendPlan, multi_thread: bool) {
    let n = c.sent.len();
    // sync
    l.eval();
    match guarded(|| receive_sync(c.data.clone(), segs.clone(), n, rx)) {
        Err(pn) => l.violation(
            format!("read_pdu_from_wire|{}|panic|{}", c.segkind, panic_loc(&pn)),
            format!("panic: {}", pn),
            json!({"seed": c.seed, "stream": c.stream, "case": c.idx, "leg": c.leg}),
        ),
        Ok(seen) => {
            l.count("sync_reads_delivered", seen.reads);
            l.count("sync_pdus_received", seen.got.len() as u64);
            if let Some((k, what)) = judge(c.sent, c.data.len(), &seen, c.truncated_tail) {
                l.violation(
                    format!("read_pdu_from_wire|{}|{}{}", c.segkind, k, if c.solo_ok { "" } else { "|plain-read_pdu-fails-too" }),
                    format!("sync receiver, {} segments ({}): {}", segs.len(), c.segkind, what),
                    replay_doc(c, &segs, rx, "read_pdu_from_wire", None, &seen),
                );
            } else if !c.truncated_tail {
                l.count("sync_connection_closed_at_end", 1);
            }
        }
    }
    // async
    l.eval();
    let r = guarded(|| {
        if multi_thread {
            let (d, s) = (c.data.clone(), segs.clone());
            let rt = mt_runtime();
            rt.block_on(async move { tokio::spawn(receive_async(d, s, n, rx, plan)).await.expect("join") })
        } else {
            RT.with(|rt| rt.block_on(receive_async(c.data.clone(), segs.clone(), n, rx, plan)))
        }
    });
    match r {
        Err(pn) => l.violation(
            format!("read_pdu_from_wire_async|{}|panic|{}", c.segkind, panic_loc(&pn)),
            format!("panic: {}", pn),
            json!({"seed": c.seed, "stream": c.stream, "case": c.idx, "leg": c.leg}),
        ),
        Ok(seen) => {
            l.count("async_reads_delivered", seen.reads);
            l.count("async_pendings_injected", seen.pendings);
            l.count("async_pdus_received", seen.got.len() as u64);
            if multi_thread {
                l.count("async_runs_on_multi_thread_runtime", 1);
            }
            if let Some((k, what)) = judge(c.sent, c.data.len(), &seen, c.truncated_tail) {
                l.violation(
                    format!("read_pdu_from_wire_async|{}|{}{}", c.segkind, k, if c.solo_ok { "" } else { "|plain-read_pdu-fails-too" }),
                    format!(
                        "async receiver, {} segments ({}), {} Pending answers: {}",
                        segs.len(),
                        c.segkind,
                        seen.pendings,
                        what
                    ),
                    replay_doc(c, &segs, rx, "read_pdu_from_wire_async", Some(plan), &seen),
                );
            } else if !c.truncated_tail {
                l.count("async_connection_closed_at_end", 1);
            }
        }
    }
}

/// Encode a sequence with `write_pdu`. Returns (stream, offsets, solo_ok) where `solo_ok` tells
/// whether every PDU, given alone and complete to `read_pdu`, reads back equal (if not, a
/// reception failure is not specific to segmentation: the key gets a suffix saying so).
fn encode_seq(l: &mut Local, sent: &[Pdu]) -> Option<(Vec<u8>, Vec<usize>, bool)> {
    let mut data = Vec::new();
    let mut offsets = Vec::new();
    let mut solo_ok = true;
    for p in sent {
        let b = match encode(p) {
            Ok(Ok(b)) => b,
            _ => {
                l.count("skipped_sequences_unencodable_pdu", 1);
                return None;
            }
        };
        match guarded(|| read_pdu(&b[..], MAXIMUM_PDU_SIZE, false)) {
            Ok(Ok(Some(q))) if &q == p => {}
            _ => {
                solo_ok = false;
            }
        }
        offsets.push(data.len());
        data.extend_from_slice(&b);
    }
    if !solo_ok {
        l.count("sequences_with_a_pdu_failing_plain_read_pdu", 1);
    }
    Some((data, offsets, solo_ok))
}

// ---------------------------------------------------------------------------------------------
// leg exh — exhaustive small

fn tiny_pdata(n: usize) -> Pdu {
    Pdu::PData {
        data: vec![PDataValue {
            presentation_context_id: 1,
            value_type: PDataValueType::Command,
            is_last: true,
            data: (0..n as u8).collect(),
        }],
    }
}

fn catalogue() -> Vec<Vec<Pdu>> {
    let rj = |s| Pdu::AssociationRJ(AssociationRJ { result: AssociationRJResult::Permanent, source: s });
    let unk = |t: u8, n: usize| Pdu::Unknown { pdu_type: t, data: (0..n as u8).map(|x| x.wrapping_mul(37) ^ t).collect() };
    let mut singles: Vec<Pdu> = vec![Pdu::ReleaseRQ, Pdu::ReleaseRP];
    for s in all_abort_sources() {
        singles.push(Pdu::AbortRQ { source: s });
    }
    for s in all_rj_sources().into_iter().take(4) {
        singles.push(rj(s));
    }
    for n in 0..=4 {
        singles.push(unk(8 + n as u8, n));
    }
    singles.push(unk(0xFF, 9));
    singles.push(Pdu::PData { data: vec![] });
    for n in 0..=3 {
        singles.push(tiny_pdata(n));
    }
    let mut out: Vec<Vec<Pdu>> = singles.iter().map(|p| vec![p.clone()]).collect();
    // ordered pairs / triples over a small alphabet (incl. equal neighbours: duplication must be
    // distinguishable from legitimately repeated PDUs)
    let alpha: Vec<Pdu> = vec![
        Pdu::ReleaseRQ,
        Pdu::ReleaseRP,
        Pdu::AbortRQ { source: AbortRQSource::ServiceUser },
        rj(AssociationRJSource::ServiceUser(AssociationRJServiceUserReason::NoReasonGiven)),
        unk(8, 0),
        unk(9, 2),
        Pdu::PData { data: vec![] },
        tiny_pdata(1),
    ];
    for a in &alpha {
        for b in &alpha {
            out.push(vec![a.clone(), b.clone()]);
        }
    }
    let tri: Vec<Pdu> = vec![unk(8, 0), Pdu::PData { data: vec![] }, Pdu::ReleaseRQ, tiny_pdata(2), unk(10, 1)];
    for a in &tri {
        for b in &tri {
            for c in &tri {
                out.push(vec![a.clone(), b.clone(), c.clone()]);
            }
        }
    }
    // longer runs of minimal PDUs
    out.push(vec![unk(8, 0); 8]);
    out.push((0..8).map(|i| unk(8 + i, (i % 3) as usize)).collect());
    out.push(vec![tiny_pdata(0), tiny_pdata(1), tiny_pdata(2), tiny_pdata(3), Pdu::ReleaseRQ, Pdu::ReleaseRP]);
    // medium: a realistic association exchange in one direction
    let mut rng = Rng::new(0xC27);
    let mut opts = PduOpts::small();
    opts.kinds = Some(vec![Kind::Rq]);
    let rq = gen_pdu(&mut rng, &opts);
    opts.kinds = Some(vec![Kind::Ac]);
    let ac = gen_pdu(&mut rng, &opts);
    out.push(vec![rq.clone(), tiny_pdata(3), Pdu::ReleaseRQ]);
    out.push(vec![ac, tiny_pdata(2), tiny_pdata(2), Pdu::ReleaseRP]);
    out.push(vec![rq, Pdu::AbortRQ { source: AbortRQSource::ServiceUser }]);
    out
}

/// Work item of the exhaustive leg: stream index and a range of the enumeration.
struct Item {
    stream: usize,
    mode: u8, // 0 = all compositions (mask range), 1 = cut tuples (first-cut range)
    lo: u64,
    hi: u64,
}

fn masks_to_segs(mask: u64, n: usize) -> Vec<usize> {
    // bit i set ⇒ cut after byte i+1
    let mut segs = Vec::new();
    let mut last = 0usize;
    for i in 0..n.saturating_sub(1) {
        if (mask >> i) & 1 == 1 {
            segs.push(i + 1 - last);
            last = i + 1;
        }
    }
    segs.push(n - last);
    segs
}

fn cuts_to_segs(cuts: &[usize], n: usize) -> Vec<usize> {
    let mut segs = Vec::with_capacity(cuts.len() + 1);
    let mut last = 0;
    for &c in cuts {
        segs.push(c - last);
        last = c;
    }
    segs.push(n - last);
    segs
}

fn leg_exh(cfg: &Cfg) -> (Local, Value) {
    let cat = catalogue();
    let full_limit = if cfg.thorough() { 20 } else { 16 };
    let mut pre = Local::new();
    let mut streams: Vec<(Vec<Pdu>, Arc<Vec<u8>>, Vec<usize>, bool)> = Vec::new();
    for seq in cat {
        if let Some((data, offsets, solo_ok)) = encode_seq(&mut pre, &seq) {
            streams.push((seq, Arc::new(data), offsets, solo_ok));
        }
    }
    let mut items = Vec::new();
    let mut n_full = 0u64;
    let mut n_cuts = 0u64;
    for (si, (_, data, _, _)) in streams.iter().enumerate() {
        let n = data.len();
        if n <= full_limit {
            let total = 1u64 << (n - 1);
            let step = 4096u64;
            let mut lo = 0;
            while lo < total {
                items.push(Item { stream: si, mode: 0, lo, hi: (lo + step).min(total) });
                lo += step;
            }
            n_full += 1;
        } else {
            // first cut position ranges; each item enumerates all tuples starting there
            let mut lo = 1u64;
            while lo < n as u64 {
                items.push(Item { stream: si, mode: 1, lo, hi: (lo + 4).min(n as u64) });
                lo += 4;
            }
            n_cuts += 1;
        }
    }
    let streams = &streams;
    let items = &items;
    let local = run_parallel(
        cfg,
        1,
        RunLimits {
            cases: items.len() as u64,
            wall: Duration::from_secs(if cfg.thorough() { 900 } else { 120 }),
        },
        |l: &mut Local, _rng: &mut Rng, idx: u64| {
            let it = &items[idx as usize];
            let (sent, data, offsets, solo_ok) = &streams[it.stream];
            let n = data.len();
            let plen_max = offsets
                .iter()
                .enumerate()
                .map(|(i, o)| offsets.get(i + 1).copied().unwrap_or(n) - o - 6)
                .max()
                .unwrap_or(0) as u32;
            let case = Case {
                sent,
                data,
                offsets,
                truncated_tail: false,
                solo_ok: *solo_ok,
                segkind: if it.mode == 0 { "exhaustive-all-segmentations" } else { "exhaustive-cut-tuples" },
                leg: "exh",
                stream: 1,
                idx,
                seed: cfg.seed,
            };
            l.class(format!(
                "exh|{}|{}pdus|{}B|{}",
                if it.mode == 0 { "all" } else { "cuts" },
                sent.len(),
                n,
                sent.iter().map(|p| kind_name(kind_of(p))).collect::<Vec<_>>().join("+")
            ));
            let mut k = 0u64;
            let one = |l: &mut Local, segs: Vec<usize>, k: u64| {
                // vary receiver parameters deterministically with the enumeration index
                let rx = RxCfg {
                    cap: [0usize, 1, 7, 64, 8192][(k % 5) as usize],
                    max: if k % 3 == 0 { MINIMUM_PDU_SIZE.max(plen_max) } else if k % 3 == 1 { MAXIMUM_PDU_SIZE } else { MINIMUM_PDU_SIZE },
                    strict: k % 3 != 2 || plen_max <= MINIMUM_PDU_SIZE,
                };
                let plan = match k % 4 {
                    0 => PendPlan::NONE,
                    1 => PendPlan::ALWAYS,
                    2 => PendPlan { pattern: 0b0110, period: 4 },
                    _ => PendPlan { pattern: k.wrapping_mul(0x9E37_79B9_7F4A_7C15) >> 20, period: 23 },
                };
                l.count("segmentations_enumerated", 1);
                run_both(l, &case, Arc::new(segs), rx, plan, false);
            };
            if it.mode == 0 {
                for mask in it.lo..it.hi {
                    one(l, masks_to_segs(mask, n), mask);
                }
            } else {
                for a in it.lo as usize..it.hi as usize {
                    one(l, cuts_to_segs(&[a], n), k);
                    k += 1;
                    for b in a + 1..n {
                        one(l, cuts_to_segs(&[a, b], n), k);
                        k += 1;
                        if n <= 64 {
                            for c in b + 1..n {
                                one(l, cuts_to_segs(&[a, b, c], n), k);
                                k += 1;
                            }
                        }
                    }
                }
            }
        },
    );
    let mut local = local;
    local.merge(pre);
    let extra = json!({
        "streams_in_catalogue": streams.len(),
        "streams_with_all_segmentations": n_full,
        "all_segmentations_up_to_bytes": full_limit,
        "streams_with_all_1_2_3_cut_tuples": n_cuts,
    });
    (local, extra)
}

// ---------------------------------------------------------------------------------------------
// leg rnd — random sequences × segmentation kinds

const SEG_KINDS: [&str; 11] = [
    "whole",
    "bytewise",
    "per-pdu",
    "pdu-boundary-shifted",
    "inside-every-header",
    "fixed-size",
    "k-pdus-per-read",
    "random-sparse",
    "random-dense",
    "two-bytes-then-rest",
    "header-then-body",
];

fn make_segs(rng: &mut Rng, kind: &str, n: usize, offsets: &[usize]) -> Vec<usize> {
    let mut cuts: Vec<usize> = Vec::new();
    match kind {
        "whole" => {}
        "bytewise" => return vec![1; n],
        "per-pdu" => cuts.extend(offsets.iter().skip(1)),
        "pdu-boundary-shifted" => {
            let fixed: Option<i64> = if rng.bool() { Some(*rng.pick(&[-1i64, 1, 2, 5, 6, 7, -6])) } else { None };
            for &o in offsets.iter().skip(1) {
                let d = fixed.unwrap_or_else(|| *rng.pick(&[-7i64, -2, -1, 1, 2, 3, 4, 5, 6, 7]));
                cuts.push((o as i64 + d) as usize);
            }
        }
        "inside-every-header" => {
            for &o in offsets {
                let k = rng.urange(1, 5);
                cuts.push(o + k);
                if rng.bool() {
                    cuts.push(o + 6);
                }
            }
        }
        "fixed-size" => {
            let k = *rng.pick(&[2usize, 3, 5, 6, 7, 11, 64, 1000, 4096, 8191, 8192, 8193, 65_536]);
            let mut c = k;
            while c < n {
                cuts.push(c);
                c += k;
            }
        }
        "k-pdus-per-read" => {
            let k = rng.urange(2, 4);
            for (i, &o) in offsets.iter().enumerate().skip(1) {
                if i % k == 0 {
                    cuts.push(o);
                }
            }
        }
        "random-sparse" => {
            for _ in 0..rng.urange(1, 6) {
                cuts.push(rng.urange(1, n.max(2) - 1));
            }
        }
        "random-dense" => {
            let mut c = 0;
            loop {
                c += match rng.below(4) {
                    0 => 1,
                    1 => rng.urange(1, 8),
                    2 => rng.urange(1, 64),
                    _ => rng.urange(1, 2000),
                };
                if c >= n {
                    break;
                }
                cuts.push(c);
            }
        }
        "two-bytes-then-rest" => {
            // the reader's first incompleteness test is "fewer than 2 bytes"
            for &o in offsets {
                cuts.push(o + 2);
            }
            cuts.extend(offsets.iter().skip(1));
        }
        "header-then-body" => {
            for &o in offsets {
                cuts.push(o + 6);
            }
            cuts.extend(offsets.iter().skip(1));
        }
        _ => unreachable!(),
    }
    cuts.retain(|&c| c > 0 && c < n);
    cuts.sort_unstable();
    cuts.dedup();
    cuts_to_segs(&cuts, n)
}

fn leg_rnd(cfg: &Cfg) -> Local {
    let n = cfg.n(40_000, 1_000_000);
    run_parallel(
        cfg,
        2,
        RunLimits {
            cases: n,
            wall: Duration::from_secs(if cfg.thorough() { 900 } else { 120 }),
        },
        |l: &mut Local, rng: &mut Rng, idx: u64| {
            let n_pdus = rng.urange(1, 8);
            let shape = rng.below(20);
            let opts = match shape {
                0 => PduOpts::default(),
                1..=5 => PduOpts {
                    kinds: None,
                    max_pcs: 16,
                    max_ts: 4,
                    big: false,
                    max_payload: 9000,
                },
                _ => PduOpts::small(),
            };
            let mut sent: Vec<Pdu> = Vec::new();
            for i in 0..n_pdus {
                // equal neighbours now and then
                if i > 0 && rng.chance(1, 8) {
                    let prev = sent[i - 1].clone();
                    sent.push(prev);
                } else if shape >= 14 {
                    // typical traffic: P-DATA runs
                    let mut o = opts.clone();
                    o.kinds = Some(vec![Kind::PData, Kind::PData, Kind::PData, Kind::ReleaseRq, Kind::Abort, Kind::Unknown]);
                    sent.push(gen_pdu(rng, &o));
                } else {
                    sent.push(gen_pdu(rng, &opts));
                }
            }
            let (mut data, offsets, solo_ok) = match encode_seq(l, &sent) {
                Some(x) => x,
                None => return,
            };
            let plen_max = offsets
                .iter()
                .enumerate()
                .map(|(i, o)| offsets.get(i + 1).copied().unwrap_or(data.len()) - o - 6)
                .max()
                .unwrap_or(0) as u32;
            // truncated tail: a strict prefix of one more PDU
            let truncated_tail = rng.chance(1, 12);
            if truncated_tail {
                let extra = gen_pdu(rng, &PduOpts::small());
                if let Ok(Ok(b)) = encode(&extra) {
                    let k = rng.urange(1, b.len() - 1);
                    data.extend_from_slice(&b[..k]);
                }
            }
            let stream_len = data.len();
            let data = Arc::new(data);
            let kind = if stream_len > 40_000 && rng.chance(2, 3) {
                // bytewise delivery of a very long stream is slow and adds nothing new
                *rng.pick(&SEG_KINDS[2..])
            } else {
                *rng.pick(&SEG_KINDS)
            };
            let segs = Arc::new(make_segs(rng, kind, stream_len, &offsets));
            let rx = match rng.below(4) {
                0 => RxCfg { cap: 0, max: MINIMUM_PDU_SIZE, strict: false },
                1 => RxCfg { cap: *rng.pick(&[0usize, 1, 64, 8192]), max: plen_max.max(MINIMUM_PDU_SIZE), strict: true },
                2 => RxCfg { cap: (DEFAULT_MAX_PDU + 6) as usize, max: DEFAULT_MAX_PDU.max(plen_max), strict: true },
                _ => RxCfg { cap: rng.urange(0, 300), max: MAXIMUM_PDU_SIZE, strict: rng.bool() },
            };
            let plan = match rng.below(4) {
                0 => PendPlan::NONE,
                1 => PendPlan::ALWAYS,
                _ => PendPlan { pattern: rng.next_u64(), period: rng.urange(1, 64) as u32 },
            };
            let multi_thread = idx % 50 == 7;
            let case = Case {
                sent: &sent,
                data: &data,
                offsets: &offsets,
                truncated_tail,
                solo_ok,
                segkind: kind,
                leg: "rnd",
                stream: 2,
                idx,
                seed: cfg.seed,
            };
            l.class(format!(
                "rnd|{}|{}pdus|{}|{}|{}",
                kind,
                sent.len(),
                match stream_len {
                    0..=64 => "≤64B",
                    65..=1024 => "≤1k",
                    1025..=8192 => "≤8k",
                    8193..=65536 => "≤64k",
                    _ => ">64k",
                },
                if rx.strict { "strict" } else { "non-strict" },
                if truncated_tail { "truncated-tail" } else { "clean-end" }
            ));
            l.count(&format!("seg_{}", kind), 1);
            l.count("segments_scripted", segs.len() as u64);
            if truncated_tail {
                l.count("streams_with_truncated_tail", 1);
            }
            if l.want_sample() && idx % 211 == 0 {
                l.sample(json!({"case": idx, "pdus": sent.iter().map(|p| kind_name(kind_of(p))).collect::<Vec<_>>(),
                                "stream_len": stream_len, "segmentation": kind, "segments": segs.len(),
                                "first_segments": segs.iter().take(12).collect::<Vec<_>>()}));
            }
            run_both(l, &case, segs, rx, plan, multi_thread);
        },
    )
}


// ---------------------------------------------------------------------------------------------
// leg net — the same property through real associations over loopback TCP
//
// A scripted raw-socket peer (plain threads, no dicom-rs association code) performs the other half
// of the handshake and then writes `handshake PDU ++ stream` in a prescribed sequence of `write`
// calls (TCP_NODELAY, optional pauses), so that the handshake PDU is coalesced with / split from
// the PDUs that follow; then it half-closes. The library side is `ClientAssociation`,
// `AsyncClientAssociation`, `ServerAssociation` or `AsyncServerAssociation` and calls `receive()`
// until it fails. The kernel is free to re-segment, which cannot change the expected result.

use dicom_ul::association::{ClientAssociationOptions, ServerAssociationOptions};
use dicom_ul::pdu::{
    AssociationAC, AssociationRQ, PresentationContextProposed, PresentationContextResult,
    PresentationContextResultReason, UserVariableItem,
};
use std::io::Write;
use std::net::{TcpListener, TcpStream};

const VERIFICATION: &str = "1.2.840.10008.1.1";
const IMPLICIT_LE: &str = "1.2.840.10008.1.2";

fn read_one_pdu_raw(s: &mut TcpStream) -> std::io::Result<Vec<u8>> {
    let mut head = [0u8; 6];
    s.read_exact(&mut head)?;
    let n = u32::from_be_bytes([head[2], head[3], head[4], head[5]]) as usize;
    let mut body = vec![0u8; n];
    s.read_exact(&mut body)?;
    let mut v = head.to_vec();
    v.extend_from_slice(&body);
    Ok(v)
}

/// Write `bytes` as the given write-call sizes, then half-close and wait for the other side.
fn scripted_writes(mut s: TcpStream, bytes: &[u8], segs: &[usize], pause_us: u64) {
    let _ = s.set_nodelay(true);
    let mut pos = 0;
    for &n in segs {
        let end = (pos + n).min(bytes.len());
        if s.write_all(&bytes[pos..end]).is_err() {
            return;
        }
        let _ = s.flush();
        pos = end;
        if pause_us > 0 {
            std::thread::sleep(Duration::from_micros(pause_us));
        } else {
            std::thread::yield_now();
        }
    }
    if pos < bytes.len() {
        let _ = s.write_all(&bytes[pos..]);
    }
    let _ = s.shutdown(std::net::Shutdown::Write);
    // absorb whatever the library side still sends (abort/release on drop) until it closes
    let _ = s.set_read_timeout(Some(Duration::from_secs(20)));
    let mut sink = [0u8; 4096];
    while let Ok(n) = s.read(&mut sink) {
        if n == 0 {
            break;
        }
    }
}

fn handshake_ac(rq_bytes: &[u8]) -> Option<Vec<u8>> {
    let rq = match read_pdu(rq_bytes, MAXIMUM_PDU_SIZE, false) {
        Ok(Some(Pdu::AssociationRQ(rq))) => rq,
        _ => return None,
    };
    let ac = Pdu::AssociationAC(AssociationAC {
        protocol_version: 1,
        calling_ae_title: rq.calling_ae_title.clone(),
        called_ae_title: rq.called_ae_title.clone(),
        application_context_name: rq.application_context_name.clone(),
        presentation_contexts: rq
            .presentation_contexts
            .iter()
            .map(|pc| PresentationContextResult {
                id: pc.id,
                reason: PresentationContextResultReason::Acceptance,
                transfer_syntax: IMPLICIT_LE.to_string(),
            })
            .collect(),
        user_variables: vec![
            UserVariableItem::MaxLength(DEFAULT_MAX_PDU),
            UserVariableItem::ImplementationClassUID("1.2.826.0.1.3680043.9.9999.1".into()),
            UserVariableItem::ImplementationVersionName("VERIF-PEER".into()),
        ],
    });
    encode(&ac).ok()?.ok()
}

fn handshake_rq() -> Vec<u8> {
    let rq = Pdu::AssociationRQ(AssociationRQ {
        protocol_version: 1,
        calling_ae_title: "VERIF-SCU".into(),
        called_ae_title: "ANY-SCP".into(),
        application_context_name: "1.2.840.10008.3.1.1.1".into(),
        presentation_contexts: vec![PresentationContextProposed {
            id: 1,
            abstract_syntax: VERIFICATION.into(),
            transfer_syntaxes: vec![IMPLICIT_LE.into()],
        }],
        user_variables: vec![
            UserVariableItem::MaxLength(DEFAULT_MAX_PDU),
            UserVariableItem::ImplementationClassUID("1.2.826.0.1.3680043.9.9999.2".into()),
            UserVariableItem::ImplementationVersionName("VERIF-PEER".into()),
        ],
    });
    encode(&rq).expect("encode rq").expect("encode rq")
}

thread_local! {
    static RT_IO: tokio::runtime::Runtime = tokio::runtime::Builder::new_current_thread()
        .enable_all()
        .build()
        .expect("tokio runtime with io");
}

thread_local! {
    /// one listening socket per worker thread (binding a fresh one per case exhausts the
    /// ephemeral port range in long runs)
    static LISTENER: std::cell::RefCell<Option<TcpListener>> = const { std::cell::RefCell::new(None) };
}

fn thread_listener() -> std::io::Result<TcpListener> {
    LISTENER.with(|c| {
        let mut c = c.borrow_mut();
        if c.is_none() {
            *c = Some(TcpListener::bind("127.0.0.1:0")?);
        }
        c.as_ref().unwrap().try_clone()
    })
}

fn reset_thread_listener() {
    LISTENER.with(|c| *c.borrow_mut() = None);
}

/// What the library side observed: Err(text) = could not even establish.
type NetSeen = Result<Seen, String>;

fn seen_from(got: Vec<Pdu>, err: Option<(bool, String)>, again_ok: bool, stream_len: usize) -> Seen {
    // over a real socket the byte counters are not observable; a clean end implies all were read
    Seen { got, err, again_ok, consumed: stream_len, leftover: 0, reads: 0, pendings: 0, budget_hit: false }
}

fn is_timeout(path: &str, e: &AssocError) -> bool {
    path.contains("Timeout") || format!("{}", e).contains("timed out") || format!("{:?}", e).contains("WouldBlock") || format!("{:?}", e).contains("TimedOut")
}

#[allow(clippy::too_many_arguments)]
fn net_case(flavour: u64, stream: Arc<Vec<u8>>, n_sent: usize, handshake_cuts: Arc<Vec<usize>>, pause_us: u64, timeouts: &mut u64) -> NetSeen {
    let listener = thread_listener().map_err(|e| format!("harness: bind: {}", e))?;
    let addr = listener.local_addr().map_err(|e| format!("harness: addr: {}", e))?;
    let stream_len = stream.len();
    let rd_to = Duration::from_secs(30);
    match flavour {
        0 | 1 => {
            // library = requestor; peer = scripted acceptor
            let peer = std::thread::spawn(move || {
                if let Ok((mut s, _)) = listener.accept() {
                    let _ = s.set_read_timeout(Some(Duration::from_secs(20)));
                    if let Ok(rq) = read_one_pdu_raw(&mut s) {
                        if let Some(ac) = handshake_ac(&rq) {
                            let mut all = ac.clone();
                            all.extend_from_slice(&stream);
                            let segs = segs_for(&handshake_cuts, ac.len(), all.len());
                            scripted_writes(s, &all, &segs, pause_us);
                        }
                    }
                }
            });
            let opts = ClientAssociationOptions::new()
                .with_abstract_syntax(VERIFICATION)
                .calling_ae_title("VERIF-SCU")
                .called_ae_title("ANY-SCP")
                .read_timeout(rd_to);
            let res: NetSeen = if flavour == 0 {
                match opts.establish(addr) {
                    Err(e) => Err(format!("{}", err_path(&e).1)),
                    Ok(mut a) => {
                        let mut got = Vec::new();
                        let mut err = None;
                        let mut again_ok = false;
                        loop {
                            match a.receive() {
                                Ok(p) => {
                                    got.push(p);
                                    if got.len() > n_sent + 2 {
                                        break;
                                    }
                                }
                                Err(e) => {
                                    let ep = err_path(&e);
                                    if is_timeout(&ep.1, &e) {
                                        *timeouts += 1;
                                    }
                                    err = Some(ep);
                                    again_ok = a.receive().is_ok();
                                    break;
                                }
                            }
                        }
                        drop(a);
                        Ok(seen_from(got, err, again_ok, stream_len))
                    }
                }
            } else {
                RT_IO.with(|rt| {
                    rt.block_on(async {
                        match opts.establish_async(addr).await {
                            Err(e) => Err(format!("{}", err_path(&e).1)),
                            Ok(mut a) => {
                                let mut got = Vec::new();
                                let mut err = None;
                                let mut again_ok = false;
                                loop {
                                    match a.receive().await {
                                        Ok(p) => {
                                            got.push(p);
                                            if got.len() > n_sent + 2 {
                                                break;
                                            }
                                        }
                                        Err(e) => {
                                            let ep = err_path(&e);
                                            if is_timeout(&ep.1, &e) {
                                                *timeouts += 1;
                                            }
                                            err = Some(ep);
                                            again_ok = a.receive().await.is_ok();
                                            break;
                                        }
                                    }
                                }
                                drop(a);
                                Ok(seen_from(got, err, again_ok, stream_len))
                            }
                        }
                    })
                })
            };
            let _ = peer.join();
            res
        }
        _ => {
            // library = acceptor; peer = scripted requestor
            let peer = std::thread::spawn(move || {
                if let Ok(s) = TcpStream::connect(addr) {
                    let rq = handshake_rq();
                    let mut all = rq.clone();
                    all.extend_from_slice(&stream);
                    let segs = segs_for(&handshake_cuts, rq.len(), all.len());
                    scripted_writes(s, &all, &segs, pause_us);
                }
            });
            let res: NetSeen = if flavour == 2 {
                let (sock, _) = listener.accept().map_err(|e| format!("harness: accept: {}", e))?;
                let opts = ServerAssociationOptions::new()
                    .accept_any()
                    .with_abstract_syntax(VERIFICATION)
                    .read_timeout(rd_to);
                match opts.establish(sock) {
                    Err(e) => Err(format!("{}", err_path(&e).1)),
                    Ok(mut a) => {
                        let mut got = Vec::new();
                        let mut err = None;
                        let mut again_ok = false;
                        loop {
                            match a.receive() {
                                Ok(p) => {
                                    got.push(p);
                                    if got.len() > n_sent + 2 {
                                        break;
                                    }
                                }
                                Err(e) => {
                                    let ep = err_path(&e);
                                    if is_timeout(&ep.1, &e) {
                                        *timeouts += 1;
                                    }
                                    err = Some(ep);
                                    again_ok = a.receive().is_ok();
                                    break;
                                }
                            }
                        }
                        drop(a);
                        Ok(seen_from(got, err, again_ok, stream_len))
                    }
                }
            } else {
                let (sock, _) = listener.accept().map_err(|e| format!("harness: accept: {}", e))?;
                sock.set_nonblocking(true).map_err(|e| format!("harness: nonblocking: {}", e))?;
                RT_IO.with(|rt| {
                    rt.block_on(async {
                        let sock = tokio::net::TcpStream::from_std(sock).map_err(|e| format!("harness: from_std: {}", e))?;
                        let opts = ServerAssociationOptions::new()
                            .accept_any()
                            .with_abstract_syntax(VERIFICATION)
                            .read_timeout(rd_to);
                        match opts.establish_async(sock).await {
                            Err(e) => Err(format!("{}", err_path(&e).1)),
                            Ok(mut a) => {
                                let mut got = Vec::new();
                                let mut err = None;
                                let mut again_ok = false;
                                loop {
                                    match a.receive().await {
                                        Ok(p) => {
                                            got.push(p);
                                            if got.len() > n_sent + 2 {
                                                break;
                                            }
                                        }
                                        Err(e) => {
                                            let ep = err_path(&e);
                                            if is_timeout(&ep.1, &e) {
                                                *timeouts += 1;
                                            }
                                            err = Some(ep);
                                            again_ok = a.receive().await.is_ok();
                                            break;
                                        }
                                    }
                                }
                                drop(a);
                                Ok(seen_from(got, err, again_ok, stream_len))
                            }
                        }
                    })
                })
            };
            let _ = peer.join();
            res
        }
    }
}

/// The write-call sizes over `handshake ++ stream`: `cuts` are positions relative to the END of
/// the handshake PDU (negative = inside the handshake), as i64 encoded in usize with an offset.
fn segs_for(rel_cuts: &[usize], handshake_len: usize, total: usize) -> Vec<usize> {
    // rel_cuts are stored as (position + 1_000_000) to allow "negative" values
    let mut cuts: Vec<usize> = rel_cuts
        .iter()
        .filter_map(|&c| {
            let p = handshake_len as i64 + c as i64 - 1_000_000;
            if p > 0 && (p as usize) < total {
                Some(p as usize)
            } else {
                None
            }
        })
        .collect();
    cuts.sort_unstable();
    cuts.dedup();
    cuts_to_segs(&cuts, total)
}

const NET_KINDS: [&str; 7] = [
    "all-in-one-write",
    "handshake-then-rest",
    "handshake-plus-partial-pdu",
    "split-inside-handshake",
    "per-pdu-writes",
    "random-writes",
    "small-writes",
];

fn leg_net(cfg: &Cfg) -> Local {
    let n = cfg.n(3_000, 16_000);
    run_parallel(
        cfg,
        3,
        RunLimits {
            cases: n,
            wall: Duration::from_secs(if cfg.thorough() { 600 } else { 90 }),
        },
        |l: &mut Local, rng: &mut Rng, idx: u64| {
            let flavour = idx % 4;
            let fname = ["ClientAssociation", "AsyncClientAssociation", "ServerAssociation", "AsyncServerAssociation"][flavour as usize];
            let n_pdus = rng.urange(1, 6);
            let opts = if rng.chance(1, 4) {
                PduOpts { kinds: None, max_pcs: 8, max_ts: 3, big: false, max_payload: 6000 }
            } else {
                PduOpts::small()
            };
            let mut sent: Vec<Pdu> = Vec::new();
            for i in 0..n_pdus {
                if i > 0 && rng.chance(1, 8) {
                    let prev: Pdu = sent[i - 1].clone();
                    sent.push(prev);
                } else {
                    sent.push(gen_pdu(rng, &opts));
                }
            }
            let (data, offsets, solo_ok) = match encode_seq(l, &sent) {
                Some(x) => x,
                None => return,
            };
            let kind = *rng.pick(&NET_KINDS);
            // cut positions relative to the end of the handshake PDU (+1_000_000 bias)
            let rel = |p: i64| (p + 1_000_000) as usize;
            let mut cuts: Vec<usize> = Vec::new();
            match kind {
                "all-in-one-write" => {}
                "handshake-then-rest" => cuts.push(rel(0)),
                "handshake-plus-partial-pdu" => {
                    cuts.push(rel(rng.urange(1, data.len().min(12)) as i64));
                    if rng.bool() {
                        cuts.push(rel(rng.urange(1, data.len()) as i64));
                    }
                }
                "split-inside-handshake" => {
                    cuts.push(rel(-(rng.urange(1, 60) as i64)));
                    if rng.bool() {
                        cuts.push(rel(-(rng.urange(1, 6) as i64)));
                    }
                }
                "per-pdu-writes" => {
                    cuts.push(rel(0));
                    for &o in offsets.iter().skip(1) {
                        cuts.push(rel(o as i64));
                    }
                }
                "random-writes" => {
                    for _ in 0..rng.urange(1, 8) {
                        cuts.push(rel(rng.range(-80, data.len() as i64)));
                    }
                }
                _ => {
                    // many small writes over the first part of the output
                    let mut p: i64 = -(rng.urange(0, 40) as i64);
                    for _ in 0..rng.urange(10, 60) {
                        p += rng.urange(1, 9) as i64;
                        cuts.push(rel(p));
                    }
                }
            }
            let pause_us = *rng.pick(&[0u64, 0, 50, 300, 1500]);
            let data = Arc::new(data);
            let case = Case {
                sent: &sent,
                data: &data,
                offsets: &offsets,
                truncated_tail: false,
                solo_ok,
                segkind: kind,
                leg: "net",
                stream: 3,
                idx,
                seed: cfg.seed,
            };
            l.eval();
            l.class(format!("net|{}|{}|{}pdus|pause{}", fname, kind, sent.len(), pause_us));
            l.count(&format!("net_{}", fname), 1);
            let mut timeouts = 0u64;
            let cuts = Arc::new(cuts);
            let r = guarded(|| net_case(flavour, data.clone(), sent.len(), cuts.clone(), pause_us, &mut timeouts));
            if timeouts > 0 {
                l.count("net_timeouts_not_judged", timeouts);
                l.note("a loopback receive timed out (machine load?): case not judged");
                return;
            }
            let mk_replay = |seen: Option<&Seen>, extra: &str| {
                json!({
                    "seed": cfg.seed, "stream": 3, "case": idx, "leg": "net", "api": fname,
                    "sent": sent.iter().map(pdu_json).collect::<Vec<_>>(),
                    "stream_len": data.len(), "stream_hex": hex_short(&data[..], 1024),
                    "write_script": kind, "pause_us": pause_us,
                    "cuts_relative_to_end_of_handshake_pdu": cuts.iter().map(|c| *c as i64 - 1_000_000).collect::<Vec<_>>(),
                    "received": seen.map(|s| s.got.iter().map(pdu_brief).collect::<Vec<_>>()),
                    "ended_with": seen.and_then(|s| s.err.as_ref().map(|e| e.1.clone())),
                    "note": extra,
                })
            };
            match r {
                Err(pn) => l.violation(
                    format!("{}::receive|{}|panic|{}", fname, kind, panic_loc(&pn)),
                    format!("panic: {}", pn),
                    mk_replay(None, ""),
                ),
                Ok(Err(e)) if e.starts_with("harness:") => {
                    reset_thread_listener();
                    l.count("net_harness_errors_not_judged", 1);
                    l.note(format!("loopback setup problem, case not judged: {}", e));
                }
                Ok(Err(e)) => l.violation(
                    format!("{}::establish|{}|failed", fname, kind),
                    format!(
                        "the association could not be established ({}) when the peer wrote its handshake PDU and {} following PDUs as script '{}'",
                        e,
                        sent.len(),
                        kind
                    ),
                    mk_replay(None, &e),
                ),
                Ok(Ok(seen)) => {
                    l.count("net_pdus_received", seen.got.len() as u64);
                    if let Some((k, what)) = judge(case.sent, data.len(), &seen, false) {
                        l.violation(
                            format!("{}::receive|{}|{}{}", fname, kind, k, if solo_ok { "" } else { "|plain-read_pdu-fails-too" }),
                            format!("{} over loopback, peer write script '{}': {}", fname, kind, what),
                            mk_replay(Some(&seen), ""),
                        );
                    } else {
                        l.count("net_connection_closed_at_end", 1);
                    }
                }
            }
        },
    )
}

pub fn run(cfg: &Cfg) -> Outcome {
    let leg = cfg.opt("--leg");
    let want = |x: &str| leg.as_deref().map(|l| l == x).unwrap_or(cfg.only_case.is_none() || cfg.opt("--only-stream").is_some());
    let mut local = Local::new();
    let mut extra = serde_json::Map::new();
    if want("exh") {
        let (l, e) = leg_exh(cfg);
        local.merge(l);
        extra.insert("exhaustive_small".into(), e);
    }
    if want("rnd") {
        local.merge(leg_rnd(cfg));
    }
    let mut net_problem = None;
    if want("net") {
        let ln = leg_net(cfg);
        let judged = ln.counters.get("net_connection_closed_at_end").copied().unwrap_or(0) + ln.violations.values().map(|v| v.count).sum::<u64>();
        if cfg.only_case.is_none() && judged < 500 {
            net_problem = Some(format!("only {} loopback association cases could be judged (floor 500)", judged));
        }
        local.merge(ln);
    }
    let mut o = Outcome::new(
        local,
        "public read_pdu_from_wire (scripted Read) and read_pdu_from_wire_async (scripted AsyncRead with self-waking Pending, inside tokio current-thread / multi-thread runtimes), one shared BytesMut per stream: received PDU list = sent list, no error before the stream is exhausted, ConnectionClosed exactly at the end with an empty buffer. exh: catalogue of short streams (1–8 PDUs), all 2^(n−1) segmentations for n ≤ 16 (thorough 20) bytes, all 1/2/3-cut tuples beyond; rnd: G-PDU sequences of 1–8 PDUs × 11 segmentation kinds × strict/non-strict × maxima × initial capacities × Pending patterns, 1/12 with a truncated last PDU; net: real Client/Server associations (sync + async) over loopback against a scripted raw-socket peer that coalesces/splits the handshake PDU with the following 1–6 PDUs (7 write scripts). class = (leg, segmentation kind, #PDUs, stream size, mode / PDU kinds)",
    );
    o.extra = extra;
    o.inconclusive = net_problem;
    if cfg.only_case.is_none() && leg.is_none() {
        o.min_evaluations = 100_000;
        o.min_classes = 150;
    }
    o
}
