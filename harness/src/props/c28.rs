//! C28 — the association acceptor negotiates presentation contexts by the rules.
//!
//! Reference model (`model`) written from the property statement; the acceptor is observed through
//! the cfg(dicom_rs_verif) accessor `verif_process_rq` (fast, exhaustive) and through
//! `ServerAssociationOptions::establish` over loopback TCP with a raw client (sample + every
//! rejection case); wire answer, accessor answer, `ServerAssociation` getters and model must agree.

use crate::mon::net::*;
use crate::report::*;
use crate::rng::Rng;
use dicom_ul::association::server::{AcceptAny, AccessControl};
use dicom_ul::association::{ServerAssociation, ServerAssociationOptions};
use dicom_ul::pdu::*;
use serde_json::{json, Value};
use std::cell::RefCell;
use std::io::Write;
use std::net::TcpStream;
use std::time::Duration;

// ---- universe --------------------------------------------------------------------------------

const APP_CTX: &str = "1.2.840.10008.3.1.1.1";
const OTHER_APP_CTX: &str = "1.2.840.10008.3.1.1.2";
const AS_VERIFICATION: &str = "1.2.840.10008.1.1";
const AS_CT: &str = "1.2.840.10008.5.1.4.1.1.2";
const AS_MR: &str = "1.2.840.10008.5.1.4.1.1.4";
const TS_IMPLICIT: &str = "1.2.840.10008.1.2";
const TS_EXPLICIT: &str = "1.2.840.10008.1.2.1";
const TS_UNKNOWN: &str = "1.2.3.4.5.6.7.8.9";
const TS_EXPLICIT_PADDED: &str = "1.2.840.10008.1.2.1\0";
const TS_EXPLICIT_BE: &str = "1.2.840.10008.1.2.2";
const TS_JPEG_BASELINE: &str = "1.2.840.10008.1.2.4.50";
const TS_UNKNOWN2: &str = "1.2.840.10008.1.2.4.9999";
const THIS_AE: &str = "THIS-SCP";
const MAXIMUM: u32 = 0xFFFF_FFF8; // (2^32-2) - 6, the largest value the library documents
const DEFAULT_MAX: u32 = 32_762;

/// Proposed abstract syntaxes: #0 configured, #1 configured and proposed NUL-padded (its UID has
/// odd length, so PS3.5 padding applies), #2 never configured.
const PROPOSED_AS: [&str; 3] = [AS_VERIFICATION, "1.2.840.10008.5.1.4.1.1.2\0", AS_MR];
const TS4: [&str; 4] = [TS_IMPLICIT, TS_EXPLICIT, TS_UNKNOWN, TS_EXPLICIT_PADDED];

fn trim_uid(u: &str) -> &str {
    u.trim_end_matches('\0')
}

/// The model's own notion of "supported by the registry" over the UIDs the generator uses.
fn model_ts_supported(uid_trimmed: &str) -> bool {
    matches!(uid_trimmed, TS_IMPLICIT | TS_EXPLICIT | TS_EXPLICIT_BE | TS_JPEG_BASELINE)
}

#[derive(Clone, Debug, PartialEq)]
pub enum Access {
    Any,
    CalledAe,
    Custom,
}

#[derive(Clone, Debug)]
pub struct ACfg {
    pub abstract_syntaxes: Vec<&'static str>,
    pub transfer_syntaxes: Vec<&'static str>,
    pub promiscuous: bool,
    pub access: Access,
    /// the acceptor's own maximum PDU length (None = library default)
    pub acc_max: Option<u32>,
}

#[derive(Clone, Debug)]
pub struct Req {
    pub version: u16,
    pub app_ctx: &'static str,
    pub calling: &'static str,
    pub called: &'static str,
    pub contexts: Vec<(u8, String, Vec<String>)>,
    pub max_len: Option<u32>,
    pub user: Option<&'static str>,
}

impl Req {
    fn plain(contexts: Vec<(u8, String, Vec<String>)>, max_len: Option<u32>) -> Req {
        Req { version: 1, app_ctx: APP_CTX, calling: "THIS-SCU", called: THIS_AE, contexts, max_len, user: None }
    }
    fn pdu(&self) -> Pdu {
        let mut uv = vec![];
        if let Some(m) = self.max_len {
            uv.push(UserVariableItem::MaxLength(m));
        }
        uv.push(UserVariableItem::ImplementationClassUID("1.2.826.0.1.3680043.9.9999.1".into()));
        if let Some(u) = self.user {
            uv.push(UserVariableItem::UserIdentityItem(UserIdentity::new(
                false,
                UserIdentityType::Username,
                u.as_bytes().to_vec(),
                vec![],
            )));
        }
        Pdu::AssociationRQ(AssociationRQ {
            protocol_version: self.version,
            calling_ae_title: self.calling.into(),
            called_ae_title: self.called.into(),
            application_context_name: self.app_ctx.into(),
            presentation_contexts: self
                .contexts
                .iter()
                .map(|(id, a, ts)| PresentationContextProposed { id: *id, abstract_syntax: a.clone(), transfer_syntaxes: ts.clone() })
                .collect(),
            user_variables: uv,
        })
    }
    fn json(&self) -> Value {
        json!({
            "protocol_version": self.version, "application_context": self.app_ctx, "calling": self.calling,
            "called": self.called, "max_length_item": self.max_len, "user": self.user,
            "contexts": self.contexts.iter().take(12).map(|(i, a, t)| json!([i, a, t])).collect::<Vec<_>>(),
            "n_contexts": self.contexts.len(),
        })
    }
}

// ---- the custom access-control policy (its specification is this table) ------------------------

/// Refuses calling AE "EVIL-SCU" (calling AE title not recognized), then a called AE title other
/// than this node's (called AE title not recognized), then user "mallory" (no reason given).
struct Policy;

impl AccessControl for Policy {
    fn check_access(
        &self,
        this_ae_title: &str,
        calling_ae_title: &str,
        called_ae_title: &str,
        user_identity: Option<&UserIdentity>,
    ) -> Result<(), AssociationRJServiceUserReason> {
        if calling_ae_title == "EVIL-SCU" {
            return Err(AssociationRJServiceUserReason::CallingAETitleNotRecognized);
        }
        if called_ae_title != this_ae_title {
            return Err(AssociationRJServiceUserReason::CalledAETitleNotRecognized);
        }
        if let Some(u) = user_identity {
            if u.primary_field() == b"mallory" {
                return Err(AssociationRJServiceUserReason::NoReasonGiven);
            }
        }
        Ok(())
    }
}

// ---- reference model (from the statement) ------------------------------------------------------

#[derive(Clone, Debug, PartialEq)]
pub enum CtxExp {
    /// accepted with this transfer syntax (trimmed) = proposed index
    Accept(String, usize),
    AbstractSyntaxNotSupported,
    TransferSyntaxesNotSupported,
}

#[derive(Clone, Debug)]
pub enum Exp {
    /// rejected; any of these reasons matches a failing condition
    Reject(Vec<&'static str>),
    Accept { ctxs: Vec<(u8, CtxExp)>, requestor_max: u32 },
}

pub fn model(req: &Req, cfg: &ACfg) -> Exp {
    let mut why = vec![];
    if req.version != 1 {
        why.push("protocol-version-not-supported");
    }
    if req.app_ctx != APP_CTX {
        why.push("application-context-name-not-supported");
    }
    match cfg.access {
        Access::Any => {}
        Access::CalledAe => {
            if req.called != THIS_AE {
                why.push("called-ae-title-not-recognized");
            }
        }
        Access::Custom => {
            if req.calling == "EVIL-SCU" {
                why.push("calling-ae-title-not-recognized");
            } else if req.called != THIS_AE {
                why.push("called-ae-title-not-recognized");
            } else if req.user == Some("mallory") {
                why.push("service-user:no-reason-given");
            }
        }
    }
    if !why.is_empty() {
        return Exp::Reject(why);
    }
    let ctxs = req
        .contexts
        .iter()
        .map(|(id, a, tss)| {
            let as_ok = cfg.promiscuous || cfg.abstract_syntaxes.iter().any(|c| trim_uid(c) == trim_uid(a));
            if !as_ok {
                return (*id, CtxExp::AbstractSyntaxNotSupported);
            }
            let pick = tss.iter().position(|t| {
                let t = trim_uid(t);
                (cfg.transfer_syntaxes.is_empty() || cfg.transfer_syntaxes.iter().any(|c| trim_uid(c) == t)) && model_ts_supported(t)
            });
            match pick {
                Some(i) => (*id, CtxExp::Accept(trim_uid(&tss[i]).to_string(), i)),
                None => (*id, CtxExp::TransferSyntaxesNotSupported),
            }
        })
        .collect();
    let requestor_max = match req.max_len {
        None => DEFAULT_MAX,
        Some(0) => MAXIMUM,
        Some(v) => v.min(MAXIMUM),
    };
    Exp::Accept { ctxs, requestor_max }
}

// ---- observation -------------------------------------------------------------------------------

trait Acceptor {
    fn process(&self, pdu: Pdu) -> (Pdu, Option<(u32, Vec<PresentationContextNegotiated>)>);
    fn establish_on(&self, s: TcpStream) -> Result<ServerAssociation<TcpStream>, String>;
}

impl<A: AccessControl> Acceptor for ServerAssociationOptions<'static, A, dicom_ul::association::server::DefaultNegotiation> {
    fn process(&self, pdu: Pdu) -> (Pdu, Option<(u32, Vec<PresentationContextNegotiated>)>) {
        self.verif_process_rq(pdu)
    }
    fn establish_on(&self, s: TcpStream) -> Result<ServerAssociation<TcpStream>, String> {
        self.establish(s).map_err(|e| {
            let d = format!("{:?}", e);
            d.chars().take_while(|c| c.is_alphanumeric()).collect()
        })
    }
}

fn build(cfg: &ACfg) -> Box<dyn Acceptor> {
    let mut o = ServerAssociationOptions::new()
        .ae_title(THIS_AE)
        .promiscuous(cfg.promiscuous)
        .read_timeout(IO_TIMEOUT)
        .write_timeout(IO_TIMEOUT);
    if let Some(m) = cfg.acc_max {
        o = o.max_pdu_length(m);
    }
    for a in &cfg.abstract_syntaxes {
        o = o.with_abstract_syntax(*a);
    }
    for t in &cfg.transfer_syntaxes {
        o = o.with_transfer_syntax(*t);
    }
    match cfg.access {
        Access::Any => Box::new(o.ae_access_control(AcceptAny)),
        Access::CalledAe => Box::new(o.accept_called_ae_title()),
        Access::Custom => Box::new(o.ae_access_control(Policy)),
    }
}

/// Normalised answer.
#[derive(Clone, Debug, PartialEq)]
enum Ans {
    Rj(String),
    /// (id, reason, transfer syntax trimmed)
    Ac(Vec<(u8, String, String)>),
    Other(String),
}

fn rj_name(rj: &AssociationRJ) -> String {
    use AssociationRJServiceProviderASCEReason as P;
    use AssociationRJServiceUserReason as U;
    match &rj.source {
        AssociationRJSource::ServiceUser(U::NoReasonGiven) => "service-user:no-reason-given".into(),
        AssociationRJSource::ServiceUser(U::ApplicationContextNameNotSupported) => "application-context-name-not-supported".into(),
        AssociationRJSource::ServiceUser(U::CallingAETitleNotRecognized) => "calling-ae-title-not-recognized".into(),
        AssociationRJSource::ServiceUser(U::CalledAETitleNotRecognized) => "called-ae-title-not-recognized".into(),
        AssociationRJSource::ServiceProviderASCE(P::ProtocolVersionNotSupported) => "protocol-version-not-supported".into(),
        AssociationRJSource::ServiceProviderASCE(P::NoReasonGiven) => "acse-provider:no-reason-given".into(),
        other => format!("{:?}", other),
    }
}

fn reason_name(r: &PresentationContextResultReason) -> &'static str {
    match r {
        PresentationContextResultReason::Acceptance => "acceptance",
        PresentationContextResultReason::UserRejection => "user-rejection",
        PresentationContextResultReason::NoReason => "no-reason",
        PresentationContextResultReason::AbstractSyntaxNotSupported => "abstract-syntax-not-supported",
        PresentationContextResultReason::TransferSyntaxesNotSupported => "transfer-syntaxes-not-supported",
    }
}

fn normalise(p: &Pdu) -> Ans {
    match p {
        Pdu::AssociationRJ(rj) => Ans::Rj(rj_name(rj)),
        Pdu::AssociationAC(ac) => Ans::Ac(
            ac.presentation_contexts
                .iter()
                .map(|c| (c.id, reason_name(&c.reason).to_string(), trim_uid(&c.transfer_syntax).to_string()))
                .collect(),
        ),
        other => Ans::Other(format!("{}", other.short_description()).chars().take(40).collect()),
    }
}

fn exp_reason(e: &CtxExp) -> &'static str {
    match e {
        CtxExp::Accept(..) => "acceptance",
        CtxExp::AbstractSyntaxNotSupported => "abstract-syntax-not-supported",
        CtxExp::TransferSyntaxesNotSupported => "transfer-syntaxes-not-supported",
    }
}

/// Compare a normalised answer with the model. `via` = "hook" | "wire".
fn judge_answer(via: &str, exp: &Exp, ans: &Ans, req: &Req) -> Option<(String, String)> {
    match (exp, ans) {
        (Exp::Reject(ok), Ans::Rj(name)) => {
            if ok.iter().any(|o| o == name) {
                None
            } else {
                Some((
                    format!("{}|reject|expected={}{}|got={}", via, ok[0], if ok.len() > 1 { "+others" } else { "" }, name),
                    format!("rejection reason is {:?}, the failing condition(s) call for {:?}", name, ok),
                ))
            }
        }
        (Exp::Reject(ok), Ans::Ac(_)) => Some((
            format!("{}|reject|expected={}{}|got=A-ASSOCIATE-AC", via, ok[0], if ok.len() > 1 { "+others" } else { "" }),
            format!("request accepted although it must be rejected ({:?})", ok),
        )),
        (Exp::Accept { .. }, Ans::Rj(name)) => Some((
            format!("{}|accept|got-reject={}", via, name),
            format!("request rejected ({}) although no rejection condition holds", name),
        )),
        (_, Ans::Other(o)) => Some((format!("{}|answer-not-ac-or-rj", via), format!("acceptor answered with {}", o))),
        (Exp::Accept { ctxs, .. }, Ans::Ac(results)) => {
            if results.len() != ctxs.len() {
                return Some((
                    format!("{}|ac|result-count", via),
                    format!("{} results for {} proposed presentation contexts", results.len(), ctxs.len()),
                ));
            }
            for (id, e) in ctxs {
                let hits: Vec<_> = results.iter().filter(|r| r.0 == *id).collect();
                if hits.len() != 1 {
                    return Some((
                        format!("{}|ac|results-for-one-id={}", via, hits.len().min(2)),
                        format!("{} results carry presentation context id {}", hits.len(), id),
                    ));
                }
                let (_, reason, ts) = hits[0];
                if reason != exp_reason(e) {
                    return Some((
                        format!("{}|ctx|expected={}|got={}", via, exp_reason(e), reason),
                        format!("context {}: result {}, expected {}", id, reason, exp_reason(e)),
                    ));
                }
                if let CtxExp::Accept(ets, ei) = e {
                    if ts != ets {
                        let proposed = &req.contexts.iter().find(|c| c.0 == *id).unwrap().2;
                        let gi = proposed.iter().position(|p| trim_uid(p) == ts);
                        return Some((
                            format!(
                                "{}|ctx|accepted-ts|not-the-first-eligible|got={}",
                                via,
                                match gi {
                                    Some(g) if g > *ei => "a-later-proposed-one",
                                    Some(_) => "an-earlier-proposed-one",
                                    None => "not-proposed",
                                }
                            ),
                            format!("context {}: accepted transfer syntax {:?}, expected the first eligible proposed one {:?} (proposed {:?})", id, ts, ets, proposed),
                        ));
                    }
                }
            }
            None
        }
    }
}

/// Compare the acceptor's own view (hook second value / ServerAssociation getters) with the model.
fn judge_view(via: &str, exp: &Exp, view: &Option<(u32, Vec<PresentationContextNegotiated>)>, req: &Req) -> Option<(String, String)> {
    match (exp, view) {
        (Exp::Reject(_), None) => None,
        (Exp::Reject(ok), Some(_)) => Some((
            format!("{}|view|established-although-reject-expected={}", via, ok[0]),
            "the acceptor reports an established association for a request that must be rejected".into(),
        )),
        (Exp::Accept { .. }, None) => Some((format!("{}|view|no-association", via), "no association although the request is acceptable".into())),
        (Exp::Accept { ctxs, requestor_max }, Some((mx, list))) => {
            if mx != requestor_max {
                let class = match req.max_len {
                    None => "absent",
                    Some(0) => "zero",
                    Some(v) if v > MAXIMUM => "above-maximum",
                    Some(_) => "value",
                };
                return Some((
                    format!("{}|view|requestor-max-pdu|item={}", via, class),
                    format!("requestor maximum PDU length {} (request item {:?}), expected {}", mx, req.max_len, requestor_max),
                ));
            }
            for (id, e) in ctxs {
                let hits: Vec<_> = list.iter().filter(|r| r.id == *id).collect();
                if hits.len() > 1 {
                    return Some((format!("{}|view|duplicate-id", via), format!("context id {} listed {} times", id, hits.len())));
                }
                match (e, hits.first()) {
                    (CtxExp::Accept(..), None) => {
                        return Some((format!("{}|view|accepted-context-missing", via), format!("accepted context {} is not listed", id)));
                    }
                    (_, None) => {} // rejected contexts may or may not be listed
                    (_, Some(h)) => {
                        if reason_name(&h.reason) != exp_reason(e) {
                            return Some((
                                format!("{}|view|ctx|expected={}|got={}", via, exp_reason(e), reason_name(&h.reason)),
                                format!("context {}: listed with {}, expected {}", id, reason_name(&h.reason), exp_reason(e)),
                            ));
                        }
                        let proposed = req.contexts.iter().find(|c| c.0 == *id).unwrap();
                        if trim_uid(&h.abstract_syntax) != trim_uid(&proposed.1) {
                            return Some((
                                format!("{}|view|abstract-syntax", via),
                                format!("context {}: listed abstract syntax {:?}, proposed {:?}", id, h.abstract_syntax, proposed.1),
                            ));
                        }
                        if let CtxExp::Accept(ets, _) = e {
                            if trim_uid(&h.transfer_syntax) != ets {
                                return Some((
                                    format!("{}|view|accepted-ts", via),
                                    format!("context {}: listed transfer syntax {:?}, expected {:?}", id, h.transfer_syntax, ets),
                                ));
                            }
                        }
                    }
                }
            }
            None
        }
    }
}

thread_local! {
    static LISTENER: RefCell<Option<Listener>> = const { RefCell::new(None) };
}

struct WireObs {
    /// None = the acceptor closed the connection without sending a PDU
    answer: Option<Pdu>,
    request_len: usize,
    view: Option<(u32, Vec<PresentationContextNegotiated>)>,
    establish_err: Option<String>,
}

/// One association over loopback TCP, single-threaded: the request is written first (it fits the
/// socket buffers), then `establish` runs on the accepted socket, then the answer is read back.
fn loopback(acc: &dyn Acceptor, rq: &Pdu) -> Result<WireObs, String> {
    LISTENER.with(|cell| {
        let mut g = cell.borrow_mut();
        if g.is_none() {
            *g = Some(Listener::new().map_err(|e| format!("listen: {}", e))?);
        }
        let lst = g.as_ref().unwrap();
        let mut bytes = Vec::new();
        write_pdu(&mut bytes, rq).map_err(|e| format!("encode request: {}", e))?;
        if bytes.len() > 100_000 {
            return Err("request too large for the single-threaded loopback".into());
        }
        let mut client = connect(lst.addr).map_err(|e| format!("connect: {}", e))?;
        client.write_all(&bytes).map_err(|e| format!("send request: {}", e))?;
        // only this case's own connection is served: anything else that reached the listener (a
        // stray connect from another process to a reused port) is dropped unanswered
        let mine = client.local_addr().map_err(|e| format!("local addr: {}", e))?;
        let mut server_sock = lst.accept(Duration::from_secs(5)).map_err(|e| format!("accept: {}", e))?;
        let mut strays = 0;
        while server_sock.peer_addr().ok() != Some(mine) {
            strays += 1;
            if strays > 8 {
                return Err("foreign connections on the loopback listener".into());
            }
            server_sock = lst.accept(Duration::from_secs(5)).map_err(|e| format!("accept: {}", e))?;
        }
        let res = acc.establish_on(server_sock);
        let answer = match read_raw_pdu(&mut client) {
            Ok(raw) => Some(
                read_pdu(&raw[..], MAXIMUM, false)
                    .map_err(|e| format!("decode answer: {}", e))?
                    .ok_or_else(|| "decode answer: incomplete".to_string())?,
            ),
            // connection closed by the acceptor before any answer (only conclusive if establish
            // itself reported an error; a timeout is inconclusive)
            Err(e) if e.kind() == std::io::ErrorKind::UnexpectedEof || e.kind() == std::io::ErrorKind::ConnectionReset => {
                if res.is_ok() {
                    return Err("connection closed although establish returned Ok".into());
                }
                None
            }
            Err(e) => return Err(format!("read answer: {}", e)),
        };
        let (view, establish_err) = match res {
            Ok(assoc) => (Some((assoc.requestor_max_pdu_length(), assoc.presentation_contexts().to_vec())), None),
            Err(e) => (None, Some(e)),
        };
        rst_on_close(&client);
        Ok(WireObs { answer, request_len: bytes.len(), view, establish_err })
    })
}

fn cfg_json(c: &ACfg) -> Value {
    json!({"abstract_syntaxes": c.abstract_syntaxes, "transfer_syntaxes": c.transfer_syntaxes, "promiscuous": c.promiscuous, "access": format!("{:?}", c.access), "acceptor_max_pdu_length": c.acc_max})
}

fn ts_list_sig(ts: &[String]) -> String {
    ts.iter()
        .map(|t| match t.as_str() {
            TS_IMPLICIT => "I",
            TS_EXPLICIT => "E",
            TS_UNKNOWN => "U",
            TS_EXPLICIT_PADDED => "P",
            TS_EXPLICIT_BE => "B",
            TS_JPEG_BASELINE => "J",
            _ => "X",
        })
        .collect()
}

/// Evaluate one (request, configuration) pair through the hook and optionally over loopback.
fn evaluate(l: &mut Local, req: &Req, cfg: &ACfg, wire: bool, replay: &dyn Fn() -> Value, detail_classes: bool) {
    let exp = model(req, cfg);
    let acc = build(cfg);
    let rq = req.pdu();
    let mk_replay = |extra: Value| {
        let mut r = replay();
        r["request"] = req.json();
        r["acceptor"] = cfg_json(cfg);
        r["expected"] = json!(format!("{:?}", exp).chars().take(600).collect::<String>());
        r["observed"] = extra;
        r
    };
    // coverage
    match &exp {
        Exp::Reject(why) => {
            l.count(&format!("expected_reject:{}", why.join("+")), 1);
            l.class(format!("reject|{}|{:?}", why.join("+"), cfg.access));
        }
        Exp::Accept { ctxs, .. } => {
            for ((_, e), (_, a, ts)) in ctxs.iter().zip(req.contexts.iter()) {
                l.count(&format!("expected_ctx:{}", exp_reason(e)), 1);
                if detail_classes {
                    let asi = PROPOSED_AS.iter().position(|x| x == a).map(|i| i.to_string()).unwrap_or("x".into());
                    l.class(format!(
                        "ctx|as{}|ts:{}|prom{}|tscfg{}|ascfg{}|{}",
                        asi,
                        ts_list_sig(ts),
                        cfg.promiscuous as u8,
                        cfg.transfer_syntaxes.len(),
                        cfg.abstract_syntaxes.len(),
                        match e {
                            CtxExp::Accept(_, i) => format!("accept#{}", i),
                            other => exp_reason(other).to_string(),
                        }
                    ));
                }
            }
            l.class(format!(
                "maxlen|{}",
                match req.max_len {
                    None => "absent".to_string(),
                    Some(0) => "0".into(),
                    Some(v) if v > MAXIMUM => ">max".into(),
                    Some(v) if v == MAXIMUM => "max".into(),
                    Some(v) if v < 1018 => "<min".into(),
                    Some(_) => "value".into(),
                }
            ));
        }
    }
    // (1) accessor
    l.eval();
    let hook = match guarded(|| acc.process(rq.clone())) {
        Ok(h) => h,
        Err(p) => {
            l.violation(format!("hook|panic|{}", panic_loc(&p)), format!("request processing panicked: {}", p), mk_replay(json!(null)));
            return;
        }
    };
    let hook_ans = normalise(&hook.0);
    if let Some((k, w)) = judge_answer("hook", &exp, &hook_ans, req) {
        l.violation(k, w, mk_replay(json!(format!("{:?}", hook_ans).chars().take(600).collect::<String>())));
    } else if let Some((k, w)) = judge_view("hook", &exp, &hook.1, req) {
        l.violation(k, w, mk_replay(json!(format!("{:?}", hook.1).chars().take(600).collect::<String>())));
    }
    // (2) loopback
    if !wire {
        return;
    }
    if cfg.abstract_syntaxes.is_empty() && !cfg.promiscuous {
        // `establish` refuses this configuration locally before reading anything
        l.count("loopback_skipped_locally_invalid_config", 1);
        return;
    }
    l.eval();
    match guarded(|| loopback(acc.as_ref(), &rq)) {
        Err(p) => l.violation(format!("wire|panic|{}", panic_loc(&p)), format!("establish panicked: {}", p), mk_replay(json!(null))),
        Ok(Err(e)) => {
            l.count("inconclusive_loopback", 1);
            l.note(format!("loopback inconclusive: {}", e.chars().take(80).collect::<String>()));
        }
        Ok(Ok(obs)) => {
            l.count("loopback_associations", 1);
            let answer = match &obs.answer {
                Some(a) => a,
                None => {
                    let big = obs.request_len > 6 + DEFAULT_MAX as usize;
                    l.violation(
                        format!(
                            "wire|no-answer|establish-error={}|request={}",
                            obs.establish_err.clone().unwrap_or_default(),
                            if big { "longer-than-acceptor-max-pdu" } else { "within-acceptor-max-pdu" }
                        ),
                        format!(
                            "the acceptor closed the connection without answering a well-formed A-ASSOCIATE-RQ of {} bytes (establish error {:?}; acceptor maximum PDU length {}, strict mode default)",
                            obs.request_len, obs.establish_err, DEFAULT_MAX
                        ),
                        mk_replay(json!({"establish_error": obs.establish_err, "request_bytes": obs.request_len})),
                    );
                    return;
                }
            };
            let wire_ans = normalise(answer);
            let obs_json = json!({"wire": format!("{:?}", wire_ans).chars().take(600).collect::<String>(), "establish_error": obs.establish_err});
            if let Some((k, w)) = judge_answer("wire", &exp, &wire_ans, req) {
                l.violation(k, w, mk_replay(obs_json.clone()));
            } else if let Some((k, w)) = judge_view("wire", &exp, &obs.view, req) {
                l.violation(k, w, mk_replay(obs_json.clone()));
            }
            if wire_ans != hook_ans {
                l.violation(
                    "wire-vs-hook|answers-differ",
                    format!("answer on the wire {:?} differs from the accessor's answer {:?}", wire_ans, hook_ans).chars().take(500).collect::<String>(),
                    mk_replay(obs_json.clone()),
                );
            }
            // the full AC must also agree field by field apart from UID padding
            if let (Pdu::AssociationAC(w), Pdu::AssociationAC(h)) = (answer, &hook.0) {
                if w.user_variables != h.user_variables || w.protocol_version != h.protocol_version {
                    l.violation("wire-vs-hook|ac-fields-differ", "user variables / protocol version differ between wire and accessor", mk_replay(obs_json));
                }
            }
        }
    }
}

// ---- workload ----------------------------------------------------------------------------------

fn all_ts_lists() -> Vec<Vec<String>> {
    // every ordered list without repetition over the four transfer syntaxes (65 lists)
    let mut out: Vec<Vec<String>> = vec![vec![]];
    fn rec(cur: &mut Vec<usize>, out: &mut Vec<Vec<String>>) {
        for i in 0..4 {
            if cur.contains(&i) {
                continue;
            }
            cur.push(i);
            out.push(cur.iter().map(|&j| TS4[j].to_string()).collect());
            rec(cur, out);
            cur.pop();
        }
    }
    rec(&mut vec![], &mut out);
    out
}

fn acceptor_configs() -> Vec<ACfg> {
    let as_sets: [Vec<&'static str>; 3] = [vec![], vec![AS_VERIFICATION, AS_CT], vec![AS_VERIFICATION, "1.2.840.10008.5.1.4.1.1.2\0"]];
    let ts_sets: [Vec<&'static str>; 5] = [
        vec![],
        vec![TS_EXPLICIT],
        vec![TS_IMPLICIT],
        vec![TS_UNKNOWN, TS_EXPLICIT_PADDED],
        vec![TS_EXPLICIT, TS_IMPLICIT],
    ];
    let mut out = vec![];
    for a in &as_sets {
        for t in &ts_sets {
            for p in [false, true] {
                out.push(ACfg { abstract_syntaxes: a.clone(), transfer_syntaxes: t.clone(), promiscuous: p, access: Access::Any, acc_max: [None, Some(4096), Some(16_384), Some(131_072)][out.len() % 4] });
            }
        }
    }
    out
}

const MAX_ITEMS: [Option<u32>; 11] = [
    None,
    Some(0),
    Some(1),
    Some(1017),
    Some(1018),
    Some(16384),
    Some(32762),
    Some(65536),
    Some(MAXIMUM),
    Some(MAXIMUM + 1),
    Some(u32::MAX),
];

pub fn run(cfg: &Cfg) -> Outcome {
    // independent-table cross-check (DESIGN §5): the model's support table against the registry
    {
        use dicom_encoding::transfer_syntax::TransferSyntaxIndex;
        use dicom_transfer_syntax_registry::TransferSyntaxRegistry;
        for (uid, want) in [
            (TS_IMPLICIT, true),
            (TS_EXPLICIT, true),
            (TS_EXPLICIT_BE, true),
            (TS_JPEG_BASELINE, true),
            (TS_UNKNOWN, false),
            (TS_UNKNOWN2, false),
        ] {
            let got = TransferSyntaxRegistry.get(uid).map(|t| !t.is_unsupported()).unwrap_or(false);
            if got != want || model_ts_supported(uid) != want {
                let mut o = Outcome::new(Local::new(), "C28");
                o.inconclusive = Some(format!("harness assumption broken: registry support of {} is {}, model table says {}", uid, got, want));
                return o;
            }
        }
    }
    let lists = all_ts_lists();
    let cfgs = acceptor_configs();
    let per_ctx: Vec<(usize, usize)> = (0..3).flat_map(|a| (0..lists.len()).map(move |t| (a, t))).collect();
    let leg = cfg.opt("--leg");
    let want = |name: &str| leg.as_deref().map(|l| l == name).unwrap_or(true);
    let mut total = Local::new();
    let wall = Duration::from_secs(if cfg.thorough() { 600 } else { 90 });

    // leg 1: one context — all 3 x 65 x 30 configurations, every MaxLength variant cycled; 10 % (quick)
    // over loopback
    if want("single") {
        let n = (per_ctx.len() * cfgs.len()) as u64;
        let wire_every = if cfg.thorough() { 3 } else { 10 };
        total.merge(run_parallel(cfg, 1, RunLimits { cases: n, wall }, |l, _rng, idx| {
            let (ai, ti) = per_ctx[idx as usize % per_ctx.len()];
            let c = &cfgs[idx as usize / per_ctx.len()];
            let ml = MAX_ITEMS[idx as usize % MAX_ITEMS.len()];
            let req = Req::plain(vec![(1, PROPOSED_AS[ai].to_string(), lists[ti].clone())], ml);
            let replay = || json!({"seed": cfg.seed, "stream": 1, "leg": "single", "case": idx});
            evaluate(l, &req, c, idx % wire_every == 0, &replay, true);
            l.count("single_context_cases", 1);
            if l.want_sample() && idx % 1201 == 7 {
                l.sample(json!({"leg": "single", "request": req.json(), "acceptor": cfg_json(c), "expected": format!("{:?}", model(&req, c))}));
            }
        }));
    }
    // leg 2: two contexts — all (3 x 65)^2 pairs under all 30 configurations; thorough adds all
    // (3 x 65)^3 triples under 4 configurations
    if want("pairs") {
        let np = per_ctx.len() * per_ctx.len();
        let n = (np * cfgs.len()) as u64;
        let wire_every = if cfg.thorough() { 100 } else { 500 };
        total.merge(run_parallel(cfg, 2, RunLimits { cases: n, wall }, |l, _rng, idx| {
            let p = idx as usize % np;
            let c = &cfgs[idx as usize / np];
            let (a1, t1) = per_ctx[p / per_ctx.len()];
            let (a2, t2) = per_ctx[p % per_ctx.len()];
            let ml = MAX_ITEMS[(idx as usize / 7) % MAX_ITEMS.len()];
            let req = Req::plain(
                vec![(1, PROPOSED_AS[a1].to_string(), lists[t1].clone()), (3, PROPOSED_AS[a2].to_string(), lists[t2].clone())],
                ml,
            );
            let replay = || json!({"seed": cfg.seed, "stream": 2, "leg": "pairs", "case": idx});
            evaluate(l, &req, c, idx % wire_every == 0, &replay, false);
            l.count("two_context_cases", 1);
        }));
    }
    if want("triples") && cfg.thorough() {
        let triple_cfgs: Vec<ACfg> = vec![
            ACfg { abstract_syntaxes: vec![AS_VERIFICATION, AS_CT], transfer_syntaxes: vec![], promiscuous: false, access: Access::Any, acc_max: None },
            ACfg { abstract_syntaxes: vec![AS_VERIFICATION, AS_CT], transfer_syntaxes: vec![TS_EXPLICIT], promiscuous: false, access: Access::Any, acc_max: None },
            ACfg { abstract_syntaxes: vec![AS_VERIFICATION], transfer_syntaxes: vec![], promiscuous: true, access: Access::Any, acc_max: Some(8192) },
            ACfg { abstract_syntaxes: vec![], transfer_syntaxes: vec![TS_UNKNOWN, TS_IMPLICIT], promiscuous: true, access: Access::Any, acc_max: Some(8192) },
        ];
        let m = per_ctx.len();
        let np = m * m * m;
        let n = (np * triple_cfgs.len()) as u64;
        total.merge(run_parallel(cfg, 6, RunLimits { cases: n, wall }, |l, _rng, idx| {
            let p = idx as usize % np;
            let c = &triple_cfgs[idx as usize / np];
            let (a1, t1) = per_ctx[p / (m * m)];
            let (a2, t2) = per_ctx[(p / m) % m];
            let (a3, t3) = per_ctx[p % m];
            let req = Req::plain(
                vec![
                    (5, PROPOSED_AS[a1].to_string(), lists[t1].clone()),
                    (1, PROPOSED_AS[a2].to_string(), lists[t2].clone()),
                    (255, PROPOSED_AS[a3].to_string(), lists[t3].clone()),
                ],
                MAX_ITEMS[(idx as usize / 11) % MAX_ITEMS.len()],
            );
            let replay = || json!({"seed": cfg.seed, "stream": 6, "leg": "triples", "case": idx});
            evaluate(l, &req, c, idx % 20_000 == 0, &replay, false);
            l.count("three_context_cases", 1);
        }));
    }
    // leg 3: three and four contexts, sampled; ids in random order
    if want("multi") {
        let n = cfg.n(30_000, 600_000);
        total.merge(run_parallel(cfg, 3, RunLimits { cases: n, wall }, |l, rng, idx| {
            let k = rng.urange(3, 4);
            let mut ids: Vec<u8> = vec![1, 3, 5, 7, 9, 253, 255];
            rng.shuffle(&mut ids);
            let ctxs = (0..k)
                .map(|i| {
                    let (a, t) = *rng.pick(&per_ctx);
                    (ids[i], PROPOSED_AS[a].to_string(), lists[t].clone())
                })
                .collect();
            let c = rng.pick(&cfgs).clone();
            let req = Req::plain(ctxs, *rng.pick(&MAX_ITEMS));
            let replay = || json!({"seed": cfg.seed, "stream": 3, "leg": "multi", "case": idx});
            evaluate(l, &req, &c, idx % 100 == 0, &replay, false);
            l.count("multi_context_cases", 1);
        }));
    }
    // leg 4: rejection matrix, all of it through the accessor and over loopback
    if want("reject") {
        let versions = [1u16, 0, 2, 0xFFFE];
        let apps = [APP_CTX, OTHER_APP_CTX];
        let accesses = [Access::Any, Access::CalledAe, Access::Custom];
        let calleds = [THIS_AE, "OTHER-SCP"];
        let callings = ["THIS-SCU", "EVIL-SCU"];
        let users = [None, Some("alice"), Some("mallory")];
        let mut cases = vec![];
        for v in versions {
            for a in apps {
                for ac in &accesses {
                    for cd in calleds {
                        for cg in callings {
                            for u in users {
                                for ml in [None, Some(0), Some(16384), Some(u32::MAX)] {
                                    cases.push((v, a, ac.clone(), cd, cg, u, ml));
                                }
                            }
                        }
                    }
                }
            }
        }
        let cases = &cases;
        total.merge(run_parallel(cfg, 4, RunLimits { cases: cases.len() as u64, wall }, |l, _rng, idx| {
            let (v, a, ac, cd, cg, u, ml) = cases[idx as usize].clone();
            let req = Req {
                version: v,
                app_ctx: a,
                calling: cg,
                called: cd,
                contexts: vec![
                    (1, AS_VERIFICATION.to_string(), vec![TS_EXPLICIT.to_string(), TS_IMPLICIT.to_string()]),
                    (3, AS_MR.to_string(), vec![TS_IMPLICIT.to_string()]),
                ],
                max_len: ml,
                user: u,
            };
            let c = ACfg { abstract_syntaxes: vec![AS_VERIFICATION], transfer_syntaxes: vec![], promiscuous: idx % 2 == 1, access: ac, acc_max: [None, Some(4096), Some(65_536)][(idx % 3) as usize] };
            let replay = || json!({"seed": cfg.seed, "stream": 4, "leg": "reject", "case": idx});
            evaluate(l, &req, &c, true, &replay, false);
            l.count("reject_matrix_cases", 1);
            if l.want_sample() && idx % 97 == 5 {
                l.sample(json!({"leg": "reject", "request": req.json(), "acceptor": cfg_json(&c), "expected": format!("{:?}", model(&req, &c))}));
            }
        }));
    }
    // leg 5: random larger requests (1..128 contexts, 0..8 transfer syntaxes from 7 UIDs)
    if want("large") {
        let n = cfg.n(4_000, 80_000);
        let ts7 = [TS_IMPLICIT, TS_EXPLICIT, TS_UNKNOWN, TS_EXPLICIT_PADDED, TS_EXPLICIT_BE, TS_JPEG_BASELINE, TS_UNKNOWN2];
        let as5 = [AS_VERIFICATION, "1.2.840.10008.5.1.4.1.1.2\0", AS_MR, AS_CT, "1.2.840.10008.5.1.4.1.1.7"];
        total.merge(run_parallel(cfg, 5, RunLimits { cases: n, wall }, |l, rng, idx| {
            let k = match rng.below(4) {
                0 => rng.urange(1, 4),
                1 => rng.urange(5, 32),
                2 => rng.urange(33, 127),
                _ => 128,
            };
            let mut ids: Vec<u8> = (0..128u16).map(|i| (2 * i + 1) as u8).collect();
            if rng.bool() {
                rng.shuffle(&mut ids);
            }
            // one case in ten carries 64-character (maximum length) unknown transfer syntax UIDs, which
            // makes a 128-context request longer than 32 KiB
            let long_uids = rng.chance(1, 10);
            let ctxs: Vec<(u8, String, Vec<String>)> = (0..k)
                .map(|i| {
                    let nt = if long_uids { 8 } else { rng.usize(9) };
                    let good = rng.usize(8);
                    let ts = (0..nt)
                        .map(|j| {
                            let t = rng.pick(&ts7).to_string();
                            if long_uids && (j != good || t == TS_UNKNOWN || t == TS_UNKNOWN2) {
                                format!("1.2.826.0.1.3680043.9.9999.{:036}", i * 16 + j)
                            } else {
                                t
                            }
                        })
                        .collect();
                    (ids[i], rng.pick(&as5).to_string(), ts)
                })
                .collect();
            let mut tcfg: Vec<&'static str> = vec![];
            if rng.bool() {
                for t in ts7 {
                    if rng.chance(1, 3) {
                        tcfg.push(t);
                    }
                }
            }
            let mut acfg: Vec<&'static str> = vec![];
            for a in as5 {
                if rng.chance(1, 2) {
                    acfg.push(a);
                }
            }
            let c = ACfg {
                abstract_syntaxes: acfg,
                transfer_syntaxes: tcfg,
                promiscuous: rng.chance(1, 3),
                access: rng.pick(&[Access::Any, Access::CalledAe, Access::Custom]).clone(),
                acc_max: *rng.pick(&[None, None, Some(1018), Some(4096), Some(16_384), Some(32_762), Some(131_072)]),
            };
            let mut req = Req::plain(ctxs, if rng.chance(1, 3) { *rng.pick(&MAX_ITEMS) } else { Some(rng.next_u32()) });
            if rng.chance(1, 10) {
                req.called = "OTHER-SCP";
            }
            if rng.chance(1, 20) {
                req.version = 2;
            }
            let replay = || json!({"seed": cfg.seed, "stream": 5, "leg": "large", "case": idx});
            evaluate(l, &req, &c, idx % 10 == 0 || long_uids, &replay, false);
            l.count("large_request_cases", 1);
            if long_uids {
                l.count("large_request_cases_with_64_char_uids", 1);
            }
            l.class(format!("large|n{}|prom{}|tscfg{}", match k { 1..=4 => "1-4", 5..=32 => "5-32", 33..=127 => "33-127", _ => "128" }, c.promiscuous as u8, (c.transfer_syntaxes.len() > 0) as u8));
        }));
    }
    let mut o = Outcome::new(
        total,
        "A-ASSOCIATE-RQ x acceptor configuration against a reference model written from the statement (one result per proposed id; accepted iff AS configured or promiscuous, and some proposed TS configured-or-any and registry-supported, accepted TS = first such as proposed; reasons AS/TS not supported; RJ reason per failing condition for protocol version, application context, AcceptAny/AcceptCalledAeTitle/custom policy; requestor max PDU absent->32762, 0->maximum, else min(v, maximum)). Exhaustive: 1 context (3 AS x 65 ordered TS lists over {Implicit, Explicit, unknown, NUL-padded Explicit} x 30 configurations) and 2 contexts ((3x65)^2 x 30 configurations) through verif_process_rq (thorough: also all (3x65)^3 triples x 4 configurations); sampled 3-4 contexts and random requests up to 128 contexts; rejection matrix (4 versions x 2 application contexts x 3 policies x AE titles x user identity); a sample and every rejection case also over loopback TCP with a raw client, asserting wire answer = accessor answer = model and ServerAssociation getters = model",
    );
    o.exhaustive = false;
    if cfg.only_case.is_none() && leg.is_none() {
        o.min_evaluations = 100_000;
        o.min_classes = 300;
        let lb = o.local.counters.get("loopback_associations").copied().unwrap_or(0);
        if lb < 500 {
            o.inconclusive = Some(format!("only {} loopback associations completed (floor 500)", lb));
        }
    }
    o
}
