//! C01 — data set write→read round trip in the 4 data-set transfer syntaxes × writer strategies.

use crate::cmp::{cmp_dataset, Ctx};
use crate::gen::ds::{gen_dataset, DsOpts};
use crate::gen::tree::*;
use crate::refenc::{self, LenMode, Ts};
use crate::report::*;
use crate::rng::Rng;
use dicom_encoding::TransferSyntax;
use dicom_object::InMemDicomObject;
use dicom_parser::dataset::write::{DataSetWriterOptions, ExplicitLengthSqItemStrategy};
use dicom_transfer_syntax_registry::entries;
use serde_json::json;
use std::time::Duration;

pub struct TsCase {
    pub name: &'static str,
    pub ts: TransferSyntax,
    pub refts: Ts,
    pub implicit: bool,
}

pub fn four_ts() -> Vec<TsCase> {
    vec![
        TsCase {
            name: "ImplicitLE",
            ts: entries::IMPLICIT_VR_LITTLE_ENDIAN.erased(),
            refts: Ts::ImplicitLe,
            implicit: true,
        },
        TsCase {
            name: "ExplicitLE",
            ts: entries::EXPLICIT_VR_LITTLE_ENDIAN.erased(),
            refts: Ts::ExplicitLe,
            implicit: false,
        },
        TsCase {
            name: "ExplicitBE",
            ts: entries::EXPLICIT_VR_BIG_ENDIAN.erased(),
            refts: Ts::ExplicitBe,
            implicit: false,
        },
        TsCase {
            name: "DeflatedLE",
            ts: entries::DEFLATED_EXPLICIT_VR_LITTLE_ENDIAN.erased(),
            refts: Ts::ExplicitLe,
            implicit: false,
        },
    ]
}

#[derive(Clone, Copy, Debug, PartialEq)]
pub enum Api {
    Default,
    SetUndefined,
    NoChange,
}

impl Api {
    pub fn name(self) -> &'static str {
        match self {
            Api::Default => "default",
            Api::SetUndefined => "opt:SetUndefined",
            Api::NoChange => "opt:NoChange",
        }
    }
}

pub fn write_with(obj: &InMemDicomObject, ts: &TransferSyntax, api: Api) -> Result<Vec<u8>, String> {
    let mut out = Vec::new();
    let r = match api {
        Api::Default => obj.write_dataset_with_ts(&mut out, ts),
        Api::SetUndefined => obj.write_dataset_with_ts_options(
            &mut out,
            ts,
            DataSetWriterOptions::default()
                .explicit_length_sq_item_strategy(ExplicitLengthSqItemStrategy::SetUndefined),
        ),
        Api::NoChange => obj.write_dataset_with_ts_options(
            &mut out,
            ts,
            DataSetWriterOptions::default()
                .explicit_length_sq_item_strategy(ExplicitLengthSqItemStrategy::NoChange),
        ),
    };
    r.map(|_| out).map_err(|e| format!("{:?}", e))
}

fn classes(l: &mut Local, ds: &[GElem], ts: &str) {
    walk(ds, 0, &mut |e, d| {
        let m = match e.val.multiplicity() {
            0 => "0",
            1 => "1",
            _ => "n",
        };
        let odd = match &e.val {
            GVal::Seq(_) | GVal::Pix { .. } => "-",
            _ => {
                if refenc::elem_value_bytes(e, false).len() % 2 == 1 {
                    "odd"
                } else {
                    "even"
                }
            }
        };
        l.class(format!("{}|{}|{}|m{}|{}|d{}", ts, e.vr, e.val.shape(), m, odd, d.min(4)));
    });
}

fn check_one(
    l: &mut Local,
    ds: &[GElem],
    obj: &InMemDicomObject,
    tc: &TsCase,
    api: Api,
    origin: &str,
    replay: &serde_json::Value,
) {
    l.eval();
    let keyp = format!("{}|{}|{}", tc.name, api.name(), origin);
    let bytes = match guarded(|| write_with(obj, &tc.ts, api)) {
        Err(p) => {
            l.violation(
                format!("{}|write-panic|{}", keyp, panic_loc(&p)),
                format!("writing panicked: {}", p),
                replay.clone(),
            );
            return;
        }
        Ok(Err(e)) => {
            let short: String = e.chars().take(200).collect();
            l.violation(
                format!("{}|write-error", keyp),
                format!("writing failed: {}", short),
                replay.clone(),
            );
            return;
        }
        Ok(Ok(b)) => b,
    };
    let back = match guarded(|| InMemDicomObject::read_dataset_with_ts(&bytes[..], &tc.ts)) {
        Err(p) => {
            l.violation(
                format!("{}|read-panic|{}", keyp, panic_loc(&p)),
                format!("reading back panicked: {}", p),
                replay.clone(),
            );
            return;
        }
        Ok(Err(e)) => {
            let mut r = replay.clone();
            r["written_hex"] = json!(hex_short(&bytes, 4096));
            let msg = format!("{:?}", e);
            // error variant name only, for the key
            let variant: String = msg.chars().take_while(|c| c.is_alphanumeric()).collect();
            l.violation(
                format!("{}|read-error|{}", keyp, variant),
                format!("reading back failed: {}", msg.chars().take(300).collect::<String>()),
                r,
            );
            return;
        }
        Ok(Ok(o)) => o,
    };
    let ctx = Ctx {
        implicit: tc.implicit,
        ..Default::default()
    };
    if let Err(m) = cmp_dataset(ds, &back, &ctx, "") {
        let mut r = replay.clone();
        r["written_hex"] = json!(hex_short(&bytes, 4096));
        r["path"] = json!(m.path);
        l.violation(
            format!("{}|{}", keyp, m.key()),
            format!("at {}: {}", m.path, m.detail),
            r,
        );
    }
}

/// Clear the explicit-length mark of sequences whose tag is not a dictionary SQ attribute.
pub fn undefine_foreign_sq(ds: &[GElem]) -> Vec<GElem> {
    use dicom_core::dictionary::{DataDictionary, DataDictionaryEntry, VirtualVr};
    ds.iter()
        .map(|e| {
            let mut e = e.clone();
            if let GVal::Seq(s) = &mut e.val {
                let known = dicom_dictionary_std::StandardDataDictionary
                    .by_tag(dicom_core::Tag(e.tag.0, e.tag.1))
                    .map(|d| d.vr() == VirtualVr::Exact(dicom_core::VR::SQ))
                    .unwrap_or(false);
                if !known {
                    s.explicit = false;
                }
                for it in &mut s.items {
                    it.elems = undefine_foreign_sq(&it.elems);
                }
            }
            e
        })
        .collect()
}

pub fn run(cfg: &Cfg) -> Outcome {
    let tss = four_ts();
    let n = cfg.n(20_000, 600_000);
    let local = run_parallel(
        cfg,
        1,
        RunLimits {
            cases: n,
            wall: Duration::from_secs(if cfg.thorough() { 1500 } else { 150 }),
        },
        |l: &mut Local, rng: &mut Rng, idx: u64| {
            let mut opts = DsOpts::default();
            opts.explicit_marks = true;
            opts.zero_frags = rng.chance(1, 4);
            // every other case may carry (7FE0,0010), native or encapsulated, inside sequence items
            opts.nested_pixel = idx % 2 == 1;
            let ds = gen_dataset(rng, &opts);
            let obj = to_object(&ds);
            let replay = json!({"seed": cfg.seed, "stream": 1, "case": idx, "dataset": ds_json(&ds)});
            if l.want_sample() && idx % 97 == 0 {
                l.sample(json!({"case": idx, "dataset": ds_json(&ds)}));
            }
            for tc in &tss {
                classes(l, &ds, tc.name);
                // (A) generated object (all lengths undefined) through the three writer entry points
                for api in [Api::Default, Api::SetUndefined, Api::NoChange] {
                    check_one(l, &ds, &obj, tc, api, "built", &replay);
                }
                // (B) object carrying recorded explicit lengths: read from a reference-encoded
                // stream with explicit-length sequences/items in the same syntax
                // in Implicit VR a sequence under a tag unknown to the dictionary can only be
                // recognised through its undefined length: keep those undefined
                let ds_marked = if tc.implicit { undefine_foreign_sq(&ds) } else { ds.clone() };
                let enc = refenc::encode(&ds_marked, tc.refts, LenMode::AsMarked);
                let plain_ts = match tc.refts {
                    Ts::ImplicitLe => &tss[0].ts,
                    Ts::ExplicitLe => &tss[1].ts,
                    Ts::ExplicitBe => &tss[2].ts,
                };
                match guarded(|| InMemDicomObject::read_dataset_with_ts(&enc.bytes[..], plain_ts)) {
                    Ok(Ok(obj2)) => {
                        l.count("explicit_length_objects", 1);
                        for api in [Api::SetUndefined, Api::NoChange] {
                            check_one(l, &ds, &obj2, tc, api, "read-explicit", &replay);
                        }
                    }
                    Ok(Err(e)) => {
                        let mut r = replay.clone();
                        r["reference_stream_hex"] = json!(hex_short(&enc.bytes, 4096));
                        let msg = format!("{:?}", e);
                        let variant: String =
                            msg.chars().take_while(|c| c.is_alphanumeric()).collect();
                        l.violation(
                            format!("{}|read-reference-stream|{}", tc.name, variant),
                            format!(
                                "reading a canonical reference stream failed: {}",
                                msg.chars().take(300).collect::<String>()
                            ),
                            r,
                        );
                    }
                    Err(p) => {
                        l.violation(
                            format!("{}|read-reference-stream-panic|{}", tc.name, panic_loc(&p)),
                            format!("reading a canonical reference stream panicked: {}", p),
                            replay.clone(),
                        );
                    }
                }
            }
        },
    );
    let mut o = Outcome::new(
        local,
        "G-DS random data sets (all 34 VRs, private/unknown tags, nesting ≤4, pixel fragments) × 4 transfer syntaxes × {write_dataset_with_ts, options SetUndefined, options NoChange} on built objects, plus objects with recorded explicit lengths (read from an independently encoded explicit-length stream) × {SetUndefined, NoChange}; class = (TS, VR, value shape, multiplicity class, parity, depth)",
    );
    o.min_evaluations = 1000;
    o.min_classes = 200;
    o
}
