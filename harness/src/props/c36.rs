//! C36 — application entity addresses print and parse back unchanged.
//!
//! `dicom_ul::{FullAeAddr<T>, AeAddr<T>}` for T ∈ {SocketAddr, SocketAddrV4, SocketAddrV6, String}:
//! for every title without '@' and every network address `a` (for the socket address types only
//! those for which std's own `a.to_string().parse()` gives `a` back — flow labels are not part of
//! the text form), `to_string()` follows the documented syntax `{ae_title}@{address}` and parses
//! back to the same title and address, through both types; an address without a title prints as
//! the bare address and parses back (as `AeAddr`) without a title, and never acquires one as
//! `FullAeAddr`.

use crate::report::*;
use crate::rng::Rng;
use dicom_ul::{AeAddr, FullAeAddr};
use serde_json::json;
use std::fmt::Display;
use std::net::{Ipv4Addr, Ipv6Addr, SocketAddr, SocketAddrV4, SocketAddrV6};
use std::str::FromStr;
use std::time::Duration;

// ---------------------------------------------------------------------------------------------
// generators

const ODD_CHARS: &[char] = &[
    ' ', '\t', '\n', '\r', '\0', '\\', ':', '[', ']', '%', '/', '#', '?', '.', ',', ';', '!', '"', '\'', '`',
    '(', ')', '{', '}', '<', '>', '|', '~', '^', '*', '+', '=', '$', '&', '-', '_', 'é', 'ß', 'Ω', 'я', '中', '日',
    'ا', 'ש', '\u{0301}', '\u{200B}', '\u{202E}', '\u{FEFF}', '😀', '\u{FF20}', /* fullwidth @ is not '@' */
    '\u{7F}', '\u{80}', '\u{A0}', '\u{2028}',
];

/// (title, class). Never empty, never contains '@'.
fn gen_title(rng: &mut Rng) -> (String, &'static str) {
    let (mut s, class): (String, &'static str) = match rng.below(10) {
        0..=2 => {
            // conventional AE title
            let n = rng.urange(1, 16);
            (
                (0..n)
                    .map(|_| *rng.pick(b"ABCDEFGHIJKLMNOPQRSTUVWXYZ0123456789_-") as char)
                    .collect(),
                "conventional",
            )
        }
        3 => {
            // printable ASCII incl. inner/leading/trailing spaces
            let n = rng.urange(1, 16);
            (
                (0..n).map(|_| (0x20 + rng.below(0x7F - 0x20) as u8) as char).collect(),
                "ascii-printable",
            )
        }
        4 => {
            let n = rng.urange(1, 6);
            ((0..n).map(|_| *rng.pick(ODD_CHARS)).collect(), "odd-chars")
        }
        5 => {
            // conventional with one odd character somewhere
            let n = rng.urange(1, 12);
            let mut v: Vec<char> = (0..n).map(|_| *rng.pick(b"ABCXYZ019_") as char).collect();
            let i = rng.usize(v.len() + 1);
            v.insert(i, *rng.pick(ODD_CHARS));
            (v.into_iter().collect(), "one-odd-char")
        }
        6 => {
            // looks like an address itself
            (
                rng.pick(&["127.0.0.1:104", "[::1]:104", "host:1", "a:b:c", "::", "[", "]:", "1.2.3.4", "pacs.example.com:11112"])
                    .to_string(),
                "address-like",
            )
        }
        7 => {
            // arbitrary unicode scalar values
            let n = rng.urange(1, 10);
            let mut s = String::new();
            while s.chars().count() < n {
                if let Some(c) = char::from_u32(rng.below(0x11_0000) as u32) {
                    s.push(c);
                }
            }
            (s, "unicode-random")
        }
        8 => {
            let n = rng.urange(17, 120);
            (
                (0..n).map(|_| *rng.pick(b"ABCDEFGHIJ0123456789 _-.") as char).collect(),
                "long",
            )
        }
        _ => {
            // backslashes (the printer escapes '@' with a backslash, so these are the
            // neighbours of that rule)
            let n = rng.urange(1, 8);
            ((0..n).map(|_| *rng.pick(&['\\', 'A', '\\', 'b', '1'])).collect(), "backslashes")
        }
    };
    s.retain(|c| c != '@');
    if s.is_empty() {
        s.push('A');
    }
    (s, class)
}

fn gen_port(rng: &mut Rng) -> u16 {
    match rng.below(6) {
        0 => *rng.pick(&[0u16, 1, 104, 2761, 2762, 11112, 65535, 80, 443]),
        _ => rng.below(65536) as u16,
    }
}

fn gen_v4(rng: &mut Rng) -> (SocketAddrV4, &'static str) {
    let (ip, class) = match rng.below(6) {
        0 => (
            *rng.pick(&[
                Ipv4Addr::new(0, 0, 0, 0),
                Ipv4Addr::new(127, 0, 0, 1),
                Ipv4Addr::new(255, 255, 255, 255),
                Ipv4Addr::new(10, 0, 0, 1),
                Ipv4Addr::new(192, 168, 1, 99),
                Ipv4Addr::new(1, 1, 1, 1),
                Ipv4Addr::new(100, 100, 100, 100),
            ]),
            "v4-special",
        ),
        _ => (Ipv4Addr::from(rng.next_u32()), "v4-random"),
    };
    (SocketAddrV4::new(ip, gen_port(rng)), class)
}

fn gen_v6(rng: &mut Rng) -> (SocketAddrV6, &'static str) {
    let (ip, class): (Ipv6Addr, &'static str) = match rng.below(8) {
        0 => (Ipv6Addr::UNSPECIFIED, "v6-unspecified"),
        1 => (Ipv6Addr::LOCALHOST, "v6-loopback"),
        2 => (Ipv4Addr::from(rng.next_u32()).to_ipv6_mapped(), "v6-v4-mapped"),
        3 => {
            let mut seg = [0u16; 8];
            seg[0] = 0xfe80;
            seg[7] = rng.below(65536) as u16;
            seg[6] = rng.below(65536) as u16;
            (Ipv6Addr::from(seg), "v6-link-local")
        }
        4 => {
            // runs of zeros in various places
            let mut seg = [0u16; 8];
            for s in seg.iter_mut() {
                if rng.chance(1, 2) {
                    *s = rng.below(65536) as u16;
                }
            }
            (Ipv6Addr::from(seg), "v6-zero-runs")
        }
        5 => {
            // IPv4-compatible / low addresses (printed with dotted quad or not)
            let mut seg = [0u16; 8];
            seg[6] = rng.below(65536) as u16;
            seg[7] = rng.below(65536) as u16;
            (Ipv6Addr::from(seg), "v6-low")
        }
        _ => {
            let mut seg = [0u16; 8];
            for s in seg.iter_mut() {
                *s = rng.below(65536) as u16;
            }
            (Ipv6Addr::from(seg), "v6-random")
        }
    };
    let scope = match rng.below(4) {
        0 => rng.next_u32(),
        1 => rng.below(16) as u32,
        _ => 0,
    };
    // the flow label has no text form: non-zero ones fail the std precondition and are skipped
    let flow = if rng.chance(1, 40) { rng.next_u32() } else { 0 };
    let class = if scope != 0 && class == "v6-link-local" { "v6-link-local-scoped" } else if scope != 0 { "v6-scoped" } else { class };
    (SocketAddrV6::new(ip, gen_port(rng), flow, scope), class)
}

fn gen_hostname(rng: &mut Rng) -> String {
    let labels = rng.urange(1, 4);
    let mut parts = Vec::new();
    for _ in 0..labels {
        let n = rng.urange(1, 12);
        let s: String = (0..n)
            .map(|_| *rng.pick(b"abcdefghijklmnopqrstuvwxyz0123456789-ABCXYZ") as char)
            .collect();
        parts.push(s);
    }
    parts.join(".")
}

/// host:port strings (and a few shapes without port / with odd text: `String` accepts anything)
fn gen_hoststr(rng: &mut Rng) -> (String, &'static str) {
    match rng.below(10) {
        0..=3 => (format!("{}:{}", gen_hostname(rng), gen_port(rng)), "host:port"),
        4 => (gen_v4(rng).0.to_string(), "v4-text"),
        5 => {
            let (a, _) = gen_v6(rng);
            (SocketAddrV6::new(*a.ip(), a.port(), 0, 0).to_string(), "v6-text")
        }
        6 => (
            format!("{}:{}", rng.pick(&["pacs.hospital.example.com", "localhost", "dicomserver.co.uk", "xn--bcher-kva.example", "bücher.example", "HOST", "host."]), gen_port(rng)),
            "host:port-named",
        ),
        7 => (gen_hostname(rng), "host-without-port"),
        8 => (
            // user-info style or otherwise '@'-bearing address text (the printer has a rule for it)
            format!("{}@{}:{}", gen_hostname(rng), gen_hostname(rng), gen_port(rng)),
            "host-with-at",
        ),
        _ => (
            rng.pick(&["", ":", ":104", "a:b:c", "[::1]", "host:port", " spaced host :1", "h\\:1", "@", "@@", "x@", "@x:1"])
                .to_string(),
            "odd-text",
        ),
    }
}

// ---------------------------------------------------------------------------------------------
// checks

/// Address class as used in violation keys (the fine class stays in the coverage classes).
fn coarse_addr_class(c: &str) -> &'static str {
    match c {
        "host-with-at" => "text-with-at",
        "odd-text" => "text-odd",
        "all-ports" => "all-ports",
        _ if c.starts_with("v4-") && c != "v4-text" => "v4",
        _ if c.starts_with("v6-") && c != "v6-text" => "v6",
        _ => "text",
    }
}

struct Ck<'a> {
    l: &'a mut Local,
    tname: &'static str,
    tclass: &'static str,
    aclass: &'static str,
    seed: u64,
    stream: u64,
    idx: u64,
}

impl Ck<'_> {
    fn fail(&mut self, entry: &str, defect: &str, what: String, title: Option<&str>, addr_text: &str, printed: &str) {
        self.l.violation(
            format!("{}<{}>|{}|title:{}|addr:{}", entry, self.tname, defect, if title.is_some() { self.tclass } else { "none" }, coarse_addr_class(self.aclass)),
            what,
            json!({"seed": self.seed, "stream": self.stream, "case": self.idx, "type": format!("{}<{}>", entry, self.tname),
                   "title": title, "title_escaped": title.map(|t| t.escape_debug().to_string()),
                   "address": addr_text, "printed": printed}),
        );
    }
}

/// All checks for one (title, address) pair and the title-less address, for one address type.
macro_rules! define_check_pair {
    ($fname:ident, $T:ty) => {
fn $fname(ck: &mut Ck, title: &str, addr: &$T) {
    type T = $T;
    let addr_text = addr.to_string();
    let expected_text = format!("{}@{}", title, addr_text);

    // ---- FullAeAddr ----
    ck.l.eval();
    let full = FullAeAddr::new(title, addr.clone());
    let printed = full.to_string();
    if printed != expected_text {
        ck.fail(
            "FullAeAddr",
            "display-not-title@address",
            format!("printed {:?}, documented syntax gives {:?}", printed, expected_text),
            Some(title),
            &addr_text,
            &printed,
        );
    }
    match printed.parse::<FullAeAddr<T>>() {
        Err(e) => ck.fail(
            "FullAeAddr",
            "parse-error",
            format!("{:?} does not parse back: {:?}", printed, e),
            Some(title),
            &addr_text,
            &printed,
        ),
        Ok(back) => {
            if back.ae_title() != title {
                ck.fail(
                    "FullAeAddr",
                    "title-changed",
                    format!("title {:?} printed as {:?} parsed back as {:?}", title, printed, back.ae_title()),
                    Some(title),
                    &addr_text,
                    &printed,
                );
            } else if back.socket_addr() != addr {
                ck.fail(
                    "FullAeAddr",
                    "address-changed",
                    format!("address {:?} printed as {:?} parsed back as {:?}", addr, printed, back.socket_addr()),
                    Some(title),
                    &addr_text,
                    &printed,
                );
            } else if back != full {
                ck.fail("FullAeAddr", "not-equal", format!("{:?} != {:?}", back, full), Some(title), &addr_text, &printed);
            }
        }
    }
    // the same text read as an AeAddr carries the same title
    ck.l.eval();
    match printed.parse::<AeAddr<T>>() {
        Err(e) => ck.fail(
            "FullAeAddr→AeAddr",
            "parse-error",
            format!("{:?} does not parse as AeAddr: {:?}", printed, e),
            Some(title),
            &addr_text,
            &printed,
        ),
        Ok(back) => {
            if back.ae_title() != Some(title) {
                ck.fail(
                    "FullAeAddr→AeAddr",
                    "title-changed",
                    format!("title {:?} printed as {:?} parsed back as {:?}", title, printed, back.ae_title()),
                    Some(title),
                    &addr_text,
                    &printed,
                );
            } else if back.socket_addr() != addr {
                ck.fail(
                    "FullAeAddr→AeAddr",
                    "address-changed",
                    format!("address {:?} printed as {:?} parsed back as {:?}", addr, printed, back.socket_addr()),
                    Some(title),
                    &addr_text,
                    &printed,
                );
            }
        }
    }

    // ---- AeAddr with a title ----
    ck.l.eval();
    let ae = AeAddr::new(title, addr.clone());
    let printed = ae.to_string();
    if printed != expected_text {
        ck.fail(
            "AeAddr",
            "display-not-title@address",
            format!("printed {:?}, documented syntax gives {:?}", printed, expected_text),
            Some(title),
            &addr_text,
            &printed,
        );
    }
    match printed.parse::<AeAddr<T>>() {
        Err(e) => ck.fail("AeAddr", "parse-error", format!("{:?} does not parse back: {:?}", printed, e), Some(title), &addr_text, &printed),
        Ok(back) => {
            if back.ae_title() != Some(title) {
                ck.fail(
                    "AeAddr",
                    "title-changed",
                    format!("title {:?} printed as {:?} parsed back as {:?}", title, printed, back.ae_title()),
                    Some(title),
                    &addr_text,
                    &printed,
                );
            } else if back.socket_addr() != addr {
                ck.fail(
                    "AeAddr",
                    "address-changed",
                    format!("address {:?} printed as {:?} parsed back as {:?}", addr, printed, back.socket_addr()),
                    Some(title),
                    &addr_text,
                    &printed,
                );
            } else if back != ae {
                ck.fail("AeAddr", "not-equal", format!("{:?} != {:?}", back, ae), Some(title), &addr_text, &printed);
            }
        }
    }
    ck.l.eval();
    match printed.parse::<FullAeAddr<T>>() {
        Err(e) => ck.fail(
            "AeAddr→FullAeAddr",
            "parse-error",
            format!("{:?} does not parse as FullAeAddr: {:?}", printed, e),
            Some(title),
            &addr_text,
            &printed,
        ),
        Ok(back) => {
            if back.ae_title() != title || back.socket_addr() != addr {
                ck.fail(
                    "AeAddr→FullAeAddr",
                    if back.ae_title() != title { "title-changed" } else { "address-changed" },
                    format!("{:?} parsed back as ({:?}, {:?})", printed, back.ae_title(), back.socket_addr()),
                    Some(title),
                    &addr_text,
                    &printed,
                );
            }
        }
    }

    // ---- AeAddr without a title ----
    ck.l.eval();
    let bare = AeAddr::new_socket_addr(addr.clone());
    let printed = bare.to_string();
    let expected_bare = if addr_text.contains('@') { format!("@{}", addr_text) } else { addr_text.clone() };
    if printed != expected_bare {
        ck.fail(
            "AeAddr",
            "display-of-bare-address",
            format!("title-less address printed {:?}, expected {:?}", printed, expected_bare),
            None,
            &addr_text,
            &printed,
        );
    }
    match printed.parse::<AeAddr<T>>() {
        Err(e) => ck.fail("AeAddr", "parse-error", format!("{:?} does not parse back: {:?}", printed, e), None, &addr_text, &printed),
        Ok(back) => {
            if let Some(t) = back.ae_title() {
                ck.fail(
                    "AeAddr",
                    "title-invented",
                    format!("address without a title printed as {:?} parsed back with title {:?}", printed, t),
                    None,
                    &addr_text,
                    &printed,
                );
            } else if back.socket_addr() != addr {
                ck.fail(
                    "AeAddr",
                    "address-changed",
                    format!("address {:?} printed as {:?} parsed back as {:?}", addr, printed, back.socket_addr()),
                    None,
                    &addr_text,
                    &printed,
                );
            } else if back != bare {
                ck.fail("AeAddr", "not-equal", format!("{:?} != {:?}", back, bare), None, &addr_text, &printed);
            }
        }
    }
    // a mandatory-title address must not make up a title from a title-less text
    ck.l.eval();
    if let Ok(back) = printed.parse::<FullAeAddr<T>>() {
        ck.fail(
            "AeAddr→FullAeAddr",
            "title-invented",
            format!("title-less {:?} parsed as FullAeAddr with title {:?}", printed, back.ae_title()),
            None,
            &addr_text,
            &printed,
        );
    }
}
    };
}

define_check_pair!(check_v4, SocketAddrV4);
define_check_pair!(check_v6, SocketAddrV6);
define_check_pair!(check_sa, SocketAddr);
define_check_pair!(check_str, String);

/// std-only precondition: the address type's own text form is lossless for this value.
fn std_roundtrips<T: Display + FromStr + PartialEq>(a: &T) -> bool {
    matches!(a.to_string().parse::<T>(), Ok(b) if &b == a)
}

fn one_case(l: &mut Local, rng: &mut Rng, seed: u64, stream: u64, idx: u64) {
    let (title, tclass) = gen_title(rng);
    macro_rules! ck {
        ($tname:expr, $aclass:expr) => {
            Ck { l: &mut *l, tname: $tname, tclass, aclass: $aclass, seed, stream, idx }
        };
    }
    let samp = |l: &mut Local, ty: &str, addr: String| {
        if l.want_sample() && idx % 1009 == 0 {
            l.sample(json!({"case": idx, "type": ty, "title": title.escape_debug().to_string(), "address": addr.clone(),
                            "printed": FullAeAddr::new(title.clone(), addr).to_string().escape_debug().to_string()}));
        }
    };
    let which = rng.below(8);
    match which {
        0 | 1 => {
            let (a, ac) = gen_v4(rng);
            samp(l, "SocketAddrV4", a.to_string());
            l.class(format!("SocketAddrV4|{}|{}", tclass, ac));
            check_v4(&mut ck!("SocketAddrV4", ac), &title, &a);
            let g = SocketAddr::V4(a);
            l.class(format!("SocketAddr|{}|{}", tclass, ac));
            check_sa(&mut ck!("SocketAddr", ac), &title, &g);
            // documented From conversions produce a title-less address
            l.eval();
            let conv: AeAddr<SocketAddr> = g.into();
            if conv.ae_title().is_some() || conv.socket_addr() != &g {
                l.violation(
                    "AeAddr<SocketAddr>|from-socket-addr|wrong-parts".to_string(),
                    format!("From<SocketAddr> gave {:?}", conv),
                    json!({"seed": seed, "stream": stream, "case": idx}),
                );
            }
        }
        2 | 3 => {
            let (a, ac) = gen_v6(rng);
            if !std_roundtrips(&a) {
                l.count("skipped_std_text_form_lossy", 1);
                return;
            }
            samp(l, "SocketAddrV6", a.to_string());
            l.class(format!("SocketAddrV6|{}|{}", tclass, ac));
            check_v6(&mut ck!("SocketAddrV6", ac), &title, &a);
            let g = SocketAddr::V6(a);
            l.class(format!("SocketAddr|{}|{}", tclass, ac));
            check_sa(&mut ck!("SocketAddr", ac), &title, &g);
        }
        _ => {
            let (a, ac) = gen_hoststr(rng);
            samp(l, "String", a.clone());
            l.class(format!("String|{}|{}", tclass, ac));
            check_str(&mut ck!("String", ac), &title, &a);
            // TryFrom<&str> is documented as the same parser
            l.eval();
            let text = format!("{}@{}", title, a);
            match AeAddr::<String>::try_from(text.as_str()) {
                Ok(x) if x.ae_title() == Some(title.as_str()) && x.socket_addr() == &a => {}
                other => l.violation(
                    format!("AeAddr<String>|try-from-str|mismatch|title:{}|addr:{}", tclass, ac),
                    format!("TryFrom<&str>({:?}) gave {:?}", text, other),
                    json!({"seed": seed, "stream": stream, "case": idx, "title": title, "address": a}),
                ),
            }
        }
    }
    l.count(&format!("title_{}", tclass), 1);
}

pub fn run(cfg: &Cfg) -> Outcome {
    let n = cfg.n(2_000_000, 60_000_000);
    let mut local = run_parallel(
        cfg,
        1,
        RunLimits {
            cases: n,
            wall: Duration::from_secs(if cfg.thorough() { 900 } else { 120 }),
        },
        |l: &mut Local, rng: &mut Rng, idx: u64| {
            one_case(l, rng, cfg.seed, 1, idx);
        },
    );
    // exhaustive-small part: every port with a fixed v4 and v6 host, every single odd character
    // as a one-character title
    if cfg.only_case.is_none() {
        let mut l = Local::new();
        for port in 0..=65535u16 {
            let a = SocketAddrV4::new(Ipv4Addr::new(192, 168, 1, 99), port);
            let mut ck = Ck { l: &mut l, tname: "SocketAddrV4", tclass: "conventional", aclass: "all-ports", seed: cfg.seed, stream: 0, idx: port as u64 };
            check_v4(&mut ck, "STORE-SCP", &a);
            let b = SocketAddr::V6(SocketAddrV6::new(Ipv6Addr::LOCALHOST, port, 0, 0));
            let mut ck = Ck { l: &mut l, tname: "SocketAddr", tclass: "conventional", aclass: "all-ports", seed: cfg.seed, stream: 0, idx: port as u64 };
            check_sa(&mut ck, "STORE-SCP", &b);
        }
        l.class("exhaustive|all-ports".to_string());
        for (i, c) in ODD_CHARS.iter().enumerate() {
            for (j, t) in [c.to_string(), format!("A{}", c), format!("{}A", c), format!("{}{}", c, c)].iter().enumerate() {
                let mut ck = Ck { l: &mut l, tname: "String", tclass: "odd-chars", aclass: "host:port", seed: cfg.seed, stream: 0, idx: (i * 4 + j) as u64 };
                check_str(&mut ck, t, &"pacs.example.com:104".to_string());
                let mut ck = Ck { l: &mut l, tname: "SocketAddr", tclass: "odd-chars", aclass: "v4-special", seed: cfg.seed, stream: 0, idx: (i * 4 + j) as u64 };
                check_sa(&mut ck, t, &SocketAddr::from(([127, 0, 0, 1], 104)));
            }
        }
        l.class("exhaustive|odd-single-char-titles".to_string());
        l.count("exhaustive_ports", 65536 * 2);
        l.count("exhaustive_odd_char_titles", ODD_CHARS.len() as u64 * 4);
        local.merge(l);
    }
    let mut o = Outcome::new(
        local,
        "FullAeAddr<T>/AeAddr<T>, T ∈ {SocketAddr, SocketAddrV4, SocketAddrV6, String}: random titles without '@' (conventional, printable ASCII, odd/control/Unicode characters, backslashes, address-like, long) × IPv4/IPv6 socket addresses (special, mapped, scoped, zero runs; std text form must itself be lossless) × host:port strings: Display = documented `title@address`, parse(Display) gives the same title and address through both types; title-less AeAddr prints as the bare address, parses back with no title, FullAeAddr never invents one; TryFrom<&str>; all 65 536 ports, all odd characters as titles. class = (T, title class, address class)",
    );
    o.min_evaluations = 100_000;
    o.min_classes = 60;
    o
}
