//! C35 — `dicom-fromimage` followed by `dicom-toimage` reproduces dimensions and pixel values.
//!
//! Observation: the two real binaries. The harness writes a base DICOM file (random G-DS content,
//! optionally an *old* image module that must be overridden) and a random PNG (L8, L16, RGB8,
//! RGB16; 1–64 px per side), runs `dicom-fromimage base.dcm img.png -o new.dcm`, then
//! `dicom-toimage new.dcm --unwrap -o out.data` (all colour types) and, for RGB,
//! `dicom-toimage new.dcm [-o out.png]` (plain decode: the library documents that Modality/VOI
//! LUTs are ignored for 3 samples per pixel, so a base file carrying rescale/window attributes
//! must not change the values).
//!
//! Oracle: the generated sample array. Unwrapped data must be exactly the samples (8-bit: one byte
//! per sample, 16-bit: little-endian words, pixel-interleaved); the decoded PNG must have the same
//! colour type, dimensions and samples; Rows/Columns of the new DICOM file must be height/width.

use crate::gen::ds::{gen_dataset, DsOpts};
use crate::gen::tree::*;
use crate::proc::{self, RunError, Scratch};
use crate::report::*;
use crate::rng::Rng;
use dicom_core::VR;
use dicom_object::{open_file, FileMetaTableBuilder};
use image::{DynamicImage, ImageBuffer, Luma, Rgb};
use serde_json::json;
use std::path::Path;
use std::process::Command;
use std::time::Duration;

pub const TS_IMPLICIT: &str = "1.2.840.10008.1.2";
pub const TS_EXPLICIT: &str = "1.2.840.10008.1.2.1";
pub const TS_BE: &str = "1.2.840.10008.1.2.2";
pub const TS_DEFLATED: &str = "1.2.840.10008.1.2.1.99";
pub const TS_ENCAP_UNCOMPRESSED: &str = "1.2.840.10008.1.2.1.98";
pub const TS_RLE: &str = "1.2.840.10008.1.2.5";

pub fn ts_name(uid: &str) -> &'static str {
    match uid {
        TS_IMPLICIT => "ImplicitLE",
        TS_EXPLICIT => "ExplicitLE",
        TS_BE => "ExplicitBE",
        TS_DEFLATED => "DeflatedLE",
        TS_ENCAP_UNCOMPRESSED => "EncapUncompressed",
        TS_RLE => "RLE",
        "1.2.840.10008.1.2.4.50" => "JPEGBaseline",
        _ => "other",
    }
}

#[derive(Clone, Copy, Debug, PartialEq)]
enum Color {
    L8,
    L16,
    Rgb8,
    Rgb16,
}

impl Color {
    fn name(self) -> &'static str {
        match self {
            Color::L8 => "L8",
            Color::L16 => "L16",
            Color::Rgb8 => "RGB8",
            Color::Rgb16 => "RGB16",
        }
    }
    fn spp(self) -> usize {
        match self {
            Color::L8 | Color::L16 => 1,
            _ => 3,
        }
    }
    fn bits(self) -> u16 {
        match self {
            Color::L8 | Color::Rgb8 => 8,
            _ => 16,
        }
    }
    fn rgb(self) -> bool {
        self.spp() == 3
    }
}

fn side(rng: &mut Rng) -> u32 {
    match rng.usize(8) {
        0 => 1,
        1 => 2,
        2 => 64,
        3 => 63,
        4 => rng.range(1, 8) as u32,
        _ => rng.range(1, 64) as u32,
    }
}

fn size_class(n: u32) -> &'static str {
    match n {
        1 => "1",
        2..=8 => "2-8",
        9..=32 => "9-32",
        33..=63 => "33-63",
        _ => "64",
    }
}

/// samples in row-major, pixel-interleaved order
fn gen_samples(rng: &mut Rng, n: usize, bits: u16) -> (Vec<u16>, &'static str) {
    let max: u32 = if bits == 8 { 0xFF } else { 0xFFFF };
    match rng.usize(6) {
        0 => ((0..n).map(|i| (i as u32 % (max + 1)) as u16).collect(), "ramp"),
        1 => (vec![max as u16; n], "all-max"),
        2 => (vec![0; n], "all-zero"),
        3 => {
            // values that expose byte-order / sign / narrowing mistakes
            let pool: [u32; 8] = [0, 1, 0x7F, 0x80, 0xFF, 0x100, 0x7FFF, 0x8000];
            ((0..n).map(|_| (*rng.pick(&pool)).min(max) as u16).collect(), "edges")
        }
        _ => ((0..n).map(|_| (rng.next_u32() & max) as u16).collect(), "random"),
    }
}

fn build_image(c: Color, w: u32, h: u32, s: &[u16]) -> DynamicImage {
    match c {
        Color::L8 => DynamicImage::ImageLuma8(
            ImageBuffer::<Luma<u8>, _>::from_raw(w, h, s.iter().map(|x| *x as u8).collect()).unwrap(),
        ),
        Color::L16 => {
            DynamicImage::ImageLuma16(ImageBuffer::<Luma<u16>, _>::from_raw(w, h, s.to_vec()).unwrap())
        }
        Color::Rgb8 => DynamicImage::ImageRgb8(
            ImageBuffer::<Rgb<u8>, _>::from_raw(w, h, s.iter().map(|x| *x as u8).collect()).unwrap(),
        ),
        Color::Rgb16 => {
            DynamicImage::ImageRgb16(ImageBuffer::<Rgb<u16>, _>::from_raw(w, h, s.to_vec()).unwrap())
        }
    }
}

fn us(tag: (u16, u16), v: u16) -> GElem {
    GElem { tag, vr: VR::US, val: GVal::U16(vec![v]) }
}
fn txt(tag: (u16, u16), vr: VR, v: &str) -> GElem {
    GElem { tag, vr, val: GVal::Strs(vec![v.to_string()]) }
}

/// Base data set: random content outside the image pixel module, plus (optionally) an old image
/// module with valid values that `fromimage` has to override or that must be ignored for RGB.
fn gen_base(rng: &mut Rng, ts: &str) -> (GDataset, &'static str) {
    let mut o = DsOpts::default();
    o.pixel = false;
    o.xs_case = false;
    o.big = false;
    o.max_elems = 12;
    let mut ds: Vec<GElem> = gen_dataset(rng, &o)
        .into_iter()
        .filter(|e| {
            !(e.tag.0 == 0x0028
                || e.tag.0 == 0x5200
                || e.tag.0 == 0x7FE0
                || e.tag.0 == 0x2050
                || e.tag == (0x0008, 0x0016)
                || e.tag == (0x0008, 0x0018))
        })
        .collect();
    ds.push(txt((0x0008, 0x0016), VR::UI, "1.2.840.10008.5.1.4.1.1.7"));
    ds.push(txt((0x0008, 0x0018), VR::UI, &format!("1.2.826.0.1.3680043.9.{}", rng.below(1 << 40))));
    let encapsulated = ts == TS_ENCAP_UNCOMPRESSED || ts == TS_RLE;
    let kind = match rng.usize(4) {
        0 => "no-image",
        1 => "old-mono",
        2 => "old-color",
        _ => "old-transforms",
    };
    if kind != "no-image" {
        let (spp, pi) = if kind == "old-color" {
            (3u16, *rng.pick(&["RGB", "YBR_FULL"]))
        } else {
            (1u16, *rng.pick(&["MONOCHROME1", "MONOCHROME2"]))
        };
        let bits = *rng.pick(&[8u16, 16]);
        let stored = if rng.bool() { bits } else { bits - rng.range(1, 4) as u16 };
        let (rows, cols) = (rng.range(1, 9) as u16, rng.range(1, 9) as u16);
        let frames = rng.range(1, 3) as u16;
        ds.push(us((0x0028, 0x0002), spp));
        ds.push(txt((0x0028, 0x0004), VR::CS, pi));
        if spp == 3 || rng.chance(1, 4) {
            ds.push(us((0x0028, 0x0006), rng.below(2) as u16));
        }
        if frames > 1 || rng.bool() {
            ds.push(txt((0x0028, 0x0008), VR::IS, &frames.to_string()));
        }
        ds.push(us((0x0028, 0x0010), rows));
        ds.push(us((0x0028, 0x0011), cols));
        ds.push(us((0x0028, 0x0100), bits));
        ds.push(us((0x0028, 0x0101), stored));
        ds.push(us((0x0028, 0x0102), stored - 1));
        ds.push(us((0x0028, 0x0103), rng.below(2) as u16));
        if kind == "old-transforms" || rng.chance(1, 3) {
            ds.push(txt((0x0028, 0x1052), VR::DS, *rng.pick(&["-1024", "0", "10.5", "-32768"])));
            ds.push(txt((0x0028, 0x1053), VR::DS, *rng.pick(&["1", "2", "0.5", "-1"])));
            if rng.bool() {
                ds.push(txt((0x0028, 0x1054), VR::LO, "HU"));
            }
        }
        if kind == "old-transforms" || rng.chance(1, 3) {
            ds.push(txt((0x0028, 0x1050), VR::DS, *rng.pick(&["40", "127.5", "2048", "-600"])));
            ds.push(txt((0x0028, 0x1051), VR::DS, *rng.pick(&["400", "255", "4096", "1"])));
            if rng.bool() {
                ds.push(txt(
                    (0x0028, 0x1056),
                    VR::CS,
                    *rng.pick(&["LINEAR", "LINEAR_EXACT", "SIGMOID"]),
                ));
            }
        }
        if rng.chance(1, 3) {
            ds.push(txt((0x2050, 0x0020), VR::CS, *rng.pick(&["IDENTITY", "INVERSE"])));
        }
        let n = rows as usize * cols as usize * spp as usize * frames as usize;
        if encapsulated {
            let frags = (0..frames)
                .map(|_| {
                    let k = 2 * rng.urange(1, 20);
                    rng.bytes(k)
                })
                .collect();
            ds.push(GElem {
                tag: (0x7FE0, 0x0010),
                vr: VR::OB,
                val: GVal::Pix { bot: vec![], frags },
            });
        } else if bits == 8 {
            ds.push(GElem { tag: (0x7FE0, 0x0010), vr: VR::OB, val: GVal::U8(rng.bytes(n)) });
        } else {
            ds.push(GElem {
                tag: (0x7FE0, 0x0010),
                vr: VR::OW,
                val: GVal::U16((0..n).map(|_| rng.next_u32() as u16).collect()),
            });
        }
    } else if encapsulated {
        // an encapsulated transfer syntax without pixel data is legal
    }
    ds.sort_by_key(|e| e.tag);
    ds.dedup_by_key(|e| e.tag);
    (ds, kind)
}

pub fn write_file(ds: &[GElem], ts: &str, class: &str, inst: &str, path: &Path) -> Result<(), String> {
    let obj = to_object(ds);
    let f = obj
        .with_meta(
            FileMetaTableBuilder::new()
                .transfer_syntax(ts)
                .media_storage_sop_class_uid(class)
                .media_storage_sop_instance_uid(inst),
        )
        .map_err(|e| format!("meta: {}", e))?;
    f.write_to_file(path).map_err(|e| format!("write {}: {}", path.display(), e))
}

fn expected_raw(c: Color, s: &[u16]) -> Vec<u8> {
    if c.bits() == 8 {
        s.iter().map(|x| *x as u8).collect()
    } else {
        s.iter().flat_map(|x| x.to_le_bytes()).collect()
    }
}

fn first_diff<T: PartialEq + Copy + std::fmt::Debug>(a: &[T], b: &[T]) -> String {
    match a.iter().zip(b.iter()).position(|(x, y)| x != y) {
        Some(i) => format!("first difference at sample/byte {}: expected {:?} got {:?}", i, a[i], b[i]),
        None => format!("lengths differ: expected {} got {}", a.len(), b.len()),
    }
}

const TOOL_TIMEOUT: Duration = Duration::from_secs(60);

enum Step {
    Done(proc::Finished),
    Watchdog,
}

fn run_tool(l: &mut Local, cmd: &mut Command, log: &Path) -> Option<Step> {
    match proc::run_bounded(cmd, log, TOOL_TIMEOUT) {
        Ok(f) => Some(Step::Done(f)),
        Err(RunError::Timeout) => {
            l.count("watchdog_fired", 1);
            l.note("a tool run exceeded the per-process watchdog (case skipped, inconclusive)");
            Some(Step::Watchdog)
        }
        Err(RunError::Spawn(e)) => {
            l.count("spawn_errors", 1);
            l.note(format!("could not spawn a tool: {}", e));
            None
        }
    }
}

fn one_case(cfg: &Cfg, l: &mut Local, rng: &mut Rng, idx: u64, deflate_ok: bool) {
    let (Ok(fromimage), Ok(toimage)) = (proc::tool(cfg, "dicom-fromimage"), proc::tool(cfg, "dicom-toimage"))
    else {
        l.count("tools_missing", 1);
        return;
    };
    let color = *rng.pick(&[Color::L8, Color::L16, Color::Rgb8, Color::Rgb16]);
    let (w, h) = (side(rng), side(rng));
    let n = w as usize * h as usize * color.spp();
    let (samples, pattern) = gen_samples(rng, n, color.bits());
    let mut tss = vec![TS_IMPLICIT, TS_EXPLICIT, TS_BE, TS_ENCAP_UNCOMPRESSED, TS_RLE];
    if deflate_ok {
        tss.push(TS_DEFLATED);
    }
    let base_ts = *rng.pick(&tss);
    let (base, base_kind) = gen_base(rng, base_ts);
    let opt_retain = rng.chance(1, 4);
    let opt_verbose = rng.chance(1, 4);
    let png_default_name = rng.chance(1, 3);
    let decode_all = rng.chance(1, 5);
    let frame_flag = rng.chance(1, 4);

    let Ok(tmp) = Scratch::new(cfg, "c35", idx) else {
        l.count("scratch_errors", 1);
        return;
    };
    let d = tmp.path();
    let replay = json!({
        "seed": cfg.seed, "stream": 35, "case": idx, "color": color.name(), "width": w, "height": h,
        "pattern": pattern, "samples_head": samples.iter().take(48).collect::<Vec<_>>(),
        "base_ts": ts_name(base_ts), "base_kind": base_kind, "base_dataset": ds_json(&base),
        "options": {"retain_implementation": opt_retain, "verbose": opt_verbose,
                    "png_default_name": png_default_name, "decode_all": decode_all, "frame_flag": frame_flag},
    });
    let key = |stage: &str, kind: &str| format!("C35|{}|{}|color={}", stage, kind, color.name());

    // inputs
    let img = build_image(color, w, h, &samples);
    let png = d.join("img.png");
    if let Err(e) = img.save(&png) {
        l.note(format!("harness could not write the PNG: {}", e));
        l.count("harness_errors", 1);
        return;
    }
    let base_path = d.join("base.dcm");
    let inst = format!("1.2.826.0.1.3680043.9.{}", idx + 1);
    if let Err(e) = write_file(&base, base_ts, "1.2.840.10008.5.1.4.1.1.7", &inst, &base_path) {
        l.note(format!("harness could not write the base file: {}", e));
        l.count("harness_errors", 1);
        return;
    }
    l.class(format!(
        "{}|w{}|h{}|{}|base={}|{}",
        color.name(),
        size_class(w),
        size_class(h),
        pattern,
        ts_name(base_ts),
        base_kind
    ));
    l.count(&format!("images_{}", color.name()), 1);
    l.count(&format!("base_ts_{}", ts_name(base_ts)), 1);
    l.count(&format!("base_kind_{}", base_kind), 1);
    if l.want_sample() && idx % 7 == 0 {
        l.sample(json!({"case": idx, "color": color.name(), "width": w, "height": h, "pattern": pattern,
                         "base_ts": ts_name(base_ts), "base_kind": base_kind}));
    }

    // 1. fromimage
    let new_path = d.join("new.dcm");
    let mut cmd = Command::new(&fromimage);
    cmd.current_dir(d).arg(&base_path).arg(&png).arg("-o").arg(&new_path);
    if opt_retain {
        cmd.arg("--retain-implementation");
    }
    if opt_verbose {
        cmd.arg("-v");
    }
    let f = match run_tool(l, &mut cmd, &d.join("fromimage")) {
        Some(Step::Done(f)) => f,
        _ => return,
    };
    l.eval();
    l.count("fromimage_runs", 1);
    if !f.status.success() || !new_path.is_file() {
        let mut r = replay.clone();
        r["expected"] = json!("exit status 0 and new.dcm written");
        r["observed"] = json!({"status": format!("{:?}", f.status), "stderr": f.stderr, "stdout": f.stdout,
                               "output_exists": new_path.is_file()});
        l.violation(
            key("fromimage", if f.status.success() { "no-output" } else { "exit-nonzero" }),
            format!(
                "dicom-fromimage failed on a valid {}x{} {} PNG and a valid base file ({}, {}): {:?} {}",
                w, h, color.name(), ts_name(base_ts), base_kind, f.status,
                f.stderr.chars().take(300).collect::<String>()
            ),
            r,
        );
        return;
    }
    // dimensions recorded in the new DICOM file
    match guarded(|| open_file(&new_path)) {
        Ok(Ok(obj)) => {
            l.eval();
            let get = |t: (u16, u16)| -> Option<u32> {
                obj.element(dicom_core::Tag(t.0, t.1)).ok().and_then(|e| e.to_int::<u32>().ok())
            };
            let (rows, cols) = (get((0x0028, 0x0010)), get((0x0028, 0x0011)));
            if rows != Some(h) || cols != Some(w) {
                let mut r = replay.clone();
                r["expected"] = json!({"Rows": h, "Columns": w});
                r["observed"] = json!({"Rows": rows, "Columns": cols});
                l.violation(
                    key("fromimage", "dims"),
                    format!("new DICOM file has Rows={:?} Columns={:?} for a {}x{} (w x h) image", rows, cols, w, h),
                    r,
                );
            }
        }
        Ok(Err(e)) => {
            let mut r = replay.clone();
            r["observed"] = json!(format!("{}", e));
            l.violation(
                key("fromimage", "output-unreadable"),
                format!("the file written by dicom-fromimage cannot be read back: {}", e),
                r,
            );
            return;
        }
        Err(p) => {
            l.violation(
                key("fromimage", "output-read-panic"),
                format!("reading the file written by dicom-fromimage panicked: {}", p),
                replay.clone(),
            );
            return;
        }
    }

    // 2. toimage --unwrap (all colour types)
    {
        let out = d.join("out.data");
        let mut cmd = Command::new(&toimage);
        cmd.current_dir(d).arg(&new_path).arg("--unwrap").arg("-o").arg(&out);
        if frame_flag {
            cmd.arg("-F").arg("0");
        }
        let f = match run_tool(l, &mut cmd, &d.join("unwrap")) {
            Some(Step::Done(f)) => f,
            _ => return,
        };
        l.eval();
        l.count("unwrap_runs", 1);
        if !f.status.success() || !out.is_file() {
            let mut r = replay.clone();
            r["observed"] = json!({"status": format!("{:?}", f.status), "stderr": f.stderr,
                                   "output_exists": out.is_file()});
            l.violation(
                key("unwrap", if f.status.success() { "no-output" } else { "exit-nonzero" }),
                format!(
                    "dicom-toimage --unwrap failed on the file made from a {}x{} {} image: {:?} {}",
                    w, h, color.name(), f.status, f.stderr.chars().take(300).collect::<String>()
                ),
                r,
            );
        } else {
            let got = std::fs::read(&out).unwrap_or_default();
            let want = expected_raw(color, &samples);
            if got != want {
                let kind = if got.len() != want.len() { "length" } else { "pixels" };
                let mut r = replay.clone();
                r["expected"] = json!({"bytes": want.len(), "head": hex_short(&want, 64)});
                r["observed"] = json!({"bytes": got.len(), "head": hex_short(&got, 64)});
                l.violation(
                    key("unwrap", kind),
                    format!(
                        "unwrapped pixel data of a {}x{} {} image differs: {}",
                        w, h, color.name(), first_diff(&want, &got)
                    ),
                    r,
                );
            }
        }
    }

    // 3. toimage plain decode (RGB only: no intensity transforms apply)
    if color.rgb() {
        let mut cmd = Command::new(&toimage);
        cmd.current_dir(d).arg(&new_path);
        let out = if png_default_name {
            d.join("new.png")
        } else {
            let o = d.join("out.png");
            cmd.arg("-o").arg(&o);
            o
        };
        if decode_all {
            cmd.arg("--decode-all");
        }
        if opt_verbose {
            cmd.arg("-v");
        }
        let f = match run_tool(l, &mut cmd, &d.join("decode")) {
            Some(Step::Done(f)) => f,
            _ => return,
        };
        l.eval();
        l.count("decode_runs", 1);
        if !f.status.success() || !out.is_file() {
            let mut r = replay.clone();
            r["observed"] = json!({"status": format!("{:?}", f.status), "stderr": f.stderr,
                                   "output_exists": out.is_file(), "expected_output": out.display().to_string()});
            l.violation(
                key("decode", if f.status.success() { "no-output" } else { "exit-nonzero" }),
                format!(
                    "dicom-toimage failed to export the file made from a {}x{} {} image: {:?} {}",
                    w, h, color.name(), f.status, f.stderr.chars().take(300).collect::<String>()
                ),
                r,
            );
            return;
        }
        match guarded(|| image::open(&out)) {
            Ok(Ok(back)) => {
                let (bw, bh) = (back.width(), back.height());
                if (bw, bh) != (w, h) {
                    let mut r = replay.clone();
                    r["expected"] = json!({"width": w, "height": h});
                    r["observed"] = json!({"width": bw, "height": bh});
                    l.violation(
                        key("decode", "dims"),
                        format!("exported image is {}x{} but the imported one was {}x{}", bw, bh, w, h),
                        r,
                    );
                    return;
                }
                let got: Option<Vec<u16>> = match (&back, color) {
                    (DynamicImage::ImageRgb8(b), Color::Rgb8) => {
                        Some(b.as_raw().iter().map(|x| *x as u16).collect())
                    }
                    (DynamicImage::ImageRgb16(b), Color::Rgb16) => Some(b.as_raw().clone()),
                    _ => None,
                };
                match got {
                    None => {
                        let mut r = replay.clone();
                        r["expected"] = json!(color.name());
                        r["observed"] = json!(format!("{:?}", back.color()));
                        l.violation(
                            key("decode", "color-type"),
                            format!(
                                "exported image has colour type {:?}, the imported one was {}: sample values cannot be equal",
                                back.color(), color.name()
                            ),
                            r,
                        );
                    }
                    Some(got) => {
                        if got != samples {
                            let mut r = replay.clone();
                            r["expected"] = json!(samples.iter().take(64).collect::<Vec<_>>());
                            r["observed"] = json!(got.iter().take(64).collect::<Vec<_>>());
                            l.violation(
                                key("decode", "pixels"),
                                format!(
                                    "decoded {} image {}x{} differs from the imported one: {}",
                                    color.name(), w, h, first_diff(&samples, &got)
                                ),
                                r,
                            );
                        }
                    }
                }
            }
            Ok(Err(e)) => {
                let mut r = replay.clone();
                r["observed"] = json!(format!("{}", e));
                l.violation(
                    key("decode", "output-unreadable"),
                    format!("the PNG written by dicom-toimage cannot be decoded: {}", e),
                    r,
                );
            }
            Err(p) => {
                l.note(format!("image crate panicked reading toimage output: {}", p));
                l.count("harness_errors", 1);
            }
        }
    }
}

/// Does the tool build read Deflated Explicit VR LE files (a build feature, not part of C35)?
fn probe_deflate(cfg: &Cfg) -> bool {
    let Ok(fromimage) = proc::tool(cfg, "dicom-fromimage") else { return false };
    let Ok(tmp) = Scratch::new(cfg, "c35-probe", 0) else { return false };
    let d = tmp.path();
    let ds = vec![
        txt((0x0008, 0x0016), VR::UI, "1.2.840.10008.5.1.4.1.1.7"),
        txt((0x0008, 0x0018), VR::UI, "1.2.3"),
    ];
    if write_file(&ds, TS_DEFLATED, "1.2.840.10008.5.1.4.1.1.7", "1.2.3", &d.join("b.dcm")).is_err() {
        return false;
    }
    if build_image(Color::L8, 1, 1, &[7]).save(d.join("i.png")).is_err() {
        return false;
    }
    let mut cmd = Command::new(&fromimage);
    cmd.current_dir(d).arg("b.dcm").arg("i.png").arg("-o").arg("n.dcm");
    matches!(proc::run_bounded(&mut cmd, &d.join("probe"), TOOL_TIMEOUT), Ok(f) if f.status.success())
}

pub fn run(cfg: &Cfg) -> Outcome {
    let rule = "real dicom-fromimage + dicom-toimage on random PNGs (L8/L16/RGB8/RGB16, 1-64 px per side, ramps/extremes/random) over random base files (G-DS content, 5-6 transfer syntaxes, optional old image module incl. rescale/window attributes): Rows/Columns of the new file, --unwrap bytes (all colour types) and the decoded PNG (RGB) must equal the generated samples; class = (colour, width class, height class, pattern, base TS, base kind)";
    if let Err(e) = proc::tool(cfg, "dicom-fromimage").and(proc::tool(cfg, "dicom-toimage")) {
        let mut o = Outcome::new(Local::new(), rule);
        o.inconclusive = Some(e);
        return o;
    }
    let deflate_ok = probe_deflate(cfg);
    let n = cfg.n(600, 15000);
    let mut local = run_parallel(
        cfg,
        35,
        RunLimits { cases: n, wall: Duration::from_secs(if cfg.thorough() { 780 } else { 100 }) },
        |l, rng, idx| one_case(cfg, l, rng, idx, deflate_ok),
    );
    local.count("deflated_base_supported_by_tool_build", deflate_ok as u64);
    let watchdogs = local.counters.get("watchdog_fired").copied().unwrap_or(0);
    let mut o = Outcome::new(local, rule);
    o.min_evaluations = 100;
    o.min_classes = 30;
    if watchdogs > 0 && o.local.violations.is_empty() && watchdogs * 10 > n {
        o.inconclusive = Some(format!("{} tool runs hit the watchdog", watchdogs));
    }
    o
}
