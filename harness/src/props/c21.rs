//! C21 — native pixel data frames are extracted exactly (incl. 1-bit images whose pixel count is
//! not a multiple of 8).
//!
//! Oracle: the generated samples themselves (gen::img::GImg). For 8/16 bits allocated the decoded
//! bytes must be the little-endian pixel-interleaved samples; for 1-bit images every sample is
//! expanded to 0/255 where sample k of the whole image is bit (k mod 8) of byte (k div 8) of the
//! packed stream — continuous across frame boundaries (PS3.5 8.2 / Annex D). The packed stream is
//! produced by GImg::native_bytes, the expectation by GImg::expected_decoded*, neither calls
//! dicom-rs.

use crate::gen::img::*;
use crate::report::*;
use crate::rng::Rng;
use dicom_pixeldata::PixelDecoder;
use serde_json::json;
use std::time::Duration;

fn ts_name(uid: &str) -> &'static str {
    match uid {
        TS_IMPLICIT_LE => "ImplicitLE",
        TS_EXPLICIT_LE => "ExplicitLE",
        TS_EXPLICIT_BE => "ExplicitBE",
        TS_DEFLATED_LE => "DeflatedLE",
        _ => "other",
    }
}

/// Label of a wrong 1-bit / byte result relative to the expectation (diagnosis only — the verdict
/// is plain inequality with the oracle).
fn diagnose(observed: &[u8], expected: &[u8]) -> &'static str {
    if observed.len() < expected.len() {
        if observed[..] == expected[..observed.len()] {
            "truncated"
        } else {
            "truncated+content"
        }
    } else if observed.len() > expected.len() {
        if observed[..expected.len()] == expected[..] {
            "too-long"
        } else {
            "too-long+content"
        }
    } else {
        "content"
    }
}

/// All checks on one native image.
#[allow(clippy::too_many_arguments)]
fn check_image(l: &mut Local, seed: u64, stream: u64, idx: u64, img: &GImg, ts: &str, via_file: bool, ow_words: bool) {
    let a = img.bits_allocated;
    let cls1 = if a == 1 {
        if img.frame_samples() % 8 == 0 { "px%8=0" } else { "px%8!=0" }
    } else {
        "-"
    };
    l.class(format!("{}|{}|{}|{}", img.class(), cls1, ts_name(ts), if via_file { "file" } else { "mem" }));
    l.count(&format!("images_a{}_spp{}", a, img.spp), 1);
    l.count(&format!("images_frames_{}", img.frames.min(7)), 1);
    if a == 1 && img.frame_samples() % 8 != 0 {
        l.count("images_1bit_pixelcount_not_multiple_of_8", 1);
        if img.frames > 1 {
            l.count("images_1bit_unaligned_multiframe", 1);
        }
    }
    let replay = json!({"seed": seed, "stream": stream, "case": idx, "image": img.describe(),
        "transfer_syntax": ts, "via_file": via_file});
    if l.want_sample() && idx % 1013 == 0 {
        l.sample(json!({"case": idx, "image": img.describe(), "ts": ts, "via_file": via_file}));
    }
    let mut obj = img.to_file_object(ts, ow_words);
    let total_unpadded = img.native_bytes().len();
    if via_file {
        let bytes = match write_file(&obj) {
            Ok(b) => b,
            Err(e) => {
                l.note(format!("writing a generated native image failed ({}); case skipped: {}", ts_name(ts), &e[..e.len().min(160)]));
                l.count("harness_write_failures", 1);
                return;
            }
        };
        obj = match read_file(&bytes) {
            Ok(o) => o,
            Err(e) => {
                l.note(format!("re-reading a written native image failed ({}); case skipped: {}", ts_name(ts), &e[..e.len().min(160)]));
                l.count("harness_read_failures", 1);
                return;
            }
        };
    }
    let bits = if a == 1 { "1bit".to_string() } else { format!("{}bit", a) };
    let expected = img.expected_decoded();

    // (a) whole-object decode: frames × frame size samples, equal to the stored samples
    l.eval();
    let whole = match guarded(|| obj.decode_pixel_data()) {
        Err(p) => {
            l.violation(format!("C21|{}|whole|panic|{}", bits, panic_loc(&p)), format!("decode_pixel_data panicked: {}", p), replay.clone());
            return;
        }
        Ok(Err(e)) => {
            let mut r = replay.clone();
            r["error"] = json!(format!("{:?}", e).chars().take(300).collect::<String>());
            l.violation(format!("C21|{}|whole|error", bits), format!("decode_pixel_data failed on a valid native image: {}", e), r);
            return;
        }
        Ok(Ok(w)) => w,
    };
    let mut data: &[u8] = whole.data();
    // a native value of odd length is padded in the file; the decoder hands the pad byte
    // through in data() — not demanded either way by the statement, counted only
    if via_file && a != 1 && total_unpadded % 2 == 1 && data.len() == expected.len() + 1 {
        l.count("whole_decode_kept_trailing_pad_byte", 1);
        data = &data[..expected.len()];
    }
    if data != &expected[..] {
        let d = diagnose(data, &expected);
        let mut r = replay.clone();
        r["expected_len"] = json!(expected.len());
        r["observed_len"] = json!(data.len());
        r["expected_hex"] = json!(hex_short(&expected, 512));
        r["observed_hex"] = json!(hex_short(data, 512));
        l.violation(
            format!("C21|{}|whole|{}", bits, d),
            format!(
                "decode_pixel_data on {}x{} px, {} frame(s), {} sample(s)/px, bits allocated {}: {} samples, expected {} ({})",
                img.rows, img.cols, img.frames, img.spp, a, data.len() / img.bytes_per_sample().max(1), expected.len() / img.bytes_per_sample().max(1), d
            ),
            r,
        );
    }
    if whole.number_of_frames() != img.frames || whole.rows() != img.rows as u32 || whole.columns() != img.cols as u32 {
        l.violation(format!("C21|{}|whole|geometry", bits), "decoded geometry differs from the object's attributes".to_string(), replay.clone());
    }

    // (b) frame_data(f) of the whole decode, (c) decode_pixel_data_frame(f)
    for f in 0..img.frames {
        let exp_f = img.expected_decoded_frame(f);
        l.eval();
        let fd: Option<Vec<u8>> = match whole.frame_data(f) {
            Ok(s) => Some(s.to_vec()),
            Err(e) => {
                let mut r = replay.clone();
                r["frame"] = json!(f);
                r["error"] = json!(format!("{}", e));
                l.violation(
                    format!("C21|{}|frame_data|error", bits),
                    format!("frame_data({}) of the whole decode failed ({} frames in the image): {}", f, img.frames, e),
                    r,
                );
                None
            }
        };
        if let Some(fd) = &fd {
            if fd != &exp_f {
                let mut r = replay.clone();
                r["frame"] = json!(f);
                r["expected_hex"] = json!(hex_short(&exp_f, 512));
                r["observed_hex"] = json!(hex_short(fd, 512));
                l.violation(
                    format!("C21|{}|frame_data|{}", bits, diagnose(fd, &exp_f)),
                    format!("frame_data({}) of the whole decode differs from the stored samples of that frame", f),
                    r,
                );
            }
        }
        l.eval();
        match guarded(|| obj.decode_pixel_data_frame(f).map(|d| d.data().to_vec())) {
            Err(p) => {
                l.violation(format!("C21|{}|single-frame|panic|{}", bits, panic_loc(&p)), format!("decode_pixel_data_frame({}) panicked: {}", f, p), replay.clone());
            }
            Ok(Err(e)) => {
                let mut r = replay.clone();
                r["frame"] = json!(f);
                l.violation(format!("C21|{}|single-frame|error", bits), format!("decode_pixel_data_frame({}) failed on a valid native image: {}", f, e), r);
            }
            Ok(Ok(one)) => {
                if one != exp_f {
                    let d = diagnose(&one, &exp_f);
                    // label the known shape: frame f taken from byte f*floor(size/8)
                    let d = if a == 1 {
                        let fs = img.frame_samples();
                        let all = img.expected_decoded();
                        let start = (fs / 8) * 8 * f as usize;
                        let m: Vec<u8> = all[start.min(all.len())..(start + (fs / 8) * 8).min(all.len())].to_vec();
                        if one == m {
                            if f == 0 || start == fs * f as usize { "truncated-to-whole-bytes" } else { "byte-aligned-frame-start" }
                        } else {
                            d
                        }
                    } else {
                        d
                    };
                    let mut r = replay.clone();
                    r["frame"] = json!(f);
                    r["expected_hex"] = json!(hex_short(&exp_f, 512));
                    r["observed_hex"] = json!(hex_short(&one, 512));
                    l.violation(
                        format!("C21|{}|single-frame|{}", bits, d),
                        format!(
                            "decode_pixel_data_frame({}) on {}x{} px × {} frames, bits allocated {}: {} samples, expected {} ({})",
                            f, img.rows, img.cols, img.frames, a, one.len() / img.bytes_per_sample(), exp_f.len() / img.bytes_per_sample(), d
                        ),
                        r,
                    );
                }
                // single-frame decode == slice of the whole decode
                // (implied by the two comparisons above when both hold; reported on its
                // own only if it is the sole discrepancy)
                if let Some(fd) = &fd {
                    l.eval();
                    if &one != fd && one == exp_f && fd == &exp_f {
                        let mut r = replay.clone();
                        r["frame"] = json!(f);
                        l.violation(
                            format!("C21|{}|single-vs-whole", bits),
                            format!("decode_pixel_data_frame({}) differs from frame_data({}) of the whole decode", f, f),
                            r,
                        );
                    }
                }
            }
        }
    }
}

pub fn run(cfg: &Cfg) -> Outcome {
    // minimal hand-made witnesses first (DESIGN §4 row 8: 2×5 px × 3 frames, 1 bit)
    let mut base = Local::new();
    if cfg.only_case.is_none() {
        let mk = |rows: u16, cols: u16, frames: u32| {
            let n = rows as usize * cols as usize * frames as usize;
            GImg {
                rows,
                cols,
                frames,
                spp: 1,
                bits_allocated: 1,
                bits_stored: 1,
                signed: false,
                photometric: "MONOCHROME2",
                fill: Fill::Ramp,
                samples: (0..n).map(|i| ((i * 7 + i / 3) % 3 == 0) as u16).collect(),
                explicit_number_of_frames: true,
            }
        };
        for (i, img) in [mk(2, 5, 3), mk(1, 10, 1), mk(4, 4, 2)].iter().enumerate() {
            check_image(&mut base, cfg.seed, 210, i as u64, img, TS_EXPLICIT_LE, false, false);
        }
    }
    let n = cfg.n(40_000, 1_500_000);
    let local = run_parallel(
        cfg,
        21,
        RunLimits {
            cases: n,
            wall: Duration::from_secs(if cfg.thorough() { 800 } else { 50 }),
        },
        |l: &mut Local, rng: &mut Rng, idx: u64| {
            let mut o = ImgOpts::default();
            // 1-bit is the interesting corner: make it 40 % of the images
            if rng.chance(2, 5) {
                o.allow_8bit = false;
                o.allow_16bit = false;
            }
            o.garbage_high_bits = rng.bool();
            let img = gen_image(rng, &o);
            let ts = *rng.pick(&[TS_EXPLICIT_LE, TS_EXPLICIT_LE, TS_IMPLICIT_LE, TS_EXPLICIT_BE, TS_DEFLATED_LE]);
            let via_file = rng.bool();
            // 16-bit words in Big Endian must be typed words (bytes would be written unswapped)
            let ow_words = ts == TS_EXPLICIT_BE || rng.bool();
            check_image(l, cfg.seed, 21, idx, &img, ts, via_file, ow_words);
        },
    );
    base.merge(local);
    let mut o = Outcome::new(
        base,
        "G-IMG native images (bits allocated 1/8/16, bits stored ≤ allocated with/without garbage above the high bit, signed/unsigned, 1/3 samples, rows/cols 1–17 (+ one dimension up to 64), 1–7 frames, odd frame sizes, 40 % 1-bit) in Implicit/Explicit LE, Explicit BE, Deflated LE, in memory or written+re-read: decode_pixel_data().data() == generated samples (1-bit: bit k of the LSB-first packed stream, continuous across frames, as 0/255), frame_data(f) == samples of frame f, decode_pixel_data_frame(f) == the same; class = (alloc, stored, sign, spp, frames class, frame parity, fill, 1-bit alignment, TS, mem/file)",
    );
    o.min_evaluations = 5000;
    o.min_classes = 100;
    o
}
