//! C17 — person names round-trip between text and components.
//!
//! Oracle: an independent formatter written from the property text / PS3.5 6.2 ("trailing empty
//! components omitted, leading empty components kept as separators") and an independent splitter.
//! Workload: all 32 presence masks × random non-empty component texts without `^`, `=`, `\` and
//! without leading/trailing white space (the parser documents that it trims the text).

use crate::report::*;
use crate::rng::Rng;
use dicom_core::value::person_name::{PersonName, PersonNameBuilder};
use dicom_core::PrimitiveValue;
use serde_json::json;
use std::time::Duration;

/// DICOM order of the five components.
const ORDER: [&str; 5] = ["family", "given", "middle", "prefix", "suffix"];

const ALPHABETS: &[(&str, &[char])] = &[
    ("ascii", &['A', 'b', 'Z', 'q', 'x', 'M', 'r', 'e', 'o', '0', '9']),
    ("punct", &['.', ',', '-', '\'', '(', ')', '/', '_', '+', '&', '#', '~', '!', '?', ':', ';', '@', '*', '"', '%', '<', '>', '[', ']', '{', '}', '|', '$', '`']),
    ("latin1", &['é', 'ü', 'ß', 'Ø', 'ñ', 'Å', 'ç']),
    ("greek", &['Δ', 'η', 'μ', 'ή', 'τ', 'ρ', 'ς']),
    ("cyrillic", &['И', 'в', 'а', 'н', 'Ж', 'ё']),
    ("cjk", &['山', '田', '太', '郎', '王', '小', '東']),
    ("kana", &['や', 'ま', 'だ', 'タ', 'ロ', 'ウ']),
    ("hangul", &['홍', '길', '동', '김']),
    ("arabic", &['ق', 'ب', 'ا', 'ن', 'ي']),
    ("astral", &['😀', '𝔘', '𐍈']),
];

/// inner characters that may appear inside (never at the ends of) a component
const INNER_EXTRA: &[char] = &[' ', ' ', ' ', '\u{00A0}', '\u{3000}'];

fn gen_component(rng: &mut Rng) -> (String, &'static str) {
    let (name, alpha) = *rng.pick(ALPHABETS);
    let mixed = rng.chance(1, 5);
    let len = match rng.below(10) {
        0 => 1,
        1 => rng.urange(20, 64),
        _ => rng.urange(1, 12),
    };
    let mut s = String::new();
    for i in 0..len {
        let inner = i > 0 && i + 1 < len;
        if inner && rng.chance(1, 6) {
            s.push(*rng.pick(INNER_EXTRA));
        } else if mixed {
            let (_, a) = *rng.pick(ALPHABETS);
            s.push(*rng.pick(a));
        } else {
            s.push(*rng.pick(alpha));
        }
    }
    (s, if mixed { "mixed" } else { name })
}

/// Independent formatter: components in DICOM order joined by '^', trailing absent ones omitted.
fn ref_format(c: &[Option<String>; 5]) -> String {
    let last = (0..5).rev().find(|&i| c[i].is_some());
    let mut out = String::new();
    if let Some(last) = last {
        for i in 0..=last {
            if i > 0 {
                out.push('^');
            }
            if let Some(s) = &c[i] {
                out.push_str(s);
            }
        }
    }
    out
}

fn get<'a>(p: &'a PersonName<'_>, i: usize) -> Option<&'a str> {
    match i {
        0 => p.family(),
        1 => p.given(),
        2 => p.middle(),
        3 => p.prefix(),
        _ => p.suffix(),
    }
}

fn build(c: &[Option<String>; 5], order: &[usize; 5]) -> PersonName<'static> {
    let mut b = PersonNameBuilder::new();
    for &i in order {
        if let Some(s) = &c[i] {
            let s = s.clone();
            match i {
                0 => b.with_family(s),
                1 => b.with_given(s),
                2 => b.with_middle(s),
                3 => b.with_prefix(s),
                _ => b.with_suffix(s),
            };
        }
    }
    b.build()
}

fn mask_key(mask: u32) -> String {
    format!("mask={:05b}", mask)
}

pub fn run(cfg: &Cfg) -> Outcome {
    let per_mask = cfg.n(50_000, 1_500_000);
    let cases = 32 * per_mask;
    let local = run_parallel(
        cfg,
        17,
        RunLimits {
            cases,
            wall: Duration::from_secs(if cfg.thorough() { 900 } else { 120 }),
        },
        |l: &mut Local, rng: &mut Rng, idx: u64| {
            let mask = (idx % 32) as u32;
            let mut comps: [Option<String>; 5] = Default::default();
            let mut alpha = Vec::new();
            for i in 0..5 {
                // bit i set = component i (DICOM order) present
                if mask & (1 << i) != 0 {
                    let (s, a) = gen_component(rng);
                    comps[i] = Some(s);
                    alpha.push(a);
                }
            }
            let mut order = [0usize, 1, 2, 3, 4];
            rng.shuffle(&mut order);
            let expected_text = ref_format(&comps);
            let replay = json!({"seed": cfg.seed, "stream": 17, "case": idx, "mask": mask_key(mask),
                "components": {"family": comps[0], "given": comps[1], "middle": comps[2], "prefix": comps[3], "suffix": comps[4]},
                "expected_text": expected_text});
            for a in &alpha {
                l.class(format!("{}|{}", mask_key(mask), a));
            }
            l.class(mask_key(mask));
            if l.want_sample() && idx % 1013 == 7 {
                l.sample(replay.clone());
            }

            // (1) builder -> accessors
            let p = build(&comps, &order);
            l.eval();
            for i in 0..5 {
                if get(&p, i) != comps[i].as_deref() {
                    l.violation(
                        format!("builder|component|{}", ORDER[i]),
                        format!("builder lost component {}: {:?} != {:?}", ORDER[i], get(&p, i), comps[i]),
                        replay.clone(),
                    );
                }
            }
            // (2) formatting vs independent formatter
            l.eval();
            let text = match guarded(|| p.to_dicom_string()) {
                Ok(t) => t,
                Err(pn) => {
                    l.violation(
                        format!("to_dicom_string|panic|{}", panic_loc(&pn)),
                        format!("to_dicom_string panicked: {}", pn),
                        replay.clone(),
                    );
                    return;
                }
            };
            if text != expected_text {
                let mut r = replay.clone();
                r["observed_text"] = json!(text);
                l.violation(
                    format!("to_dicom_string|{}|text-mismatch", mask_key(mask)),
                    format!("to_dicom_string gave {:?}, expected {:?}", text, expected_text),
                    r,
                );
            }
            // structural clauses stated in the property
            if !expected_text.is_empty() && text.ends_with('^') {
                l.violation(
                    format!("to_dicom_string|{}|trailing-separator", mask_key(mask)),
                    format!("trailing empty component not omitted: {:?}", text),
                    replay.clone(),
                );
            }
            // (3) parse back
            l.eval();
            let back = match guarded(|| {
                let q = PersonName::from_text(&text);
                [0, 1, 2, 3, 4].map(|i| get(&q, i).map(|s| s.to_string()))
            }) {
                Ok(b) => b,
                Err(pn) => {
                    l.violation(
                        format!("from_text|panic|{}", panic_loc(&pn)),
                        format!("from_text panicked: {}", pn),
                        replay.clone(),
                    );
                    return;
                }
            };
            for i in 0..5 {
                if back[i] != comps[i] {
                    let mut r = replay.clone();
                    r["observed_text"] = json!(text);
                    r["parsed_back"] = json!(back);
                    l.violation(
                        format!("round-trip|{}|{}", mask_key(mask), ORDER[i]),
                        format!(
                            "component {} after from_text(to_dicom_string(p)): {:?}, expected {:?} (text {:?})",
                            ORDER[i], back[i], comps[i], text
                        ),
                        r,
                    );
                }
            }
            // whole-value equality (PartialEq of PersonName)
            let q = PersonName::from_text(&text);
            if q != p {
                l.violation(
                    format!("round-trip|{}|value-eq", mask_key(mask)),
                    format!("from_text(to_dicom_string(p)) != p for text {:?}", text),
                    replay.clone(),
                );
            }
            // (4) parsing the reference text directly (independent of the formatter under test)
            l.eval();
            let q2 = PersonName::from_text(&expected_text);
            for i in 0..5 {
                if get(&q2, i) != comps[i].as_deref() {
                    l.violation(
                        format!("from_text|{}|{}", mask_key(mask), ORDER[i]),
                        format!(
                            "from_text({:?}).{} = {:?}, expected {:?}",
                            expected_text, ORDER[i], get(&q2, i), comps[i]
                        ),
                        replay.clone(),
                    );
                }
            }
            // (5) the same through PrimitiveValue (From<PersonName> and to_person_name)
            l.eval();
            let pv = PrimitiveValue::from(p.clone());
            match pv.to_person_name() {
                Ok(q3) => {
                    for i in 0..5 {
                        if get(&q3, i) != comps[i].as_deref() {
                            l.violation(
                                format!("PrimitiveValue::to_person_name|{}|{}", mask_key(mask), ORDER[i]),
                                format!(
                                    "PrimitiveValue::from(p).to_person_name().{} = {:?}, expected {:?}",
                                    ORDER[i], get(&q3, i), comps[i]
                                ),
                                replay.clone(),
                            );
                        }
                    }
                }
                Err(e) => l.violation(
                    format!("PrimitiveValue::to_person_name|{}|error", mask_key(mask)),
                    format!("to_person_name failed: {}", e),
                    replay.clone(),
                ),
            }
            l.count("names", 1);
            l.count(&format!("present_{}", mask.count_ones()), 1);
        },
    );
    let mut o = Outcome::new(
        local,
        "all 32 presence masks × random non-empty components (10 alphabets incl. CJK/astral, inner spaces, no ^ = \\ and no white space at the ends) set through the builder in random order; checked: accessors, to_dicom_string == independent formatter (trailing empties omitted, leading kept), from_text(to_dicom_string(p)) == p component-wise and as a value, from_text(reference text), PrimitiveValue::from/to_person_name; class = (mask, alphabet)",
    );
    o.exhaustive = false;
    o.min_evaluations = 32 * 1000;
    o.min_classes = 32 * 5;
    o
}
